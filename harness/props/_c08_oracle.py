"""C08 — the property statement read directly on the outputs of the real code (independent of the Lean model).

affected set A of an item with interval (lo, hi) on an axis a_0 < ... < a_{n-1}:
  inside(I)   = {k : min(lo,hi) <= a_k <= max(lo,hi)}                       must be affected
  allowed(I)  = inside(I) + the axis points nearest to a bound they exceed   may be affected (nearest point semantics)
  an infinite bound: -inf is nearest to a_0, +inf to a_{n-1}
`applies`-type items (zero / only / relation) act exactly on inside(I) (closed membership test).
"""
from __future__ import annotations

import itertools
from fractions import Fraction

import numpy as np

from harness import gen_scheme
from harness.gen_scheme import INF, _num
from harness.props import c02

TOL = 1e-6      # clps / penalties against the independent numpy reference (scipy's nnls is accurate to ~1e-8 only)


def F(x):
    return Fraction(float(x))


def inside(iv, x):
    lo, hi = (iv[0], iv[1]) if iv[0] <= iv[1] else (iv[1], iv[0])
    return lo <= x <= hi


def nearest(axis, b):
    n = len(axis)
    if b == -INF:
        return {0}
    if b == INF:
        return {n - 1}
    d = [abs(F(a) - F(b)) for a in axis]
    m = min(d)
    return {i for i, v in enumerate(d) if v == m}


def inside_set(iv, axis):
    return {k for k, a in enumerate(axis) if inside(iv, a)}


def allowed_set(iv, axis):
    lo, hi = (iv[0], iv[1]) if iv[0] <= iv[1] else (iv[1], iv[0])
    nlo, nhi = nearest(axis, lo), nearest(axis, hi)
    out = set()
    for k, a in enumerate(axis):
        if lo <= a <= hi or (a > hi and k in nhi) or (a < lo and k in nlo):
            out.add(k)
    return out


def classify_iv(iv, axis):
    lo, hi = iv
    tags = []
    if lo > hi:
        tags.append("reversed")
        lo, hi = hi, lo
    if lo == hi:
        tags.append("same-inf" if abs(lo) == INF else ("degenerate-on-point" if lo in axis else "degenerate-off-point"))
    elif lo == -INF and hi == INF:
        tags.append("inf-both")
    elif lo == -INF:
        tags.append("inf-lower")
    elif hi == INF:
        tags.append("inf-upper")
    else:
        tags.append("finite")
    if not (lo == hi and abs(lo) == INF):
        if hi < axis[0]:
            tags.append("below-axis")
        elif lo > axis[-1]:
            tags.append("above-axis")
        elif not inside_set((lo, hi), axis):
            tags.append("between-points")
        elif lo < axis[0] or hi > axis[-1]:
            tags.append("partly-outside")
    return "+".join(tags)


def interval_form(ivs):
    if ivs is None:
        return "none"
    if ivs and isinstance(ivs[0], (list, tuple)):
        return f"list{len(ivs)}"
    return "tuple"


def as_list(ivs):
    if ivs is None:
        return None
    if ivs and isinstance(ivs[0], (list, tuple)):
        return [(_num(a), _num(b)) for a, b in ivs]
    return [(_num(ivs[0]), _num(ivs[1]))]


def applies_by_statement(ivs, x):
    l = as_list(ivs)
    return True if l is None else any(inside(iv, x) for iv in l)


# -------------------------------------------------------------------------------------------------
def check_affected(ck, what, iv, axis, affected, case):
    """affected: collection of axis indices the real code acts on for the single interval iv"""
    cls = classify_iv(iv, axis)
    aff = set(affected)
    miss = inside_set(iv, axis) - aff
    if miss:
        k = min(miss)
        ck.violation(f"{what}-misses-inside-point:{cls}",
                     f"{what}: axis point {axis[k]} (index {k}) lies inside the closed interval {iv} but is not affected "
                     f"(affected indices {sorted(aff)})",
                     {**case, "observed": sorted(aff), "required": f"index {k} affected"})
        return False
    extra = aff - allowed_set(iv, axis)
    if extra:
        k = min(extra)
        ck.violation(f"{what}-beyond-nearest:{cls}",
                     f"{what}: axis point {axis[k]} (index {k}) is affected although it lies outside {iv} and is not the axis "
                     f"point nearest to the bound it exceeds (affected indices {sorted(aff)})",
                     {**case, "observed": sorted(aff), "required": f"index {k} not affected"})
        return False
    return True


def slice_oracle(ck, iv, axis, real, case):
    if "error" in real:
        ck.violation("slice-raises", f"get_axis_slice_from_interval({iv}, {axis}) raised {real['error']}", case)
        return
    check_affected(ck, "slice", iv, axis, real["affected"], case)
    # contiguous ascending run
    a = real["affected"]
    if a and a != list(range(a[0], a[0] + len(a))):
        ck.violation("slice-not-contiguous", f"affected indices {a} are not a contiguous run", case)


def mono_oracle(ck, what, case, inner, outer):
    if inner is None or outer is None:
        return
    if not set(inner) <= set(outer):
        ck.violation(f"{what}-not-monotone",
                     f"{what}: enlarging {case['inner']} to {case['outer']} on axis {case['axis']} shrinks the affected set "
                     f"({sorted(set(inner))} -> {sorted(set(outer))})",
                     {**case, "observed": [sorted(set(inner)), sorted(set(outer))], "required": "inner subset of outer"})


def applies_oracle(ck, case, real):
    kind, ivs, x = case["item"], case["interval"], case["x"]
    if "error" in real:
        ck.violation(f"applies-raises:{kind}:{interval_form(ivs)}", f"{kind}.applies({x}) raised {real['error']}", case)
        return
    want = applies_by_statement(ivs, x)
    if kind == "only":
        want = not want
    if real["value"] != want:
        ck.violation(f"applies-wrong:{kind}:{interval_form(ivs)}",
                     f"{kind} item with interval {ivs}: applies({x}) is {real['value']}, the statement requires {want}",
                     {**case, "observed": real["value"], "required": want})


def does_oracle(ck, case, real):
    kind, ivs, idx = case["item"], case["interval"], case["index"]
    if "error" in real:
        ck.violation("does-interval-item-apply-raises", f"does_interval_item_apply raised {real['error']}", case)
        return
    if idx is None:
        return          # index-free matrices: outside the statement (documented transitional warning), correspondence only
    want = applies_by_statement(ivs, idx)
    if kind == "only":
        want = not want
    if real["value"] != want or real["warned"]:
        ck.violation("does-interval-item-apply-wrong",
                     f"does_interval_item_apply({kind}, interval {ivs}, index {idx}) = {real}, required {want} without warning",
                     {**case, "observed": real, "required": want})


def area_oracle(ck, case, real, singles):
    ivs, axis, mask = [(_num(a), _num(b)) for a, b in case["intervals"]], case["axis"], case["mask"]
    if "error" in real or any("error" in s for s in singles):
        ck.violation("area-raises", f"_get_area raised {real.get('error')}", case)
        return
    present = {k for k, m in enumerate(mask) if m} if not case.get("flat") else set(range(len(axis)))
    for iv, s in zip(ivs, singles):
        idx = s["indices"]
        if sorted(set(idx)) != idx:
            ck.violation("area-indices-not-ascending", f"_get_area collects {idx} for the single interval {iv}", case)
            continue
        cls = classify_iv(iv, axis)
        aff = set(idx)
        miss = (inside_set(iv, axis) & present) - aff
        if miss:
            k = min(miss)
            ck.violation(f"area-misses-inside-point:{cls}",
                         f"_get_area: axis point {axis[k]} (index {k}) lies inside {iv} and carries the clp but is not summed "
                         f"(collected {idx})", {**case, "observed": idx, "required": f"index {k} collected"})
            continue
        extra = aff - (allowed_set(iv, axis) & present)
        if extra:
            k = min(extra)
            ck.violation(f"area-beyond-nearest:{cls}",
                         f"_get_area: index {k} is summed although it is outside {iv}, not nearest to the exceeded bound, or "
                         f"does not carry the clp (collected {idx})", {**case, "observed": idx, "required": f"index {k} not collected"})
    concat = [i for s in singles for i in s["indices"]]
    if real["indices"] != concat:
        ck.violation("area-list-not-concatenation",
                     f"_get_area over the intervals {ivs} gives {real['indices']}, the single intervals give {concat}",
                     {**case, "observed": real["indices"], "required": concat})


def product_of_subset(value, must, may):
    """is value == prod(must) * prod(S) for some S subset of may (values are small dyadic/integers: exact)"""
    base = Fraction(1)
    for v in must:
        base *= F(v)
    for r in range(len(may) + 1):
        for sub in itertools.combinations(may, r):
            p = base
            for v in sub:
                p *= F(v)
            if p == F(value):
                return True
    return False


def weight_entries_oracle(items, maxis, gaxis, got):
    """items: matching weight items (dicts).  Returns None or (m, g, observed, must, may)"""
    sets = []
    for it in items:
        gi, mi = it.get("global_interval"), it.get("model_interval")
        g_in = set(range(len(gaxis))) if gi is None else inside_set((_num(gi[0]), _num(gi[1])), gaxis)
        g_al = set(range(len(gaxis))) if gi is None else allowed_set((_num(gi[0]), _num(gi[1])), gaxis)
        m_in = set(range(len(maxis))) if mi is None else inside_set((_num(mi[0]), _num(mi[1])), maxis)
        m_al = set(range(len(maxis))) if mi is None else allowed_set((_num(mi[0]), _num(mi[1])), maxis)
        sets.append((m_in, g_in, m_al, g_al, it["value"]))
    for m in range(len(maxis)):
        for g in range(len(gaxis)):
            must = [v for (mi_, gi_, ma, ga, v) in sets if m in mi_ and g in gi_]
            may = [v for (mi_, gi_, ma, ga, v) in sets if (m in ma and g in ga) and not (m in mi_ and g in gi_)]
            if not product_of_subset(got[m][g], must, may):
                return (m, g, got[m][g], must, may)
    return None


def weight_oracle(ck, case, real):
    label = case["label"]
    matching = [it for it in case["items"] if label in it["datasets"]]
    both = case["dsweight"] is not None and bool(matching)
    if "error" in real:
        ck.violation("weight-raises" + (":dataset-and-model-weight" if both else ""),
                     f"add_model_weight raised {real['error']}" + (" although the dataset supplies a weight and the documented "
                                                                 "behaviour is to keep it and warn" if both else ""), case)
        return
    if case["dsweight"] is not None:
        if real["weight"] != case["dsweight"]:
            ck.violation("dataset-weight-not-kept", "dataset weight supplied, but the weight in use differs from it",
                         {**case, "observed": real["weight"], "required": case["dsweight"]})
        elif bool(matching) != real["warned"]:
            ck.violation("dataset-weight-warning-missing" if matching else "weight-spurious-warning",
                         f"dataset weight and {len(matching)} matching model weight(s): warning issued = {real['warned']}",
                         {**case, "observed": real["warned"], "required": bool(matching)})
        return
    if not matching:
        if real["weight"] is not None or real["warned"]:
            ck.violation("weight-without-matching-item", f"no model weight names {label!r} but a weight {real['weight']} / warning "
                         f"{real['warned']} results", {**case, "observed": real["weight"], "required": None})
        return
    if real["weight"] is None:
        ck.violation("model-weight-not-applied", f"{len(matching)} model weight(s) name {label!r} but no weight results", case)
        return
    if real["warned"]:
        ck.violation("weight-spurious-warning", "model weight applied without dataset weight, but a warning was issued", case)
    w = real["weight"]
    if len(w) != len(case["maxis"]) or any(len(r) != len(case["gaxis"]) for r in w):
        ck.violation("weight-shape", "weight array is not (model, global)", case)
        return
    bad = weight_entries_oracle(matching, case["maxis"], case["gaxis"], w)
    if bad:
        m, g, v, must, may = bad
        ck.violation("weight-entry-wrong",
                     f"weight[{m}][{g}] = {v} at (model {case['maxis'][m]}, global {case['gaxis'][g]}): the items whose intervals "
                     f"contain the point have values {must}, those that may reach it by nearest-point semantics {may}",
                     {**case, "observed": v, "required": {"must": must, "may": may}})


# -------------------------------------------------------------------------------------------------
# end to end
# -------------------------------------------------------------------------------------------------
def classify_spec(spec):
    tags = []
    for c in spec.get("constraints", []):
        tags.append(c["type"] + ":" + interval_form(c.get("interval")))
    for r in spec.get("relations", []):
        tags.append("relation:" + interval_form(r.get("interval")))
    for p in spec.get("penalties", []):
        tags.append("penalty")
    tags.append(f"constraints={len(spec.get('constraints', []))}")
    tags.append(f"relations={len(spec.get('relations', []))}")
    for w in spec.get("weights", []):
        tags.append("weight:" + ("g" if w.get("global_interval") is not None else "-") + ("m" if w.get("model_interval") is not None else "-"))
    if any(ds.get("weight") is not None and any(ds["label"] in w["datasets"] for w in spec.get("weights", [])) for ds in spec["datasets"]):
        tags.append("dataset-and-model-weight")
    for k in ("constraints", "relations", "penalties", "weights"):
        for it in spec.get(k, []):
            for name in ("interval", "source_intervals", "target_intervals", "global_interval", "model_interval"):
                l = as_list(it.get(name)) if it.get(name) is not None else None
                for iv in l or []:
                    if iv[0] > iv[1]:
                        tags.append("iv:reversed")
                    if INF in (abs(iv[0]), abs(iv[1])):
                        tags.append("iv:infinite")
                    if iv[0] == iv[1]:
                        tags.append("iv:degenerate")
    return sorted(set(tags))


def group_order(spec):
    order = []
    for ds in spec["datasets"]:
        if ds["group"] not in order:
            order.append(ds["group"])
    return order


def arr(da, *dims):
    return np.asarray(da.transpose(*dims).values, dtype=float)


def close(a, b, scale=1.0):
    return abs(a - b) <= TOL * max(1.0, abs(a), abs(b), scale)


def area_candidates(intervals, axis, present):
    """all index lists the statement permits for a list of intervals (concatenation of per-interval choices)"""
    per = []
    for iv in intervals:
        iv = (_num(iv[0]), _num(iv[1]))
        must = sorted(inside_set(iv, axis) & present)
        extra = sorted((allowed_set(iv, axis) & present) - set(must))
        opts = []
        for r in range(len(extra) + 1):
            for sub in itertools.combinations(extra, r):
                opts.append(sorted(must + list(sub)))
        per.append(opts)
    out = []
    for combo in itertools.product(*per):
        out.append([i for part in combo for i in part])
    return out


def penalty_outcomes(p, axis, present_s, present_t, clp_s, clp_t, P):
    """set of possible (value | None) and the possible / mandatory warnings"""
    S = area_candidates(p["source_intervals"], axis, present_s)
    T = area_candidates(p["target_intervals"], axis, present_t)
    outs, warns = [], []
    for s in S:
        for t in T:
            if not s or not t:
                outs.append(None)
                warns.append(None if (not s and not t) else (f"target:{p['target']}" if not t else f"source:{p['source']}"))
            else:
                v = abs(sum(clp_s[i] for i in s) - P[p["parameter"]] * sum(clp_t[i] for i in t)) * p["weight"]
                outs.append(v)
                warns.append(None)
    return outs, warns


def match_penalties(real, outcome_lists, scale):
    """can the real list be produced by choosing one outcome per (scope, penalty) in order?"""
    def rec(i, j):
        if i == len(outcome_lists):
            return j == len(real)
        for o in set(outcome_lists[i]):
            if o is None:
                if rec(i + 1, j):
                    return True
            elif j < len(real) and close(real[j], o, scale):
                if rec(i + 1, j + 1):
                    return True
        return False
    return rec(0, 0)


def member_stats(ck, spec, mem, v):
    """linked group, aligned point v with members (dataset, own index): how often does an interval item decide
    differently at a member's own coordinate than at the aligned coordinate the statement is read on"""
    items = [("constraint", c) for c in spec.get("constraints", [])] + [("relation", r) for r in spec.get("relations", [])]
    for ds, gi in mem:
        own = ds["global_axis"][gi]
        ck.count("link:member-points")
        if own == v:
            continue
        ck.count("link:member-points-merged-into-another-coordinate")
        for kind, it in items:
            if it.get("interval") is None:
                continue
            a_own, a_al = applies_by_statement(it.get("interval"), own), applies_by_statement(it.get("interval"), v)
            ck.count("link:merged-member-x-interval-item")
            if a_own != a_al:
                ck.count("link:merged-member-disagrees-with-aligned:" + kind
                         + (":member-inside-aligned-outside" if a_own else ":member-outside-aligned-inside"))


def e2e_oracle(ck, spec, res, canon_warnings, case):
    P = spec["parameters"]
    warned_labels, pen_warnings = canon_warnings
    weights = {}
    ok = True
    # ---- weights: selection by label, dataset weight wins + warning, blocks on their intervals ----------
    for ds in spec["datasets"]:
        label = ds["label"]
        if label not in res.data:
            ck.violation("e2e-result-missing-dataset", f"no result dataset {label!r}", case)
            return
        r = res.data[label]
        got = arr(r.weight, "model", "global").tolist() if "weight" in r else None
        weights[label] = None if got is None else np.array(got, dtype=float)
        matching = [w for w in spec.get("weights", []) if label in w["datasets"]]
        sub = {**case, "dataset": label}
        if ds.get("weight") is not None:
            if got != np.array(ds["weight"], dtype=float).tolist():
                ck.violation("e2e-dataset-weight-not-kept", f"{label!r}: the dataset supplies a weight but the reported weight differs", sub)
                ok = False
            if bool(matching) != (label in warned_labels):
                ck.violation("e2e-dataset-weight-warning-missing" if matching else "e2e-weight-spurious-warning",
                             f"{label!r}: dataset weight and {len(matching)} model weight(s) naming it; warning issued: {label in warned_labels}", sub)
        elif not matching:
            if got is not None:
                ck.violation("e2e-weight-without-matching-item", f"{label!r}: no model weight names the dataset but a weight is reported", sub)
                ok = False
            if label in warned_labels:
                ck.violation("e2e-weight-spurious-warning", f"{label!r}: warning without dataset weight", sub)
        else:
            if label in warned_labels:
                ck.violation("e2e-weight-spurious-warning", f"{label!r}: model weight applied, yet a warning was issued", sub)
            if got is None:
                ck.violation("e2e-model-weight-not-applied", f"{label!r}: named by {len(matching)} model weight(s) but no weight is reported", sub)
                ok = False
                continue
            bad = weight_entries_oracle(matching, ds["model_axis"], ds["global_axis"], got)
            if bad:
                m, g, v, must, may = bad
                ck.violation("e2e-weight-entry-wrong",
                             f"{label!r}: weight[{m}][{g}] = {v} at (model {ds['model_axis'][m]}, global {ds['global_axis'][g]}); values of "
                             f"the model weights whose intervals contain the point: {must}, reachable by nearest point: {may}",
                             {**sub, "observed": v, "required": {"must": must, "may": may}})
                ok = False
    for l in warned_labels:
        if l not in {d["label"] for d in spec["datasets"]}:
            ck.violation("e2e-weight-spurious-warning", f"warning for unknown dataset {l!r}", case)
    if not ok:
        return
    # ---- clps: the constrained least-squares problem of the statement, per index ---------------------
    nclps = 0
    pen_ok = True
    pen_outcomes_per_group = []
    possible_w, mandatory_w = set(), set()
    for g in group_order(spec):
        members = [ds for ds in spec["datasets"] if ds["group"] == g]
        nnls = spec["groups"][g]["residual_function"] == "non_negative_least_squares"
        linked = gen_scheme.resolve_linked(spec, g)
        outcomes = []

        def wdata(ds):
            d = np.array(ds["data"], dtype=float)
            w = weights.get(ds["label"])
            return (d * w if w is not None else d), w

        def compare(ds, gi, x, order, ref):
            """real clps of dataset ds at its global index gi against the reference dict + exact zero / ratio checks.
            `x` is the coordinate the statement is read on: the dataset's own coordinate in an unlinked group, the ALIGNED
            coordinate of the shared clp in a linked group (the member's own coordinate differs from it by at most the tolerance)"""
            r = res.data[ds["label"]]
            labels = [str(v) for v in r.clp.coords["clp_label"].values]
            c = arr(r.clp, "global", "clp_label")[gi]
            own = ds["global_axis"][gi]
            sub = {**case, "dataset": ds["label"], "global_value": x, "own_coordinate": own}
            # does some item decide differently at the member's own coordinate than at the aligned one?
            moved = own != x and any(applies_by_statement(it.get("interval"), own) != applies_by_statement(it.get("interval"), x)
                                     for it in list(spec.get("constraints", [])) + list(spec.get("relations", [])))
            tag = ":member-and-aligned-coordinate-disagree" if moved else ""
            scale = max([abs(v) for v in ref.values()] + [1.0])
            for l in labels:
                if l in ref and not close(c[labels.index(l)], ref[l], scale):
                    rels = [rr for rr in spec.get("relations", []) if rr["target"] == l or rr["source"] == l]
                    cons = [cc for cc in spec.get("constraints", []) if cc["target"] == l]
                    kind = "relation" if rels else ("constraint" if cons else "free")
                    ck.violation(f"e2e-clp-differs-from-constrained-ls:{kind}:{'linked' if linked else 'unlinked'}{tag}",
                                 f"{ds['label']!r}: clp {l!r} at global value {x}" + (f" (own coordinate {own})" if own != x else "")
                                 + f" is {c[labels.index(l)]}, the least-squares problem "
                                 f"with the constraints/relations that apply at this point (closed intervals) and the reported weight gives {ref[l]}",
                                 {**sub, "observed": float(c[labels.index(l)]), "required": float(ref[l])})
                    return False
            rel_targets = {rr["target"] for rr in spec.get("relations", []) if rr["target"] in order and rr["source"] in order
                           and applies_by_statement(rr.get("interval"), x)}
            for con in spec.get("constraints", []):
                if con["target"] in labels and con["target"] in order and con["target"] not in rel_targets:
                    a = applies_by_statement(con.get("interval"), x)
                    if con["type"] == "only":
                        a = not a
                    if a and c[labels.index(con["target"])] != 0.0:
                        ck.violation(f"e2e-constrained-clp-nonzero:{con['type']}{tag}",
                                     f"{ds['label']!r}: clp {con['target']!r} is constrained ({con['type']}, interval {con.get('interval')}) "
                                     f"at global value {x} but is {c[labels.index(con['target'])]}", sub)
                        return False
            for rr in spec.get("relations", []):
                if rr["target"] in labels and rr["source"] in labels and rr["target"] in order and rr["source"] in order \
                        and applies_by_statement(rr.get("interval"), x):
                    t, s_ = c[labels.index(rr["target"])], c[labels.index(rr["source"])]
                    if t != P[rr["parameter"]] * s_:
                        ck.violation("e2e-related-clp-not-exact" + tag, f"{ds['label']!r}: clp {rr['target']!r} != parameter x {rr['source']!r} "
                                     f"at global value {x} inside {rr.get('interval')}", sub)
                        return False
            return True

        if not linked:
            for ds in members:
                d, w = wdata(ds)
                scale = P[ds["scale"]] if ds.get("scale") is not None else 1.0
                if ds.get("gmcs"):
                    _, order = c02._columns(spec, ds, 0, P)
                    gcols, gorder = c02._columns(spec, ds, 0, P, global_mcs=True)
                    nclps += len(order) * len(gorder)
                    # full model: one least-squares problem over all points; the weight of point (model m, global g) —
                    # checked above to sit on the weight items' intervals — multiplies the row and the datum of THAT point
                    rows, ys, pos = [], [], []
                    for gi in range(len(ds["global_axis"])):
                        cols, order_g = c02._columns(spec, ds, gi, P)
                        for m in range(d.shape[0]):
                            row = [gcols[gl][gi] * cols[l][m] for gl in gorder for l in order_g]
                            if w is not None:
                                row = [v * w[m, gi] for v in row]
                            rows.append(row)
                            ys.append(d[m, gi])
                            pos.append((m, gi))
                    A = np.array(rows, dtype=float)
                    if A.shape[0] >= A.shape[1] and np.linalg.matrix_rank(A) == A.shape[1] and np.linalg.cond(A) < 1e6:
                        _, rref = c02._solve(A, np.array(ys, dtype=float), nnls)
                        r = res.data[ds["label"]]
                        name = "weighted_residual" if (w is not None and "weighted_residual" in r) else "residual"
                        got = arr(r[name], "model", "global")
                        ref = np.zeros_like(got)
                        for (m, gi), v in zip(pos, rref):
                            ref[m, gi] = v
                        sc = max(1.0, float(np.max(np.abs(ys))) if ys else 1.0)
                        if got.shape != ref.shape or not np.all(np.abs(got - ref) <= 1e-8 * sc):
                            ck.violation("e2e-full-model-fit-differs-from-weighted-ls",
                                         f"{ds['label']!r} (global model): {name} differs from the least-squares fit of the Kronecker "
                                         f"problem whose rows and data carry the reported weight of their own point "
                                         f"(max deviation {float(np.max(np.abs(got - ref))) if got.shape == ref.shape else 'shape'})",
                                         {**case, "dataset": ds["label"]})
                            return
                    continue
                real_clp = arr(res.data[ds["label"]].clp, "global", "clp_label")
                real_labels = [str(v) for v in res.data[ds["label"]].clp.coords["clp_label"].values]
                for gi, x in enumerate(ds["global_axis"]):
                    cols, order = c02._columns(spec, ds, gi, P)
                    rcols, rorder, _ = c02._reduce(spec, cols, order, x, P)
                    nclps += len(rorder)
                    a = np.stack([rcols[l] * scale for l in rorder], axis=1) if rorder else np.zeros((d.shape[0], 0))
                    if w is not None:
                        a = a * w[:, gi][:, None]
                    c, _ = c02._solve(a, d[:, gi], nnls)
                    ref = c02._expand(spec, order, rorder, c, x, P)
                    if not compare(ds, gi, x, order, ref):
                        return
                # penalties of this dataset (area over its own axis; the clp is present at every index)
                _, order = c02._columns(spec, ds, 0, P)
                for p in spec.get("penalties", []):
                    ps = set(range(len(ds["global_axis"]))) if p["source"] in order else set()
                    pt = set(range(len(ds["global_axis"]))) if p["target"] in order else set()
                    cs = {i: real_clp[i][real_labels.index(p["source"])] for i in ps}
                    ct = {i: real_clp[i][real_labels.index(p["target"])] for i in pt}
                    o, wn = penalty_outcomes(p, ds["global_axis"], ps, pt, cs, ct, P)
                    outcomes.append(o)
                    possible_w |= {x_ for x_ in wn if x_}
                    if len(set(wn)) == 1 and wn[0]:
                        mandatory_w.add(wn[0])
        else:
            aligned = c02._align([ds["global_axis"] for ds in members], spec.get("clp_link_tolerance", 0.0), spec.get("clp_link_method", "nearest"))
            if aligned is None:
                return
            axis = sorted({v for al in aligned for v in al})
            any_w = any(weights.get(ds["label"]) is not None for ds in members)
            clp_at, labels_at = [], []
            for v in axis:
                mem = [(ds, al.index(v)) for ds, al in zip(members, aligned) if v in al]
                member_stats(ck, spec, mem, v)
                union = []
                for ds, gi in mem:
                    _, order = c02._columns(spec, ds, gi, P)
                    union += [l for l in order if l not in union]
                ucols = {l: [] for l in union}
                ys, ws, has_w = [], [], False
                for ds, gi in mem:
                    d, w = wdata(ds)
                    cols, _ = c02._columns(spec, ds, gi, P)
                    scale = P[ds["scale"]] if ds.get("scale") is not None else 1.0
                    n = d.shape[0]
                    for l in union:
                        ucols[l].append(cols[l] * scale if l in cols else np.zeros(n))
                    ys.append(d[:, gi])
                    if w is not None:
                        has_w = True
                        ws.append(w[:, gi])
                    else:
                        ws.append(np.ones(n))
                full = {l: np.concatenate(ucols[l]) for l in union}
                rcols, rorder, _ = c02._reduce(spec, full, union, v, P)
                nclps += len(rorder)
                a = np.stack([rcols[l] for l in rorder], axis=1) if rorder else np.zeros((sum(len(y) for y in ys), 0))
                if any_w and has_w:
                    a = a * np.concatenate(ws)[:, None]
                c, _ = c02._solve(a, np.concatenate(ys), nnls)
                ref = c02._expand(spec, union, rorder, c, v, P)
                real_here = {}
                for ds, gi in mem:
                    if not compare(ds, gi, v, union, ref):
                        return
                    r = res.data[ds["label"]]
                    ls = [str(q) for q in r.clp.coords["clp_label"].values]
                    cc = arr(r.clp, "global", "clp_label")[gi]
                    for l in ls:
                        real_here.setdefault(l, cc[ls.index(l)])
                clp_at.append(real_here)
                labels_at.append(union)
            for p in spec.get("penalties", []):
                ps = {i for i, u in enumerate(labels_at) if p["source"] in u}
                pt = {i for i, u in enumerate(labels_at) if p["target"] in u}
                cs = {i: clp_at[i][p["source"]] for i in ps}
                ct = {i: clp_at[i][p["target"]] for i in pt}
                o, wn = penalty_outcomes(p, axis, ps, pt, cs, ct, P)
                outcomes.append(o)
                possible_w |= {x_ for x_ in wn if x_}
                if len(set(wn)) == 1 and wn[0]:
                    mandatory_w.add(wn[0])
        pen_outcomes_per_group.append(outcomes)
    # ---- number of clps ------------------------------------------------------------------------------
    if int(res.number_of_clps) != nclps:
        ck.violation("e2e-number-of-clps", f"number_of_clps is {res.number_of_clps}; counting, per global index, the clps that are neither "
                     f"constrained nor relation targets at that index (closed intervals) gives {nclps}",
                     {**case, "observed": int(res.number_of_clps), "required": nclps})
    # ---- equal-area penalties ------------------------------------------------------------------------
    real_pen = [[float(v) for v in np.asarray(p).ravel()] for p in (res.additional_penalty or [])]
    if len(real_pen) != len(pen_outcomes_per_group):
        ck.violation("e2e-penalty-groups", f"additional_penalty has {len(real_pen)} groups, the scheme {len(pen_outcomes_per_group)}", case)
        return
    for gi, (rp, outs) in enumerate(zip(real_pen, pen_outcomes_per_group)):
        scale = max([abs(v) for v in rp] + [1.0])
        if not match_penalties(rp, outs, scale):
            ck.violation("e2e-penalty-differs",
                         f"additional_penalty of group {gi} is {rp}; |sum(source clp over its intervals) - parameter * sum(target clp over its "
                         f"intervals)| * weight, with every point inside an interval summed and nothing beyond the nearest points, allows "
                         f"{[sorted({round(o, 9) if o is not None else None for o in ol}, key=lambda z: (z is None, z)) for ol in outs]}",
                         {**case, "observed": rp})
    got_w = set(pen_warnings)
    if not got_w <= possible_w or not mandatory_w <= got_w:
        ck.violation("e2e-penalty-warning", f"equal-area-penalty warnings {sorted(got_w)}; possible {sorted(possible_w)}, mandatory {sorted(mandatory_w)}", case)
