"""C14 — simulation and fitting agree: simulated data are reproduced and recovered.

Correspondence: the real `glotaran.simulation.simulate` (+ `Optimizer.objective_function`, `optimize`) against the Lean
model (lean/GlotaranModel/C14.lean on top of C02/C03):
  * exact stream  — integer/dyadic test megacomplexes of harness/gen_scheme.py: simulated data must be EQUAL to the model's,
  * builtin stream — every builtin megacomplex (harness/props/_c14_zoo.py): the megacomplex matrices are captured by calling
    each megacomplex's calculate_matrix separately and handed to the model as exact rationals; simulated data compared
    under a forward-error bound, estimated clps under a condition-number bound,
  * malformed-input stream — the error kind of `simulate`,
  * noise stream — `data + std * z` with numpy's own draws as the tape.
Oracle (independent of the model, on the real code): the clauses of the statement — by-label reference simulation,
|objective(x_true)| <= 1e-9 |data|, estimated clps = generating clps / dataset scale, optimize() from the truth does not
move, seeded noise is reproducible (bit-equal) and depends on the seed, recovery from <= 20 % perturbed starts (empirical;
which configurations are tested is decided per configuration by RECOVERY_RULE, evaluated on the real code, and reported).
"""
from __future__ import annotations

import contextlib
import copy
import json
import os
import signal
import time

# the numba kernels of the builtin megacomplexes are run single-threaded here (thread scheduling is C10's subject; on a
# loaded machine nested parallel regions make one evaluation take seconds)
os.environ.setdefault("NUMBA_NUM_THREADS", "1")

from fractions import Fraction

import numpy as np

from harness import core, gen_scheme
from harness.core import enc, lst, rat, rats, strs
from harness.props import _c14_translate as trl
from harness.props import _c14_zoo as zoo
from harness.props import c02, c03

PROP = "C14"
REQUIRED_THEOREMS = [
    "simulate_entry_by_label",
    "simulate_label_selection",
    "simulate_full_model_entry",
    "zero_residual_at_truth",
    "clp_recovered_at_truth",
    "dataset_zero_at_truth",
    "dataset_clps_at_truth",
    "prepared_rank_unweighted",
    "full_model_dataset_zero_at_truth",
    "full_model_data_in_range",
    "full_model_clps_at_truth",
    "full_col_rank_certificate",
    "aligned_axes_shape",
    "stacked_matrix_by_label",
    "linked_problem_in_range",
    "linked_group_zero_at_truth",
    "linked_clps_at_truth",
    "linked_clps_own_order_partial",
    "linked_clps_own_order_counterexample",
    "full_model_clps_from_factor_ranks",
    "objective_zero_at_truth",
    "truth_is_global_min",
    "gradient_zero_at_truth",
    "step_zero_at_truth",
    "noise_free_is_deterministic",
    "seeded_noise_reproducible",
    "seeded_noise_entry",
    "generated_simulate_from_clp_eq_model",
    "generated_simulate_full_model_eq_model",
    "generated_simulate_eq_model",
    "generated_simulate_eq_model_table",
    "simulated_dataset_on_requested_coordinates",
    "zero_tolerance_links_only_equal_points",
    "truth_is_zero_objective_any_label_order",
    "full_model_weighted_truth",
]
LEAN_GEN = core.LEAN / "GlotaranModel" / "Generated" / "C14Fns.lean"
TRUSTED = [
    "glotaran/simulation/simulation.py (simulate, simulate_from_clp, simulate_full_model) is tied by regeneration: "
    "harness/props/_c14_translate.py (an ast -> Lean translator, trusted) rewrites the three functions statement by statement into the "
    "vocabulary lean/GlotaranModel/C14Py.lean (the documented meaning of the numpy / xarray operations they use: isel by position, sel by "
    "label with pandas' duplicate-before-missing order, np.dot, column assignment, np.random.seed / normal on the global generator; trusted, "
    "and observed by the differential streams) and generated_*_eq_model prove the regenerated text equal to the hand-written model; the "
    "composition with the C02/C03 model of the provider stack (MatrixProvider.calculate_dataset_matrix = C02.datasetMatrix) is tied by "
    "differential execution",
    "numpy's global RandomState: np.random.seed(s); np.random.normal(loc, std) == loc + std * RandomState(s).standard_normal "
    "(observed bit for bit on every noise case; the generator itself is a parameter of the model)",
    "LAPACK / scipy.optimize.nnls / scipy.optimize.least_squares numerics (observed: residual at the truth <= 1e-9 |data|, "
    "clps within 1e-10 * cond, no step from the truth); convergence from perturbed starts is empirical",
    "the builtin megacomplexes' calculate_matrix is called a second time by the harness to capture the matrices that are the "
    "inputs of the model (C04-C07 cover their content); numba kernels run with NUMBA_NUM_THREADS=1 in this check",
    "xarray .isel/.sel label selection (modelled: position on the global dimension, label on clp_label; error kinds observed)",
]
ASSUMPTIONS = [
    "no clp constraints / relations / penalties in the fitted model (with them the generating clps would have to satisfy them; "
    "C02/C03 cover the reduced problem)",
    "linked groups: the generating clps of the member datasets are scale_j * (one common value per label and aligned point); the "
    "own-index form of the clp clause is claimed for members whose global axis is in the order of the aligned axis (otherwise: "
    "recorded finding clp-not-generating-over-scale:linked:non-ascending-global-axis, replayed from the corpus)",
    "full models: the global megacomplexes' clp labels contain the model megacomplexes' clp labels (otherwise simulate raises "
    "KeyError, which is compared as an error kind); the dataset scale is used neither by simulate nor by the full-model fit",
    "clp equality is claimed for full-column-rank matrices only (rank-deficient / ill-conditioned cases are counted, the "
    "residual clause is still checked)",
    "underdetermined linear problems (more clps than data points) and scipy-nnls non-convergence are outside this property (C01)",
]
RULE = (
    "exact stream: scheme specs of harness/gen_scheme.py without clp items (1-4 datasets, 1-2 groups, linked/unlinked/auto, "
    "index-(in)dependent integer test megacomplexes with shared labels, megacomplex and dataset scales, dataset/model weights, "
    "VP or NNLS, full models whose global labels are a shuffled superset of the model labels, sometimes split over two global "
    "megacomplexes); per dataset a clp table with shuffled label order, unused extra labels, (global, clp_label) or "
    "(clp_label, global) layout, foreign global coordinates, extra trailing rows; generating clps dyadic, non-negative for NNLS, "
    "zeros included, common per label and aligned point in linked groups; 15 % of the cases without model weights store one dataset "
    "of an unlinked group on a descending global axis. builtin stream: random compositions of "
    "decay-sequential / decay-parallel / decay (chain, branch, back-reaction, weighted parallel) with no / gaussian / "
    "multi-gaussian / spectral-(dispersed) / shifted IRF, coherent artifact, damped oscillation (with and without IRF), PFID "
    "(1-2 resonances inside the spectral window, negative dephasing rates, extra time points before the IRF; not in full models), baseline, "
    "clp-guide datasets, megacomplex scales, dataset scales, 1-3 datasets linked or not, irregular time and spectral axes, "
    "clp-driven or full-model (spectral megacomplex with gaussian / skewed-gaussian / one shapes). malformed stream: missing / "
    "duplicate / absent clp labels, too few clp rows, no clp, index-dependent global matrix, empty global axis. noise stream: "
    "seeds incl. 0, no seed (current generator state), std incl. 0. call stream: one dataset of an exact case, `coordinates` with the model "
    "entry first / last, a third entry, without the model entry, with the model entry only; 30 % with noise. label-order stream: one "
    "linked group at tolerance 0 (all three link methods) of 2-3 datasets that carry the same 2-3 clp labels in different orders (one "
    "megacomplex, split over two, or index dependent; dataset scales and weights), global axes base + {0, 1, 2} with base in {10000, 20000, "
    "12288}, points of later datasets moved by 0 / 2^-4 / -2^-5 (at least one moved: < 1e-5 relative, must stay unlinked; the others linked). "
    "weighted full models: full-model specs with a dataset weight, a model weights item (global and model intervals) or both. recovery stream: 3 of 4 cases from the core family (incl. "
    "deliberately non-identifiable members), 1 of 4 from the whole zoo, starts 3-20 % off; tested / skipped / observed per the rule "
    "in coverage.recovery.rule. non-trivial = simulated data not identically zero; distinct = distinct case description"
)
RTOL = 1e-9
EPS = 2.0 ** -52


def generate(ck):
    """regenerate lean/GlotaranModel/Generated/C14Fns.lean from the source text of simulation.py (written only when it changes)"""
    text, report = trl.translate(core.REPO)
    if trl.write_if_changed(LEAN_GEN, text):
        # a translation Lean does not accept (ill-typed for source of an unforeseen shape) must not take the model library down
        # with it: it is an untranslatable source, handled by the broken-obligation path
        with core.lake_lock():
            rc, out, err = core._run(["lake", "build", "GlotaranModel.Generated.C14Fns"], cwd=core.LEAN)
        if rc != 0:
            errs = [l for l in (out + err).splitlines() if l.startswith("error:")]
            reason = "generated definitions rejected by Lean: " + (errs[0] if errs else "build failed")
            text = trl.all_untranslatable(reason)
            trl.write_if_changed(LEAN_GEN, text)
            report = {f: reason[:300] for f in report}
    ck.extra["translated_functions"] = report
    bad = {k: v for k, v in report.items() if v != "ok"}
    if bad:
        ck.extra["untranslatable"] = bad
    return [{"table": "C14Fns: simulate, simulate_from_clp, simulate_full_model translated statement by statement (guards, the matrix call, "
                      "the column loop with isel / sel / np.dot, the transposed global matrix as clp table, coordinate selection, dispatch, "
                      "seeding and the normal draw on numpy's global generator)",
             "source": trl.SOURCE, "sha1": trl.sha1(text)}]


# ------------------------------------------------------------------------------------------------------------
# protocol helpers
# ------------------------------------------------------------------------------------------------------------
def mat_txt(m):
    return lst(rats(r) for r in m)


def mc_txt(labels, matrix, scale):
    a = np.asarray(matrix, dtype=float)
    if a.ndim == 3:
        body = lst(["d3", lst(mat_txt(b) for b in a.tolist())])
    else:
        body = lst(["d2", mat_txt(a.tolist())])
    return lst([strs(labels), body, "none" if scale is None else rat(scale)])


def clp_txt(clp):
    if clp is None:
        return "none"
    labels = "none" if clp["labels"] is None else strs(clp["labels"])
    return lst([labels, mat_txt(clp["rows"])])


def noise_txt(nz, n):
    if nz is None:
        return "none"
    tape_seed = np.random.RandomState(nz["seed"]).standard_normal(n) if nz["seed"] is not None else np.zeros(0)
    tape_glob = np.random.RandomState(nz["global_seed"]).standard_normal(n)
    return lst([rat(nz["std"]), "none" if nz["seed"] is None else str(int(nz["seed"])), rats(tape_seed.tolist()), rats(tape_glob.tolist())])


def parse_mat(tree):
    return [[Fraction(v) for v in row] for row in tree]


ERR_KINDS = {
    "no-clp": "no-clp", "no-clp-label": "no-clp-label", "global-index-dependent": "global-index-dependent",
    "index": "index", "dup-label": "dup-label", "missing-label": "missing-label",
}


def classify_error(e):
    name, msg = type(e).__name__, str(e)
    if name == "ValueError" and "No global megacomplex is defined and no clp provided" in msg:
        return "no-clp"
    if name == "ValueError" and "Missing coordinate 'clp_label'" in msg:
        return "no-clp-label"
    if name == "ValueError" and "Index dependent models for global dimension" in msg:
        return "global-index-dependent"
    if name == "IndexError":
        return "index"
    if name == "InvalidIndexError":
        return "dup-label"
    if name == "KeyError":
        return "missing-label"
    return f"other:{name}:{msg[:80]}"


# ------------------------------------------------------------------------------------------------------------
# the real `simulate`
# ------------------------------------------------------------------------------------------------------------
def clp_dataarray(clp, global_dim, global_axis, variant):
    import xarray as xr

    if clp is None:
        return None
    labels = clp["labels"]
    ncol = len(labels) if labels is not None else (len(clp["rows"][0]) if clp["rows"] else 0)
    rows = np.array(clp["rows"], dtype=float).reshape(len(clp["rows"]), ncol)
    gax = np.asarray(global_axis, dtype=float)
    if rows.shape[0] != gax.size:
        gax = np.arange(rows.shape[0], dtype=float)
    if variant == "shifted-coords":
        gax = gax + 1000.0
    if labels is None:
        da = xr.DataArray(rows, coords={global_dim: gax}, dims=(global_dim, "clp_label"))
    else:
        da = xr.DataArray(rows, coords=[(global_dim, gax), ("clp_label", list(labels))])
    if variant == "transposed":
        da = da.transpose("clp_label", global_dim)
    return da


def real_simulate(model, parameters, label, coords, model_dim, clp_da, nz):
    """-> ("ok", model x global array) | ("err", kind)"""
    from glotaran.simulation import simulate

    kw = {}
    if nz is not None:
        np.random.seed(nz["global_seed"])
        kw = {"noise": True, "noise_std_dev": nz["std"], "noise_seed": nz["seed"]}
    try:
        ds = simulate(model, label, parameters, coords, clp=clp_da, **kw)
    except Exception as e:  # noqa: BLE001 - the kind is the observable
        return "err", classify_error(e)
    gdim = next(d for d in coords if d != model_dim)
    return "ok", np.asarray(ds.data.transpose(model_dim, gdim).values, dtype=float), ds


def capture_megacomplexes(model, parameters, label, model_axis, global_axis):
    """outputs of every (global) megacomplex of the dataset, obtained by calling calculate_matrix directly"""
    from glotaran.model.dataset_model import iterate_dataset_model_global_megacomplexes
    from glotaran.model.dataset_model import iterate_dataset_model_megacomplexes
    from glotaran.model.item import fill_item

    dm = fill_item(model.dataset[label], model, parameters)
    out = {"mcs": [], "gmcs": []}
    for scale, mc in iterate_dataset_model_megacomplexes(dm):
        labels, m = mc.calculate_matrix(dm, np.asarray(global_axis, dtype=float), np.asarray(model_axis, dtype=float))
        out["mcs"].append((list(labels), np.array(m, dtype=float), None if scale is None else float(getattr(scale, "value", scale))))
    for scale, mc in iterate_dataset_model_global_megacomplexes(dm):
        labels, m = mc.calculate_matrix(dm, np.asarray(model_axis, dtype=float), np.asarray(global_axis, dtype=float))
        out["gmcs"].append((list(labels), np.array(m, dtype=float), None if scale is None else float(getattr(scale, "value", scale))))
    out["scale"] = None if dm.scale is None else float(getattr(dm.scale, "value", dm.scale))
    return out


def combine_by_label(mcs, n_global):
    """label -> per-global-index column, first-seen order (the statement: shared labels add, megacomplex scale applied)"""
    order, cols = [], {}
    for labels, m, scale in mcs:
        a = m if scale is None else m * scale
        for c, l in enumerate(labels):
            col = [(a[g][:, c] if a.ndim == 3 else a[:, c]) for g in range(n_global)]
            if l in cols:
                cols[l] = [x + y for x, y in zip(cols[l], col)]
            else:
                cols[l] = col
                order.append(l)
    return order, cols


def expected_rejection(cap, clp, n_global):
    """None if the statement defines the simulated data for this input, else why it does not (the oracle only
    distinguishes defined / undefined; the precise error kind is compared with the model)"""
    if cap["gmcs"]:
        if any(np.ndim(m) == 3 for _, m, _ in cap["gmcs"]):
            return "the global matrix is index dependent"
        labels, n_rows = combine_by_label(cap["gmcs"], 1)[0], n_global
    else:
        if clp is None:
            return "no clp and no global megacomplex"
        if clp["labels"] is None:
            return "the clp array has no clp_label coordinate"
        labels, n_rows = clp["labels"], len(clp["rows"])
    if n_global == 0:
        return None
    if len(set(labels)) != len(labels):
        return "clp labels are not unique"
    want = combine_by_label(cap["mcs"], n_global)[0]
    missing = [l for l in want if l not in labels]
    if missing:
        return f"matrix labels {missing} are not clp labels"
    if n_rows < n_global:
        return f"{n_rows} clp rows for {n_global} global points"
    return None


def reference_simulation(cap, clp, n_model, n_global):
    """data and a forward error bound, written from the statement: data[:, i] = sum_l matrix_i[:, l] * clp_i[l] (by label)"""
    order, cols = combine_by_label(cap["mcs"], n_global)
    data = np.zeros((n_model, n_global))
    bound = np.zeros((n_model, n_global))
    if cap["gmcs"]:
        gorder, gcols = combine_by_label(cap["gmcs"], 1)
        value = lambda i, l: gcols[l][0][i]  # noqa: E731
    else:
        idx = {l: j for j, l in enumerate(clp["labels"])}
        value = lambda i, l: clp["rows"][i][idx[l]]  # noqa: E731
    for i in range(n_global):
        for l in order:
            term = cols[l][i] * value(i, l)
            data[:, i] += term
            bound[:, i] += np.abs(term)
    return data, bound


# ------------------------------------------------------------------------------------------------------------
# exact stream: cases
# ------------------------------------------------------------------------------------------------------------
def dyadic(rng, nonneg):
    v = rng.choice([0, 1, 2, 3, 4, 6, 1, 2]) * rng.choice([1.0, 0.5, 1.0])
    if not nonneg and rng.random() < 0.4:
        v = -v
    return float(v)


def exact_case(rng):
    spec = gen_scheme.rand_spec(rng, allow_items=False)
    # model-level weights (allow_items=False switches them off in the generator)
    if rng.random() < 0.25:
        who = rng.sample([d["label"] for d in spec["datasets"]], rng.randint(1, len(spec["datasets"])))
        spec["weights"].append({"datasets": who, "value": rng.choice([2.0, 0.5, 4.0]),
                                "global_interval": gen_scheme.jsonable_interval([rng.choice([1.0, 2.0, -gen_scheme.INF]), rng.choice([3.0, 12.0, gen_scheme.INF])]),
                                "model_interval": None})
    return attach_sim(rng, spec, descending=not spec["weights"] and rng.random() < 0.15)


def label_order_case(rng):
    """a linked group at tolerance 0 whose members carry the SAME clp labels in DIFFERENT orders, on global axes of magnitude
    1e4 some of whose points differ by 2^-4 / 2^-5 (< 1e-5 relative: must not be linked) and some of which coincide (linked)"""
    labels = rng.choice([["decay", "artifact"], ["decay", "artifact", "s3"], ["s1", "s2"]])
    base = rng.choice([10000.0, 20000.0, 12288.0])
    n_pts = rng.choice([2, 3])
    pts = [base + j for j in range(n_pts)]
    n_ds = rng.choice([2, 2, 3])
    params = {}
    datasets = []
    for i in range(n_ds):
        lab = list(labels)
        if i > 0:
            while lab == labels:
                rng.shuffle(lab)
        elif rng.random() < 0.3:
            rng.shuffle(lab)
        if i == 0:
            gax = list(pts)
        else:
            gax = [x + rng.choice([0.0, 0.0625, -0.03125, 0.0625]) for x in pts]
            if all(x in pts for x in gax):
                gax[0] = pts[0] + 0.0625
        n_model = rng.randint(len(lab) + 1, len(lab) + 2)
        split = len(lab) >= 2 and rng.random() < 0.4
        idx_dep = rng.random() < 0.3

        def mat(ncol):
            m = [[1.0 if r == c else 0.0 for c in range(ncol)] for r in range(ncol)] + \
                [[float(rng.randint(0, 3)) for _ in range(ncol)] for _ in range(n_model - ncol)]
            return m
        if split:
            k = rng.randint(1, len(lab) - 1)
            full = mat(len(lab))
            mcs = [{"labels": lab[:k], "index_dependent": False, "base": [r[:k] for r in full], "pars": None, "scale": None},
                   {"labels": lab[k:], "index_dependent": False, "base": [r[k:] for r in full], "pars": None, "scale": None}]
        elif idx_dep:
            mcs = [{"labels": lab, "index_dependent": True, "base": [mat(len(lab)) for _ in gax], "pars": None, "scale": None}]
        else:
            mcs = [{"labels": lab, "index_dependent": False, "base": mat(len(lab)), "pars": None, "scale": None}]
        scale = None
        if rng.random() < 0.4:
            scale = f"p.{len(params) + 1}"
            params[scale] = rng.choice([2.0, 0.5, 4.0])
        weight = None
        if rng.random() < 0.25:
            weight = [[rng.choice([1.0, 2.0, 0.5]) for _ in gax] for _ in range(n_model)]
        datasets.append({"label": f"d{i + 1}", "group": "default", "global_axis": gax, "model_axis": [float(j) for j in range(n_model)],
                         "dims_order": rng.choice(["mg", "gm"]), "data": None, "weight": weight, "scale": scale, "mcs": mcs, "gmcs": []})
    if not params:
        params["p.1"] = 2.0
        datasets[0]["scale"] = "p.1"
    spec = {"groups": {"default": {"link_clp": True, "residual_function": rng.choice(["variable_projection", "variable_projection", "non_negative_least_squares"])}},
            "clp_link_tolerance": 0.0, "clp_link_method": rng.choice(["nearest", "backward", "forward"]), "parameters": params,
            "datasets": datasets, "constraints": [], "relations": [], "penalties": [], "weights": []}
    case = attach_sim(rng, spec, descending=False)
    case["tags"] = ["label-order"]
    return case


def full_weighted_case(rng):
    """a full model (global megacomplexes) with a dataset weight variable or a model `weights:` item"""
    for _ in range(50):
        spec = gen_scheme.rand_spec(rng, allow_items=False, allow_linked=False, force={"full_model": True, "n_groups": 1})
        if all(len(d["global_axis"]) >= len({l for mc in d["mcs"] for l in mc["labels"]}) for d in spec["datasets"]):
            break
    how = rng.choice(["dataset-weight", "model-weight", "both"])
    for g in spec["groups"].values():
        # the exact NNLS model enumerates supports: 2^(global labels x model labels); keep the Kronecker problem small
        if g["residual_function"] == "non_negative_least_squares" and \
                any(len({l for mc in d["mcs"] for l in mc["labels"]}) * (len({l for mc in d["mcs"] for l in mc["labels"]}) + 1) > 6 for d in spec["datasets"]):
            g["residual_function"] = "variable_projection"
    for d in spec["datasets"]:
        d["weight"] = None
        if how in ("dataset-weight", "both") and (how == "dataset-weight" or rng.random() < 0.5):
            d["weight"] = [[rng.choice([1.0, 2.0, 0.5, 4.0]) for _ in d["global_axis"]] for _ in d["model_axis"]]
    if how in ("model-weight", "both"):
        if all(d["weight"] is not None for d in spec["datasets"]):
            spec["datasets"][0]["weight"] = None          # (a dataset weight would win over the model weight, with a warning)
        who = [d["label"] for d in spec["datasets"] if d["weight"] is None]
        spec["weights"].append({"datasets": who, "value": rng.choice([2.0, 0.5, 4.0]),
                                "global_interval": gen_scheme.jsonable_interval([rng.choice([1.0, 2.0, -gen_scheme.INF]), rng.choice([3.0, 12.0, gen_scheme.INF])]),
                                "model_interval": rng.choice([None, gen_scheme.jsonable_interval([1.0, gen_scheme.INF])])})
    case = attach_sim(rng, spec, descending=False)
    case["tags"] = ["full-weighted:" + how]
    return case


def attach_sim(rng, spec, descending=False):
    """clp tables / generating clps for every dataset of the spec -> an `exact` case"""
    P = spec["parameters"]
    sim = {}
    group_order = []
    for ds in spec["datasets"]:
        if ds["group"] not in group_order:
            group_order.append(ds["group"])
        nlab = len({l for mc in ds["mcs"] for l in mc["labels"]})
        if ds.get("gmcs") and len(ds["global_axis"]) < nlab:
            ds["gmcs"] = []          # the global matrix could not have full column rank: not a full model in this stream
    if descending:
        # "arbitrary coordinates": one dataset of an unlinked group is stored with a descending global axis (only the coordinate
        # values change: matrices, weights and clp rows stay attached to their positions). Linked groups are left alone: there a
        # member whose own axis order differs from the aligned axis is the recorded finding
        # clp-not-generating-over-scale:linked:non-ascending-global-axis (corpus witness linked-descending-global-axis.json),
        # and for non-ascending axes the order of the aligned axis is xarray's (C09 trusts "sorted union" for ascending input).
        free = [d for d in spec["datasets"] if not gen_scheme.resolve_linked(spec, d["group"])]
        if free:
            ds = rng.choice(free)
            ds["global_axis"] = list(reversed(ds["global_axis"]))
    for g in group_order:
        members = [d for d in spec["datasets"] if d["group"] == g]
        nnls = spec["groups"][g]["residual_function"] == "non_negative_least_squares"
        linked = gen_scheme.resolve_linked(spec, g)
        aligned = None
        if linked:
            aligned = c02._align([d["global_axis"] for d in members], spec.get("clp_link_tolerance", 0.0), spec.get("clp_link_method", "nearest"))
        common = {}
        for k, ds in enumerate(members):
            mlabels = []
            for mc in ds["mcs"]:
                mlabels += [l for l in mc["labels"] if l not in mlabels]
            s = P[ds["scale"]] if ds.get("scale") is not None else 1.0
            n_global = len(ds["global_axis"])
            entry = {"variant": rng.choice(["plain", "plain", "transposed", "shifted-coords"]),
                     "coords": rng.choice(["model-first", "global-first"]), "noise": None}
            if ds.get("gmcs"):
                # global labels: shuffled superset of the model labels, sometimes over two global megacomplexes (overlapping)
                gl = list(mlabels) + (["gx"] if rng.random() < 0.4 and n_global > len(mlabels) else [])
                rng.shuffle(gl)
                gscale = ds["gmcs"][0].get("scale")
                G = np.array(gen_scheme.rand_matrix(rng, n_global, len(gl)), dtype=float)

                def gmc(labels_, base):
                    return {"labels": labels_, "index_dependent": False, "pars": None, "scale": gscale, "base": np.asarray(base).tolist()}
                if len(gl) >= 2 and rng.random() < 0.4:
                    k2 = rng.randint(1, len(gl) - 1)
                    v = np.array([float(rng.randint(-2, 3)) for _ in range(n_global)])
                    left = G[:, :k2].copy()
                    left[:, 0] -= v          # the shared label gl[0]: the two global megacomplexes add up to G[:, 0]
                    ds["gmcs"] = [gmc(gl[:k2], left), gmc(gl[k2:] + [gl[0]], np.column_stack([G[:, k2:], v]))]
                else:
                    ds["gmcs"] = [gmc(gl, G)]
                entry["clp"] = None
                if rng.random() < 0.35:
                    entry["clp"] = {"labels": list(mlabels), "rows": [[dyadic(rng, False) + 1.0 for _ in mlabels] for _ in range(n_global)]}
                entry["truth"] = None
            else:
                def truth(i, l):
                    if linked and aligned is not None:
                        key = (l, aligned[k][i])
                        if key not in common:
                            common[key] = dyadic(rng, nnls)
                        return common[key]
                    return dyadic(rng, nnls)
                trows = [[truth(i, l) for l in mlabels] for i in range(n_global)]
                order = list(range(len(mlabels)))
                rng.shuffle(order)
                labels = [mlabels[j] for j in order]
                rows = [[r[j] * s for j in order] for r in trows]
                for extra in ["zz", "s9"][: rng.choice([0, 0, 1, 2])]:
                    pos = rng.randint(0, len(labels))
                    labels.insert(pos, extra)
                    for r in rows:
                        r.insert(pos, dyadic(rng, False) + 7.0)
                if rng.random() < 0.2:
                    rows.append([dyadic(rng, False) for _ in labels])      # an extra trailing row (ignored: positional)
                entry["clp"] = {"labels": labels, "rows": rows}
                entry["truth"] = {"labels": mlabels, "rows": trows}
            ds["data"] = None
            sim[ds["label"]] = entry
    vary = sorted(P)[: rng.choice([1, 2])]
    spec["vary"] = vary
    spec["max_nfev"] = 4
    return {"kind": "exact", "spec": spec, "sim": sim}


def malformed_case(rng):
    """a single unlinked dataset and a clp table that `simulate` must reject (or accept: empty global axis)"""
    spec = gen_scheme.rand_spec(rng, allow_items=False, allow_linked=False, force={"n_datasets": 1, "n_groups": 1, "full_model": False})
    ds = spec["datasets"][0]
    ds["weight"] = None
    mlabels = []
    for mc in ds["mcs"]:
        mlabels += [l for l in mc["labels"] if l not in mlabels]
    n_global = len(ds["global_axis"])
    labels = list(mlabels)
    rng.shuffle(labels)
    rows = [[dyadic(rng, False) for _ in labels] for _ in range(n_global)]
    kind = rng.choice(["missing", "dup-used", "dup-unused", "no-label-coord", "short", "empty-rows", "no-clp", "global-idx-dep",
                       "empty-global-axis", "missing+dup", "short+missing", "full-missing-label"])
    entry = {"variant": rng.choice(["plain", "transposed"]), "coords": rng.choice(["model-first", "global-first"]), "noise": None,
             "truth": None, "malformed": kind}
    if kind == "missing":
        j = rng.randrange(len(labels))
        labels.pop(j)
        for r in rows:
            r.pop(j)
        if not labels:
            labels, rows = ["zz"], [[1.0] for _ in rows]
    elif kind in ("dup-used", "dup-unused", "missing+dup"):
        dup = labels[0] if kind != "dup-unused" else "zz"
        if kind == "dup-unused":
            labels.append("zz")
            for r in rows:
                r.append(1.0)
        if kind == "missing+dup" and len(labels) > 1:
            labels.pop()
            for r in rows:
                r.pop()
        labels.append(dup)
        for r in rows:
            r.append(2.0)
    elif kind == "no-label-coord":
        labels = None
    elif kind in ("short", "short+missing"):
        rows = rows[:-1]
        if kind == "short+missing":
            labels[0] = "nope"
    elif kind == "empty-rows":
        rows = []
    clp = {"labels": labels, "rows": rows}
    if kind == "no-clp":
        clp = None
    if kind == "global-idx-dep":
        gl = list(mlabels)
        ds["gmcs"] = [{"labels": gl, "index_dependent": True, "pars": None, "scale": None,
                       "base": [[[float(rng.randint(0, 3)) for _ in gl] for _ in range(n_global)] for _ in ds["model_axis"]]}]
        clp = None
    if kind == "full-missing-label":
        gl = list(mlabels)[:-1] + ["gx"]
        ds["gmcs"] = [{"labels": gl, "index_dependent": False, "pars": None, "scale": None,
                       "base": [[float(rng.randint(0, 3)) for _ in gl] for _ in range(n_global)]}]
        clp = None
    if kind == "empty-global-axis":
        ds["global_axis"] = []
        for mc in ds["mcs"]:
            if mc["index_dependent"]:
                mc["index_dependent"] = False
                mc["base"] = mc["base"][0]
        clp = {"labels": labels, "rows": []}
    entry["clp"] = clp
    ds["data"] = None
    return {"kind": "malformed", "spec": spec, "sim": {ds["label"]: entry}}


def call_case(rng):
    """the call itself: order / surplus / absence of the entries of `coordinates`, on a single unlinked clp-driven or full-model dataset"""
    base = exact_case(rng)
    spec = base["spec"]
    ds = spec["datasets"][0]
    spec["datasets"] = [ds]
    e = dict(base["sim"][ds["label"]])
    e["call"] = rng.choice(["model-first", "global-first", "extra-last", "extra-last-global-first", "no-model", "only-model", "model-first"])
    if rng.random() < 0.3:
        e["noise"] = {"std": rng.choice([0.5, 1.0, 0.0]), "seed": rng.choice([0, 5, None]), "global_seed": rng.randint(1, 10 ** 6)}
    return {"kind": "call", "spec": spec, "sim": {ds["label"]: e}}


def call_coords(ds, how):
    m, g = np.array(ds["model_axis"], dtype=float), np.array(ds["global_axis"], dtype=float)
    extra = np.array([7.0, 8.0, 9.0])
    return {"model-first": [("model", m), ("global", g)], "global-first": [("global", g), ("model", m)],
            "extra-last": [("model", m), ("global", g), ("aux", extra)], "extra-last-global-first": [("global", g), ("aux", extra), ("model", m)],
            "no-model": [("global", g)], "only-model": [("model", m)]}[how]


def run_call(ck, case, batch, lean=True):
    from glotaran.simulation import simulate

    spec = copy.deepcopy(case["spec"])
    ds = spec["datasets"][0]
    e = case["sim"][ds["label"]]
    light = {"kind": "call", "spec": case["spec"], "sim": case["sim"]}
    ds["data"] = [[0.0] * len(ds["global_axis"]) for _ in ds["model_axis"]]
    _, model, parameters, _ = gen_scheme.build(spec)
    pairs = call_coords(ds, e["call"])
    clp_da = clp_dataarray(e["clp"], "global", ds["global_axis"], e["variant"])
    nz = e.get("noise")
    kw = {}
    if nz is not None:
        np.random.seed(nz["global_seed"])
        kw = {"noise": True, "noise_std_dev": nz["std"], "noise_seed": nz["seed"]}
    ck.count("call:" + e["call"])
    try:
        out = simulate(model, ds["label"], parameters, dict(pairs), clp=clp_da, **kw)
        real = ("ok", out)
    except KeyError as exc:
        real = ("err", "coord-key" if exc.args and exc.args[0] == "model" else classify_error(exc))
    except StopIteration:
        real = ("err", "no-global-dim")
    except Exception as exc:  # noqa: BLE001
        real = ("err", classify_error(exc))
    ck.count("call-outcome:" + ("ok" if real[0] == "ok" else "err:" + real[1].split(":")[0]))
    nontrivial = False
    # oracle (statement): a defined simulation is returned on the coordinates of the request
    names = [n for n, _ in pairs]
    if real[0] == "ok":
        ck.oracle_evals += 1
        got = real[1]
        want_dims = ("model", "global")
        ok = tuple(got.data.dims) == want_dims and set(got.coords) == {"model", "global"} and \
            np.array_equal(got.coords["model"].values, dict(pairs)["model"]) and np.array_equal(got.coords["global"].values, dict(pairs)["global"])
        if not ok:
            ck.violation("simulated-coords", f"simulate(coordinates with keys {names}) returned dims {tuple(got.data.dims)} / coordinates "
                         f"{ {k: np.asarray(v.values).tolist() for k, v in got.coords.items()} }: not the model and global axes handed in", light)
        nontrivial = bool(np.any(np.asarray(got.data.values) != 0))
    elif "model" in names and len(names) >= 2 and expected_rejection(spec_capture(spec, ds), e["clp"], len(ds["global_axis"])) is None:
        ck.violation("simulate-raises-on-valid-input:" + real[1].split(":")[0], f"simulate(coordinates with keys {names}) raised {real[1]}", light)
    ck.case(("call", json.dumps(case, sort_keys=True, default=str)), nontrivial)
    if lean:
        n = len(ds["model_axis"]) * len(ds["global_axis"])
        line = "simcall {} {} {} {} {} {}".format(
            enc("model"), lst(lst([enc(nm), rats(ax.tolist())]) for nm, ax in pairs),
            lst(spec_mc_txt(spec, m) for m in ds["mcs"]), lst(spec_mc_txt(spec, m) for m in (ds.get("gmcs") or [])),
            clp_txt(e["clp"]), noise_txt(nz, n))
        batch.append({"call": case, "lines": [line], "real": real, "light": light})


def judge_call(ck, b, ans):
    a, real, light = ans[0], b["real"], b["light"]
    if a in ("bad-op", "bad-line"):
        raise core.HarnessError(f"model rejected a protocol line: {b['lines'][0][:300]}")
    if real[0] == "err":
        if a != "err " + real[1]:
            ck.disagree("simulate-call-error-kind", f"simulate raised {real[1]!r}, model answered {a[:80]!r}", light)
        return
    if not a.startswith("result "):
        ck.disagree("simulate-call-model-error", f"simulate returned a dataset, model answered {a!r}", light)
        return
    dims, coords, data = core.parse_tree(a[7:])[:3]
    got = real[1]
    mdims = [core.dec(x) for x in dims]
    mcoords = {core.dec(c[0]): [Fraction(v) for v in c[1]] for c in coords}
    rcoords = {str(k): [Fraction(float(x)) for x in np.asarray(v.values).ravel()] for k, v in got.coords.items()}
    nz = b["call"]["sim"][next(iter(b["call"]["sim"]))].get("noise")
    same = list(got.data.dims) == mdims and rcoords == mcoords
    vals = np.asarray(got.data.values, dtype=float)
    mdata = parse_mat(data)
    same = same and len(mdata) == vals.shape[0] and all(len(r) == vals.shape[1] for r in mdata)
    if same:
        for i, row in enumerate(mdata):
            for j, v in enumerate(row):
                x = Fraction(float(vals[i, j]))
                ok = (v == x) if nz is None else abs(v - x) <= Fraction(4 * EPS) * (abs(v) + abs(Fraction(nz["std"])) * 40)
                same = same and ok
    if not same:
        d = {"key": "simulate-call", "what": f"dims / coordinates / data of the returned dataset differ from the Lean model (real dims {list(got.data.dims)}, "
             f"model dims {mdims})", "case": light}
        if any(v["key"].startswith(("simulated-coords", "simulated-data-differs", "noise-")) for v in ck.violations):
            d["explained"] = True
        ck.disagreements.append(d)


def permutation_cases():
    """bounded exhaustive: every order of the 3 clp labels x every position of one unused label (or none) x both layouts,
    on a fixed index-dependent dataset with two megacomplexes sharing a label"""
    import itertools
    mlabels = ["s1", "s2", "s3"]
    values = {"s1": [1.0, -2.0], "s2": [0.5, 4.0], "s3": [3.0, 0.0]}
    out = []
    for perm in itertools.permutations(mlabels):
        for pos in [None, 0, 1, 2, 3]:
            for variant in ("plain", "transposed"):
                labels = list(perm)
                rows = [[values[l][i] for l in labels] for i in range(2)]
                if pos is not None:
                    labels.insert(pos, "zz")
                    for r in rows:
                        r.insert(pos, 9.0)
                ds = {"label": "d1", "group": "default", "global_axis": [1.0, 2.5], "model_axis": [0.0, 1.0, 2.0, 3.0], "dims_order": "mg",
                      "data": None, "weight": None, "scale": None, "gmcs": [],
                      "mcs": [{"labels": ["s1", "s2"], "index_dependent": True, "pars": None, "scale": "p.1",
                               "base": [[[1, 2], [3, 4], [5, 7], [2, 1]], [[2, 0], [1, 1], [0, 3], [4, 4]]]},
                              {"labels": ["s2", "s3"], "index_dependent": False, "pars": None, "scale": "p.2",
                               "base": [[1, 0], [0, 1], [2, 2], [1, 3]]}]}
                spec = {"groups": {"default": {"link_clp": False, "residual_function": "variable_projection"}}, "clp_link_tolerance": 0.0,
                        "clp_link_method": "nearest", "parameters": {"p.1": 2.0, "p.2": 0.5}, "datasets": [ds], "constraints": [], "relations": [],
                        "penalties": [], "weights": []}
                out.append({"kind": "permutation", "spec": spec,
                            "sim": {"d1": {"variant": variant, "coords": "model-first", "noise": None, "truth": None, "clp": {"labels": labels, "rows": rows}}}})
    return out


def with_noise(rng, case):
    c = copy.deepcopy(case)
    c["kind"] = "noise"
    for e in c["sim"].values():
        e["noise"] = {"std": rng.choice([0.5, 1.0, 0.125, 0.0, 3.0]), "seed": rng.choice([0, 0, 1, 7, 123456, None, None]),
                      "global_seed": rng.randint(1, 10 ** 6)}
    return c


# ------------------------------------------------------------------------------------------------------------
# exact stream: run
# ------------------------------------------------------------------------------------------------------------
def spec_mc_txt(spec, mc):
    P = spec["parameters"]
    base = np.array(mc["base"], dtype=float)
    if mc.get("pars") is not None:
        base = base * np.array([P[p] for p in mc["pars"]])
    if mc["index_dependent"] and base.ndim != 3:
        base = base.reshape((len(mc["base"]),) + base.shape[-2:])
    return mc_txt(mc["labels"], base, P[mc["scale"]] if mc.get("scale") is not None else None)


def spec_capture(spec, ds):
    """what capture_megacomplexes would return, straight from the spec (test megacomplexes: base * pars)"""
    P = spec["parameters"]

    def one(mc):
        base = np.array(mc["base"], dtype=float)
        if mc.get("pars") is not None:
            base = base * np.array([P[p] for p in mc["pars"]])
        return (list(mc["labels"]), base, P[mc["scale"]] if mc.get("scale") is not None else None)

    return {"mcs": [one(m) for m in ds["mcs"]], "gmcs": [one(m) for m in (ds.get("gmcs") or [])],
            "scale": P[ds["scale"]] if ds.get("scale") is not None else None}


def run_exact(ck, case, batch, lean=True, fit=True):
    """real simulate for every dataset, oracle, then (if everything simulated) the fit clauses; queues the model lines"""
    spec = copy.deepcopy(case["spec"])
    sim = case["sim"]
    light = {"kind": case["kind"], "spec": case["spec"], "sim": sim}
    for ds in spec["datasets"]:
        ds["data"] = [[0.0] * len(ds["global_axis"]) for _ in ds["model_axis"]]
    scheme0, model, parameters, _ = gen_scheme.build(spec)
    outcomes = {}
    nontrivial = False
    for ds in spec["datasets"]:
        e = sim[ds["label"]]
        coords = {"model": np.array(ds["model_axis"], dtype=float), "global": np.array(ds["global_axis"], dtype=float)}
        if e["coords"] == "global-first":
            coords = {"global": coords["global"], "model": coords["model"]}
        clp_da = clp_dataarray(e["clp"], "global", ds["global_axis"], e["variant"])
        out = real_simulate(model, parameters, ds["label"], coords, "model", clp_da, e.get("noise"))
        outcomes[ds["label"]] = out
        ck.count("simulate:" + ("ok" if out[0] == "ok" else "err:" + out[1].split(":")[0]))
        ck.count("clp-layout:" + e["variant"])
        if len(ds["global_axis"]) > 1 and ds["global_axis"][0] > ds["global_axis"][-1]:
            ck.count("global-axis:descending")
        if e.get("malformed"):
            ck.count("malformed:" + e["malformed"])
        n_model, n_global = len(ds["model_axis"]), len(ds["global_axis"])
        why = expected_rejection(spec_capture(spec, ds), e["clp"], n_global)
        if out[0] != "ok":
            if why is None:
                ck.violation("simulate-raises-on-valid-input:" + out[1].split(":")[0], f"simulate(..., {ds['label']!r}) raised {out[1]} for a model and clp "
                             "table for which the simulated data are defined", {**light, "dataset": ds["label"]})
            continue
        if why is not None:
            ck.violation("simulate-accepts-undefined-input", f"simulate(..., {ds['label']!r}) returned data although {why}",
                         {**light, "dataset": ds["label"], "real": out[1].tolist()})
            continue
        data = out[1]
        if data.shape != (n_model, n_global):
            ck.violation("simulated-shape", f"simulate returned shape {data.shape} for model axis {n_model} x global axis {n_global}", light)
            continue
        if not (np.array_equal(out[2].coords["model"].values, coords["model"]) and np.array_equal(out[2].coords["global"].values, coords["global"])):
            ck.violation("simulated-coords", "simulated dataset is not on the coordinates handed in", light)
        nontrivial = nontrivial or bool(np.any(data != 0))
        # ---- oracle: by-label reference (noise-free part) and the noise clause --------------------------
        ck.oracle_evals += 1
        ref, bound = reference_simulation(spec_capture(spec, ds), e["clp"], n_model, n_global)
        nz = e.get("noise")
        if nz is not None:
            base = real_simulate(model, parameters, ds["label"], coords, "model", clp_da, None)
            noisy, data = data, (base[1] if base[0] == "ok" else None)
        if data is None:
            ck.violation("simulate-raises-on-valid-input:noise-free", f"simulate(..., {ds['label']!r}) without noise raised {base[1]} where the noisy call succeeded", light)
            continue
        if not np.array_equal(data, ref):
            ck.violation("simulated-data-differs:" + ("full-model" if ds.get("gmcs") else "from-clp"),
                         f"simulate(..., {ds['label']!r}) differs from sum_l matrix[:, l] * clp[l] (clp selected by label) "
                         f"at {np.argwhere(data != ref)[:3].tolist()}", {**light, "dataset": ds["label"], "real": data.tolist(), "reference": ref.tolist()})
        if nz is not None:
            noise_oracle(ck, light, ds["label"], noisy, data, nz, lambda nz2: real_simulate(model, parameters, ds["label"], coords, "model", clp_da, nz2))
            data = noisy
        ds["data"] = data.tolist()
    all_ok = all(o[0] == "ok" for o in outcomes.values())
    for t in case.get("tags", []):
        ck.count("exact-family:" + t)
    ck.case((case["kind"], json.dumps(case, sort_keys=True, default=str)), nontrivial)
    real_obj = real_res = None
    weights = {d["label"]: (np.array(d["weight"], dtype=float) if d.get("weight") is not None else None) for d in spec["datasets"]}
    if all_ok and fit and case["kind"] == "exact" and all(len(d["global_axis"]) > 0 for d in spec["datasets"]):
        for t in c02.classify(spec):
            ck.count("spec:" + t)
        scheme, _, _, _ = gen_scheme.build(spec)
        pen, provider_weights, exc = objective_at_start(scheme)
        real_obj = {"error": None if exc is None else type(exc).__name__, "penalty": pen, "weights": provider_weights}
        if exc is not None:
            ck.count("objective-error:" + type(exc).__name__)
            if type(exc).__name__ != "AlignDatasetError":
                raised_at_truth(ck, light, "evaluating the objective", exc)
        else:
            for d in spec["datasets"]:
                if d.get("weight") is None:
                    weights[d["label"]] = real_obj["weights"].get(d["label"])
            fit_oracle_objective(ck, light, real_obj["penalty"], [np.array(d["data"]) for d in spec["datasets"]])
            real_res = c03.run_real(spec)
            if real_res["error"]:
                ck.count("optimize-error:" + real_res["error"].split(":")[0])
                if real_res["error"] != "dof-zero":
                    raised_at_truth(ck, light, "optimize()", real_res["error"])
            else:
                res = real_res["result"]
                fit_oracle_parameters(ck, light, res, parameters)
                for d in spec["datasets"]:
                    e = sim[d["label"]]
                    r = res.data[d["label"]]
                    cap = spec_capture(spec, d)
                    if d.get("gmcs"):
                        fit_oracle_full_clp(ck, light, d["label"], r, cap, "global", "model")
                    else:
                        members = [x for x in spec["datasets"] if x["group"] == d["group"]]
                        fit_oracle_clp(ck, light, d["label"], r, e["truth"], cap, "global", "model", weights[d["label"]],
                                       linked=gen_scheme.resolve_linked(spec, d["group"]),
                                       nnls=spec["groups"][d["group"]]["residual_function"] == "non_negative_least_squares",
                                       group_cond=max(own_cond(spec_capture(spec, x), len(x["global_axis"]), weights[x["label"]]) for x in members),
                                       global_axis=d["global_axis"])
    if lean:
        batch.append({"case": case, "spec": spec, "outcomes": outcomes, "lines": exact_lines(spec, sim, weights, fit=real_obj is not None and not real_obj["error"]),
                      "real_obj": real_obj, "real_res": real_res, "light": light})


def exact_lines(spec, sim, weights, fit):
    P = spec["parameters"]
    lines = ["reset"]
    order = []
    for ds in spec["datasets"]:
        if ds["group"] not in order:
            order.append(ds["group"])
    for g in order:
        opts = spec["groups"][g]
        solver = "nnls" if opts["residual_function"] == "non_negative_least_squares" else "vp"
        lines.append(f"group {'T' if gen_scheme.resolve_linked(spec, g) else 'F'} {solver} {rat(spec.get('clp_link_tolerance', 0.0))} "
                     f"{spec.get('clp_link_method', 'nearest')}")
        for ds in [d for d in spec["datasets"] if d["group"] == g]:
            e = sim[ds["label"]]
            w = weights.get(ds["label"])
            n = len(ds["model_axis"]) * len(ds["global_axis"])
            lines.append("simdataset {} {} {} {} {} {} {} {} {}".format(
                enc(ds["label"]), rats(ds["global_axis"]), len(ds["model_axis"]),
                "none" if w is None else mat_txt(np.asarray(w).tolist()),
                rat(P[ds["scale"]]) if ds.get("scale") is not None else "none",
                lst(spec_mc_txt(spec, m) for m in ds["mcs"]), lst(spec_mc_txt(spec, m) for m in (ds.get("gmcs") or [])),
                clp_txt(e["clp"]), noise_txt(e.get("noise"), n)))
    if fit:
        lines += ["objective", "results"]
    return lines


def judge_exact(ck, b, ans):
    spec, light = b["spec"], b["light"]
    sim_ans = []
    for l, a in zip(b["lines"], ans):
        if a in ("bad-op", "bad-line"):
            raise core.HarnessError(f"model rejected a protocol line: {l[:300]}")
        if l.startswith("simdataset"):
            sim_ans.append(a)
    order = []
    for ds in spec["datasets"]:
        if ds["group"] not in order:
            order.append(ds["group"])
    ordered = [d for g in order for d in spec["datasets"] if d["group"] == g]
    sim_bad = False
    for ds, a in zip(ordered, sim_ans):
        out = b["outcomes"][ds["label"]]
        case = {**light, "dataset": ds["label"]}
        if out[0] == "err":
            if a != "err " + out[1]:
                ck.disagree("simulate-error-kind", f"simulate raised {out[1]!r}, model answered {a!r}", case)
                sim_bad = True
            continue
        if not a.startswith("data "):
            ck.disagree("simulate-model-error", f"simulate returned data, model answered {a!r}", case)
            sim_bad = True
            continue
        model_data = parse_mat(core.parse_tree(a[5:])[0])
        real = out[1]
        nz = b["case"]["sim"][ds["label"]].get("noise")
        same = len(model_data) == real.shape[0] and all(len(r) == real.shape[1] for r in model_data)
        if same:
            for i, row in enumerate(model_data):
                for j, v in enumerate(row):
                    x = Fraction(float(real[i, j]))
                    if nz is None:
                        ok = (v == x)
                    else:
                        ok = abs(v - x) <= Fraction(4 * EPS) * (abs(v) + abs(Fraction(nz["std"])) * 40)
                    if not ok:
                        same = False
        if not same:
            d = {"key": "simulated-data", "what": f"simulated data of {ds['label']!r} differ from the Lean model", "case": {**case, "real": real.tolist()}}
            if any(v["key"].startswith(("simulated-data-differs", "noise-")) for v in ck.violations):
                d["explained"] = True
            ck.disagreements.append(d)
            sim_bad = True
    if b["lines"][-1] != "results" or sim_bad:
        return
    obj, res = ans[-2], ans[-1]
    real_obj = b["real_obj"]
    pen = real_obj["penalty"]
    explained = any(v["key"].startswith(("objective-nonzero", "clp-", "optimize", "parameters-moved", "full-clp")) for v in ck.violations)
    if not obj.startswith("pen "):
        ck.disagree("model-unsolvable", f"model answered {obj!r} for the objective at the truth", light)
    else:
        model_pen = [float(Fraction(x)) for x in core.parse_tree(obj[4:])[0]]
        if any(v != 0.0 for v in model_pen):
            ck.disagree("model-objective-nonzero", "the Lean model's objective at the truth is not identically zero", light)
        if not c02.vec_close(pen, model_pen):
            d = {"key": "objective-vs-model", "what": f"penalty vector at the truth differs from the Lean model (length {len(pen)} vs {len(model_pen)})",
                 "case": {**light, "real": pen}}
            if explained:
                d["explained"] = True
            ck.disagreements.append(d)
    rr = b["real_res"]
    if rr is not None and not rr["error"] and res.startswith("res "):
        n0 = len(ck.disagreements)
        c03.judge(ck, {"spec": spec, "real": rr, "lines": b["lines"], "oracle_failed": explained}, ["ok", res])
        for d in ck.disagreements[n0:]:
            d["case"] = light


# ------------------------------------------------------------------------------------------------------------
# oracle clauses
# ------------------------------------------------------------------------------------------------------------
def fit_oracle_objective(ck, light, penalty, datas, relaxed=False):
    """|objective(x_true)|_inf <= 1e-9 |data|_inf.  `relaxed` (NNLS on matrices with condition number >= 1e4: scipy's nnls solves
    normal equations, its residual carries eps * cond^2): 1e-6."""
    ck.oracle_evals += 1
    rtol = 1e-6 if relaxed else RTOL
    dmax = max([float(np.max(np.abs(d))) if d.size else 0.0 for d in datas] + [0.0])
    pmax = max([abs(v) for v in penalty] + [0.0])
    if not pmax <= rtol * dmax + 1e-300:
        ck.violation("objective-nonzero-at-truth", f"|objective(x_true)|_inf = {pmax:.3e} > {rtol:g} * |data|_inf = {rtol * dmax:.3e}: "
                     "noise-free simulated data are not reproduced by the model that generated them", {**light, "penalty_max": pmax, "data_max": dmax})


def fit_oracle_parameters(ck, light, res, start, relaxed=False):
    ck.oracle_evals += 1
    rtol = 1e-5 if relaxed else 1e-8
    for p in res.optimized_parameters.all():
        v0 = start.get(p.label).value
        if not abs(p.value - v0) <= rtol * max(abs(v0), 1e-300):
            ck.violation("parameters-moved-from-truth", f"optimize() started at the generating parameters moved {p.label} from {v0!r} to {p.value!r}",
                         {**light, "parameter": p.label, "start": v0, "end": p.value})
            return


def _cond(a):
    if a.size == 0 or a.shape[1] == 0:
        return 1.0
    if a.shape[0] < a.shape[1]:
        return float("inf")
    s = np.linalg.svd(a, compute_uv=False)
    return float("inf") if s[-1] == 0 else float(s[0] / s[-1])


def own_cond(cap, n_global, weight):
    """largest condition number of the dataset's own (weighted) matrix over the global indices"""
    order, cols = combine_by_label(cap["mcs"], n_global)
    worst = 1.0
    for i in range(n_global):
        a = np.stack([cols[l][i] for l in order], axis=1)
        if weight is not None:
            a = a * np.asarray(weight, dtype=float)[:, i][:, None]
        worst = max(worst, _cond(a))
    return worst


def fit_oracle_clp(ck, light, label, r, truth, cap, gdim, mdim, weight, linked, nnls=False, group_cond=None, global_axis=None):
    """estimated clps = generating clps / dataset scale, by label (truth rows are generating / scale).
    Tolerance: 1e-10 * cond (QR) resp. additionally 1e-13 * cond^2 (scipy's nnls solves normal equations); in a linked
    group the stacked problem is as ill-conditioned as its worst member (`group_cond`)."""
    ck.oracle_evals += 1
    labels = [str(x) for x in r.clp.coords["clp_label"].values]
    case = {**light, "dataset": label}
    if sorted(labels) != sorted(truth["labels"]):
        ck.violation("clp-labels", f"{label!r}: result clp labels {labels} are not the labels of the dataset matrix {truth['labels']}", case)
        return
    got = np.asarray(r.clp.transpose(gdim, "clp_label").values, dtype=float)
    n_global = got.shape[0]
    order, cols = combine_by_label(cap["mcs"], n_global)
    for i in range(n_global):
        a = np.stack([cols[l][i] for l in order], axis=1)
        if weight is not None:
            a = a * np.asarray(weight, dtype=float)[:, i][:, None]
        cond = _cond(a)
        if linked and group_cond is not None:
            cond = max(cond, group_cond)
        if not cond < (1e4 if nnls else 1e7):
            ck.count("clp-check:skipped-ill-conditioned")
            continue
        ck.count("clp-check:done")
        trow = dict(zip(truth["labels"], truth["rows"][i]))
        scale = max([abs(v) for v in trow.values()] + [1.0])
        tol = (1e-10 * cond + (1e-13 * cond * cond if nnls else 0.0) + 1e-12) * scale
        for j, l in enumerate(labels):
            if not abs(got[i, j] - trow[l]) <= tol:
                key = "clp-not-generating-over-scale" + (":linked" if linked else "")
                ax = None if global_axis is None else np.asarray(global_axis, dtype=float)
                if linked and ax is not None and ax.size == n_global and np.any(np.diff(ax) <= 0):
                    # the specific recorded defect: the rows are the generating rows in the order of the aligned (ascending)
                    # axis, attached to the dataset's own, non-ascending axis
                    by_value = np.array([[truth["rows"][k][truth["labels"].index(x)] for x in labels] for k in np.argsort(ax, kind="stable")])
                    if np.all(np.abs(got - by_value) <= 1e-6 * (1.0 + np.abs(by_value))):
                        key += ":non-ascending-global-axis"
                ck.violation(key,
                             f"{label!r}: estimated clp {l!r} at global index {i} is {got[i, j]!r}, generating clp / dataset scale is {trow[l]!r} "
                             f"(dataset scale {cap['scale']})", {**case, "index": i, "clp_label": l, "got": float(got[i, j]), "want": trow[l], "cond": cond})
                return


def fit_oracle_full_clp(ck, light, label, r, cap, gdim, mdim):
    """full model: the estimated (global clp x clp) coefficient matrix pairs every model label with the global label of the same name"""
    ck.oracle_evals += 1
    case = {**light, "dataset": label}
    clp = r.clp
    ml = [str(x) for x in clp.coords["clp_label"].values]
    gl = [str(x) for x in clp.coords["global_clp_label"].values]
    got = np.asarray(clp.transpose("global_clp_label", "clp_label").values, dtype=float)
    n_global = r.sizes[gdim]
    order, cols = combine_by_label(cap["mcs"], n_global)
    gorder, gcols = combine_by_label(cap["gmcs"], 1)
    g = np.stack([gcols[l][0] for l in gorder], axis=1)
    conds = [_cond(g)] + [_cond(np.stack([cols[l][i] for l in order], axis=1)) for i in range(n_global)]
    if any(np.ndim(cols[l][0]) != 1 for l in order) or max(conds) * max(conds) > 1e7 or any(m.ndim == 3 for _, m, _ in cap["mcs"]):
        ck.count("full-clp-check:skipped")
        return
    ck.count("full-clp-check:done")
    c = max(conds) ** 2
    for a, gname in enumerate(gl):
        for b_, mname in enumerate(ml):
            want = 1.0 if gname == mname else 0.0
            if not abs(got[a, b_] - want) <= 1e-10 * c + 1e-12:
                ck.violation("full-clp-not-label-pairing", f"{label!r}: full-model clp[{gname!r}, {mname!r}] = {got[a, b_]!r}, expected {want} "
                             "(simulate_full_model pairs each model clp with the global clp of the same label)", {**case, "got": float(got[a, b_])})
                return


def noise_oracle(ck, light, label, data, ref, nz, again):
    """seeded noise: bit-equal when repeated, equal to numpy's own stream, different for another seed; unseeded: uses the current state"""
    case = {**light, "dataset": label}
    ck.oracle_evals += 1
    ck.count("noise:" + ("seed-none" if nz["seed"] is None else ("seed-0" if nz["seed"] == 0 else "seeded")))
    n = data.size
    seed = nz["seed"] if nz["seed"] is not None else nz["global_seed"]
    z = np.random.RandomState(seed).standard_normal(n).reshape(data.shape)
    want = ref + nz["std"] * z
    if not np.array_equal(data, want):
        which = "noise-seed-ignored" if nz["seed"] is not None else "noise-unseeded-not-current-state"
        if nz["std"] != 0 and np.allclose(data, ref + z, rtol=1e-12, atol=1e-12) and nz["std"] != 1.0:
            which = "noise-std-ignored"
        ck.violation(which, f"simulate(noise=True, noise_std_dev={nz['std']}, noise_seed={nz['seed']}) != data + std * standard_normal "
                     f"draws of numpy's generator seeded with {seed}", {**case, "max_diff": float(np.max(np.abs(data - want)))})
        return
    if nz["seed"] is not None:
        o2 = again({**nz, "global_seed": nz["global_seed"] + 17})
        if o2[0] != "ok" or not np.array_equal(o2[1], data):
            ck.violation("noise-not-reproducible", f"two simulations with noise_seed={nz['seed']} differ", case)
        if nz["std"] != 0 and n > 0:
            o3 = again({**nz, "seed": nz["seed"] + 1})
            if o3[0] == "ok" and np.array_equal(o3[1], data):
                ck.violation("noise-seed-has-no-effect", f"noise_seed={nz['seed']} and {nz['seed'] + 1} give identical data", case)
    if nz["std"] != 0 and n > 0 and np.array_equal(data, ref):
        ck.violation("noise-missing", "noise=True returned noise-free data", case)


# ------------------------------------------------------------------------------------------------------------
# builtin stream
# ------------------------------------------------------------------------------------------------------------
def run_zoo(ck, case, batch, lean=True, variant_rng=None):
    from glotaran.optimization.optimize import optimize
    from glotaran.project import Scheme

    light = {"kind": "zoo", "zoo": case}
    model, parameters = zoo.build(case)
    for t in case["tags"]:
        ck.count("zoo:" + t)
    datasets, caps, outs = {}, {}, {}
    linked = "linked" in case["tags"]
    nontrivial = False
    for dl, d in case["data"].items():
        variant = d.get("variant", "plain")
        coords = zoo.coords_of(case, dl, d.get("coords"))
        clp_da = clp_dataarray(d.get("clp"), "spectral", d["spectral"], variant)
        out = real_simulate(model, parameters, dl, coords, "time", clp_da, d.get("noise"))
        outs[dl] = out
        if out[0] != "ok":
            ck.violation("simulate-raises-on-valid-input:" + ":".join(out[1].split(":")[:2]),
                         f"simulate raised {out[1]} for a valid builtin model", {**light, "dataset": dl})
            ck.case(("zoo", json.dumps(case, sort_keys=True, default=str)), False)
            return
        cap = capture_megacomplexes(model, parameters, dl, d["time"], d["spectral"])
        caps[dl] = cap
        data = out[1]
        n_model, n_global = len(d["time"]), len(d["spectral"])
        ck.oracle_evals += 1
        ref, bound = reference_simulation(cap, d.get("clp"), n_model, n_global)
        nz = d.get("noise")
        if data.shape != ref.shape:
            ck.violation("simulated-shape", f"simulate returned shape {data.shape}, axes are {ref.shape}", {**light, "dataset": dl})
            return
        if nz is not None:
            base = real_simulate(model, parameters, dl, coords, "time", clp_da, None)
            if base[0] != "ok":
                ck.violation("simulate-raises-on-valid-input:noise-free", f"simulate(..., {dl!r}) without noise raised {base[1]} where the noisy call succeeded", light)
                return
            noisy, data = data, base[1]
        if not np.all(np.abs(data - ref) <= 64 * EPS * bound + 1e-300):
            ck.violation("simulated-data-differs:" + ("full-model" if cap["gmcs"] else "from-clp"),
                         f"simulate(..., {dl!r}) differs from sum_l matrix[:, l] * clp[l] (clp selected by label, matrices from the megacomplexes' "
                         f"own calculate_matrix) by {float(np.max(np.abs(data - ref))):.3e}", {**light, "dataset": dl})
        if nz is not None:
            noise_oracle(ck, light, dl, noisy, data, nz, lambda nz2: real_simulate(model, parameters, dl, coords, "time", clp_da, nz2))
            data = noisy
        nontrivial = nontrivial or bool(np.any(data != 0))
        datasets[dl] = out[2]
    ck.case(("zoo", json.dumps(case, sort_keys=True, default=str)), nontrivial)
    noisy = any(d.get("noise") for d in case["data"].values())
    real_pen = real_clps = None
    if not noisy:
        scheme = Scheme(model=model, parameters=parameters, data=datasets, maximum_number_function_evaluations=4)
        pen, _, exc = objective_at_start(scheme)
        if exc is not None:
            raised_at_truth(ck, light, "evaluating the objective", exc)
            return
        real_pen = pen
        worst = max(own_cond(caps[x], len(case["data"][x]["spectral"]), None) for x in caps)
        relaxed = "nnls" in case["tags"] and not worst < 1e4
        if relaxed:
            ck.count("nnls-ill-conditioned:relaxed-tolerances")
        fit_oracle_objective(ck, light, real_pen, [np.asarray(ds.data.values) for ds in datasets.values()], relaxed)
        try:
            res = optimize(scheme, verbose=False, raise_exception=True)
        except ZeroDivisionError:
            ck.count("real-error:dof-zero")
            res = None
        except Exception as e:  # noqa: BLE001
            raised_at_truth(ck, light, "optimize()", e)
            return
        if res is not None:
            if relaxed:
                ck.count("nnls-ill-conditioned:parameter-check-skipped")     # flat directions: the optimiser may drift within rounding of nnls
            else:
                fit_oracle_parameters(ck, light, res, parameters)
            real_clps = {}
            for dl, d in case["data"].items():
                r = res.data[dl]
                if caps[dl]["gmcs"]:
                    fit_oracle_full_clp(ck, light, dl, r, caps[dl], "spectral", "time")
                else:
                    fit_oracle_clp(ck, light, dl, r, d["truth"], caps[dl], "spectral", "time", None, linked, nnls="nnls" in case["tags"],
                                   group_cond=max(own_cond(caps[x], len(case["data"][x]["spectral"]), None) for x in caps if not caps[x]["gmcs"]),
                                   global_axis=d["spectral"])
                    real_clps[dl] = ([str(x) for x in r.clp.coords["clp_label"].values],
                                     np.asarray(r.clp.transpose("spectral", "clp_label").values, dtype=float))
    if lean:
        size = sum(len(d["time"]) * len(d["spectral"]) * max(1, len(d["labels"])) ** 2 for d in case["data"].values())
        fit = real_pen is not None and size <= 1200 and not any(c["gmcs"] for c in caps.values())
        lines = ["reset", f"group {'T' if linked else 'F'} {'nnls' if 'nnls' in case['tags'] else 'vp'} 0 nearest"]
        for dl, d in case["data"].items():
            cap = caps[dl]
            n = len(d["time"]) * len(d["spectral"])
            lines.append("simdataset {} {} {} none {} {} {} {} {}".format(
                enc(dl), rats(d["spectral"]), len(d["time"]), "none" if cap["scale"] is None else rat(cap["scale"]),
                lst(mc_txt(*m) for m in cap["mcs"]), lst(mc_txt(*m) for m in cap["gmcs"]), clp_txt(d.get("clp")), noise_txt(d.get("noise"), n)))
        if fit:
            lines += ["objective", "results"]
            ck.count("zoo-lean:fit")
        else:
            ck.count("zoo-lean:simulate-only")
        batch.append({"zoo": case, "lines": lines, "outs": outs, "caps": caps, "pen": real_pen, "clps": real_clps, "light": light, "fit": fit,
                      "relaxed": (not noisy) and "nnls" in case["tags"] and not max(own_cond(caps[x], len(case["data"][x]["spectral"]), None) for x in caps) < 1e4})


def objective_at_start(scheme):
    """Optimizer(scheme).objective_function at the scheme's own parameters -> (penalty list | None, provider weights, exception | None)"""
    from glotaran.optimization.optimizer import Optimizer

    try:
        opt = Optimizer(scheme, verbose=False, raise_exception=True)
    except Exception as e:  # noqa: BLE001
        return None, {}, e
    labels, x0, _, _ = scheme.parameters.get_label_value_and_bounds_arrays(exclude_non_vary=True)
    opt._free_parameter_labels = labels
    weights = {}
    for g in opt._optimization_groups:
        for label in g._dataset_group.dataset_models:
            weights[label] = g._data_provider.get_weight(label)
    # An optimisation arrives at the generating parameters after having evaluated other vectors on the same Optimizer:
    # evaluate a perturbed vector first (seeded change C14-3: dataset scales of a linked group cached at the first
    # evaluation). If that evaluation fails the optimiser is rebuilt, so that the evaluation at the truth is never
    # influenced by a *failed* one (that would be C10's recorded finding D26, not C14's business).
    x_true = np.array(x0, dtype=float)
    if x_true.size:
        try:
            with np.errstate(all="ignore"):
                opt.objective_function(x_true * 1.0625 + 0.03125)
        except Exception:  # noqa: BLE001
            opt = Optimizer(scheme, verbose=False, raise_exception=True)
            opt._free_parameter_labels = labels
    try:
        pen = np.asarray(opt.objective_function(x_true), dtype=float).ravel()
    except Exception as e:  # noqa: BLE001
        return None, weights, e
    return [float(v) for v in pen], weights, None


def raised_at_truth(ck, light, what, e):
    """an exception while fitting noise-free simulated data at the generating parameters"""
    kind = solver_limit(e)
    name = type(e).__name__ if not isinstance(e, str) else e.split(":")[0]
    ck.count("raises-at-truth:" + (kind or name))
    ck.violation("raises-at-truth:" + (kind or name), f"{what} on noise-free simulated data at the generating parameters raised "
                 f"{name}: {str(e)[:160]}", light)


def solver_limit(e):
    if isinstance(e, str):
        if "Maximum number of iterations" in e:
            return "nnls-maxiter"
        if "dormqr" in e:
            return "underdetermined"
        if "LinAlgError" in e and "singular" in e.lower():
            return "nnls-singular"
        return None
    if type(e).__name__ == "LinAlgError" and "singular" in str(e).lower():
        return "nnls-singular"
    msg = str(e)
    if isinstance(e, RuntimeError) and "Maximum number of iterations" in msg:
        return "nnls-maxiter"
    if isinstance(e, ValueError) and "dormqr" in msg:
        return "underdetermined"
    return None


def judge_zoo(ck, b, ans):
    case, light = b["zoo"], b["light"]
    for l, a in zip(b["lines"], ans):
        if a in ("bad-op", "bad-line"):
            raise core.HarnessError(f"model rejected a protocol line: {l[:300]}")
    sim_ans = [a for l, a in zip(b["lines"], ans) if l.startswith("simdataset")]
    bad = False
    for (dl, d), a in zip(case["data"].items(), sim_ans):
        out = b["outs"][dl]
        if not a.startswith("data "):
            ck.disagree("simulate-model-error", f"simulate returned data for {dl!r}, model answered {a!r}", light)
            bad = True
            continue
        model_data = np.array([[float(v) for v in row] for row in parse_mat(core.parse_tree(a[5:])[0])], dtype=float).reshape(out[1].shape)
        _, bound = reference_simulation(b["caps"][dl], d.get("clp"), len(d["time"]), len(d["spectral"]))
        nz = d.get("noise")
        extra = 0.0
        if nz is not None:
            extra = abs(nz["std"]) * 40
        if not np.all(np.abs(model_data - out[1]) <= 64 * EPS * (bound + extra) + 1e-300):
            dd = {"key": "simulated-data", "what": f"simulated data of {dl!r} differ from the Lean model by {float(np.max(np.abs(model_data - out[1]))):.3e}", "case": light}
            if any(v["key"].startswith(("simulated-data-differs", "noise-")) for v in ck.violations):
                dd["explained"] = True
            ck.disagreements.append(dd)
            bad = True
    if not b["fit"] or bad:
        return
    obj, res = ans[-2], ans[-1]
    explained = any(v["key"].startswith(("objective-nonzero", "clp-", "optimize", "parameters-moved")) for v in ck.violations)
    if obj.startswith("pen "):
        model_pen = [float(Fraction(x)) for x in core.parse_tree(obj[4:])[0]]
        if any(v != 0.0 for v in model_pen):
            ck.disagree("model-objective-nonzero", "the Lean model's objective at the truth is not identically zero", light)
        dmax = max(float(np.max(np.abs(o[1]))) for o in b["outs"].values())
        if len(model_pen) != len(b["pen"]) or max([abs(x - y) for x, y in zip(model_pen, b["pen"])] + [0.0]) > (1e-6 if b.get("relaxed") else RTOL) * (1 + dmax):
            dd = {"key": "objective-vs-model", "what": f"penalty vector at the truth differs from the Lean model (length {len(b['pen'])} vs {len(model_pen)})", "case": light}
            if explained:
                dd["explained"] = True
            ck.disagreements.append(dd)
    else:
        ck.count("zoo-lean:unsolvable")       # rank deficient over the rationals: the certifying solver gives up
        return
    if res.startswith("res ") and b["clps"]:
        for item in core.parse_tree(res[4:])[0]:
            dl = core.dec(item[0])
            labels = [core.dec(x) for x in item[1]]
            clps = np.array([[float(Fraction(v)) for v in row] for row in item[2]], dtype=float)
            got_labels, got = b["clps"][dl]
            if sorted(labels) != sorted(got_labels):
                ck.disagree("clp-labels-vs-model", f"{dl!r}: clp labels {got_labels} vs model {labels}", light)
                continue
            perm = [labels.index(l) for l in got_labels]
            clps = clps.reshape(got.shape)[:, perm]
            order, cols = combine_by_label(b["caps"][dl]["mcs"], got.shape[0])
            cond = max(own_cond(b["caps"][x], len(case["data"][x]["spectral"]), None) for x in b["caps"] if not b["caps"][x]["gmcs"]) \
                if "linked" in case["tags"] else own_cond(b["caps"][dl], got.shape[0], None)
            nnls = "nnls" in case["tags"]
            tol = (1e-10 * cond + (1e-13 * cond * cond if nnls else 0.0) + 1e-12) * max(1.0, float(np.max(np.abs(clps))))
            if cond < (1e4 if nnls else 1e7) and not np.all(np.abs(clps - got) <= tol):
                dd = {"key": "clp-vs-model", "what": f"{dl!r}: estimated clps differ from the Lean model by {float(np.max(np.abs(clps - got))):.3e} (cond {cond:.1e})", "case": light}
                if explained:
                    dd["explained"] = True
                ck.disagreements.append(dd)


def zoo_variants(rng, case):
    """random presentation of the clp tables: layout, foreign coordinates, coordinate order"""
    for d in case["data"].values():
        d["variant"] = rng.choice(["plain", "transposed", "shifted-coords"])
        d["coords"] = rng.choice([None, "global-first"])
        if d.get("clp") is None and "global_labels" in d and rng.random() < 0.3:
            # a clp table next to global megacomplexes: simulate uses the global megacomplexes
            d["clp"] = {"labels": list(d["labels"]), "rows": [[round(rng.uniform(1, 5), 3) for _ in d["labels"]] for _ in d["spectral"]]}
    return case


def zoo_with_noise(rng, case):
    c = copy.deepcopy(case)
    for d in c["data"].values():
        d["noise"] = {"std": rng.choice([0.5, 0.01, 2.0]), "seed": rng.choice([0, 3, 99, None]), "global_seed": rng.randint(1, 10 ** 6)}
    return c


# ------------------------------------------------------------------------------------------------------------
# recovery from perturbed starts (empirical clause)
# ------------------------------------------------------------------------------------------------------------
RECOVERY_RULE = (
    "a configuration (model, generating parameters, axes, perturbed start) is tested for recovery iff it is IDENTIFIABLE IN THE "
    "BOX, decided on the real code before optimize() is called: (R1) every dataset's clp matrix at the truth has condition "
    "number < 1e6 at every global index (else `skipped:linear-cond`); (R2) every varied parameter moves the objective: the "
    "column f(p_j * (1 + 1e-6)) / 1e-6 of the relative Jacobian at the truth has norm >= 1e-6 * |data|_2 (else "
    "`skipped:no-effect`); (R3) the relative Jacobian has full column rank with sigma_min >= 1e-4 * sigma_max (else "
    "`skipped:jacobian-rank`); (R4) the start lies in the basin of the truth: the cost sampled at 21 equidistant points of the "
    "segment start -> truth is strictly decreasing (else `skipped:not-in-basin`); (R5) if optimize() ends at a different "
    "parameter vector whose cost is zero to rounding (<= (1e-9 |data|_inf)^2 per residual), two parameter vectors generate the "
    "same data: not identifiable (`other-exact-solution`). Solver limits recorded under C01 (`skipped:solver-limit`). CORE "
    "family (sequential / parallel decay, no or Gaussian IRF, 1-2 datasets, VP or NNLS, linked or not): every configuration "
    "that passes R1-R5 must return to the generating parameters (1e-5 relative, <= 60 evaluations); a miss or an exception is "
    "a violation. WIDE family (any other composition of the zoo: general decay, multi/dispersed/shifted IRF, coherent artifact, "
    "damped oscillation, PFID, baseline, clp guide, scales, all varying parameters perturbed): R1-R5 are evaluated and the "
    "outcome is recorded (`recovered` / `observed-miss` / `observed-raise`), but a miss is not a violation: R1-R4 are local "
    "conditions and do not imply that a local optimiser converges from 20 % in a non-convex problem with many coupled "
    "parameters. Every configuration is listed with its family (megacomplex / IRF tags), diagnostics and status in "
    "evidence.extra.recovery."
)


def _family(case):
    keep = [t for t in case["tags"] if t.startswith(("decay", "general:", "irf:", "damped", "coherent", "pfid", "baseline", "clp-guide", "linked", "nnls", "degenerate"))]
    return "+".join(sorted(keep)) or "none"


def _penalty(opt, params, labels):
    _, x, _, _ = params.get_label_value_and_bounds_arrays(exclude_non_vary=True)
    with np.errstate(all="ignore"):
        return np.asarray(opt.objective_function(np.asarray(x, dtype=float)), dtype=float).ravel()


def identifiability(case, model, truth, start, data, frac):
    """-> (status | None, diagnostics).  Evaluated on the real code only (Optimizer.objective_function); see RECOVERY_RULE."""
    from glotaran.optimization.optimizer import Optimizer
    from glotaran.project import Scheme

    diag = {}
    worst = 1.0
    for dl, d in case["data"].items():
        cap = capture_megacomplexes(model, truth, dl, d["time"], d["spectral"])
        worst = max(worst, own_cond(cap, len(d["spectral"]), None))
    diag["linear_cond"] = worst
    if not worst < 1e6:
        return "skipped:linear-cond", diag
    scheme = Scheme(model=model, parameters=truth.copy(), data=data, maximum_number_function_evaluations=1)
    opt = Optimizer(scheme, verbose=False, raise_exception=True)
    labels, _, _, _ = truth.get_label_value_and_bounds_arrays(exclude_non_vary=True)
    opt._free_parameter_labels = labels
    dnorm = float(np.sqrt(sum(float(np.sum(np.asarray(ds.data.values) ** 2)) for ds in data.values())))
    f0 = _penalty(opt, truth, labels)
    h = 1e-6
    cols = []
    for l in frac:
        p = truth.copy()
        p.get(l).value = truth.get(l).value * (1.0 + h)
        cols.append((_penalty(opt, p, labels) - f0) / h)
    J = np.stack(cols, axis=1)
    if not np.all(np.isfinite(J)):
        return "skipped:jacobian-rank", diag
    norms = np.linalg.norm(J, axis=0)
    diag["weakest_column"] = float(norms.min() / max(dnorm, 1e-300))
    if dnorm == 0.0 or norms.min() < 1e-6 * dnorm:
        diag["no_effect"] = [l for l, n_ in zip(frac, norms) if n_ < 1e-6 * dnorm]
        return "skipped:no-effect", diag
    sv = np.linalg.svd(J, compute_uv=False)
    diag["jacobian_sigma_ratio"] = float(sv[-1] / sv[0])
    if J.shape[0] < J.shape[1] or sv[-1] < 1e-4 * sv[0]:
        return "skipped:jacobian-rank", diag
    costs = []
    for t in np.linspace(0.0, 1.0, 21):
        p = truth.copy()
        for l in frac:
            p.get(l).value = start.get(l).value + t * (truth.get(l).value - start.get(l).value)
        r = _penalty(opt, p, labels)
        costs.append(float(np.dot(r, r)) if np.all(np.isfinite(r)) else float("inf"))
    diag["cost_profile"] = [costs[0], costs[10], costs[-1]]
    if not all(a > b for a, b in zip(costs[:-1], costs[1:])):
        return "skipped:not-in-basin", diag
    return None, diag


def run_recovery(ck, case, frac, wide=False):
    from glotaran.optimization.optimize import optimize
    from glotaran.project import Scheme
    from glotaran.simulation import simulate

    light = {"kind": "recovery", "zoo": case, "perturbation": frac, "wide": wide}
    model, truth = zoo.build(case)
    try:
        data = {dl: simulate(model, dl, truth, zoo.coords_of(case, dl), clp=clp_dataarray(d.get("clp"), "spectral", d["spectral"], "plain"))
                for dl, d in case["data"].items()}
    except Exception as e:  # noqa: BLE001 - the data of a recovery case are a valid simulation
        ck.case(("recovery", json.dumps(light, sort_keys=True, default=str)), False)
        ck.violation("simulate-raises-on-valid-input:" + ":".join(classify_error(e).split(":")[:2]),
                     f"simulate raised {classify_error(e)} for a valid builtin model (recovery case)", light)
        return
    start = truth.copy()
    for l, f in frac.items():
        p = start.get(l)
        p.value = p.value * (1.0 + f)
    fam = ("wide:" if wide else "core:") + _family(case)
    ck.case(("recovery", json.dumps(light, sort_keys=True, default=str)), True)
    record = {"family": fam, "max_perturbation": max([abs(f) for f in frac.values()] + [0.0]), "parameters": len(frac)}
    ck.extra.setdefault("recovery", {"rule": RECOVERY_RULE, "configurations": []})

    def done(status, **kw):
        record.update(status=status, **kw)
        if len(ck.extra["recovery"]["configurations"]) < 400:
            ck.extra["recovery"]["configurations"].append(record)
        ck.count("recovery:" + status)
        ck.count(f"recovery-family:{fam}:{status}")

    ck.oracle_evals += 1
    if not frac:
        return done("skipped:no-free-parameter")
    try:
        status, diag = identifiability(case, model, truth, start, data, frac)
    except Exception as e:  # noqa: BLE001
        if solver_limit(e):
            return done("skipped:solver-limit", error=solver_limit(e))
        if wide:
            return done("observed-raise", error=f"{type(e).__name__}: {str(e)[:120]}")
        ck.violation("recovery-raises:" + type(e).__name__, f"evaluating the objective near the generating parameters raised {type(e).__name__}: {str(e)[:160]}", light)
        return done("raised")
    record.update({k: v for k, v in diag.items()})
    if status is not None:
        return done(status)
    scheme = Scheme(model=model, parameters=start, data=data, maximum_number_function_evaluations=60, ftol=1e-14, gtol=1e-14, xtol=1e-14)
    try:
        res = optimize(scheme, verbose=False, raise_exception=True)
    except Exception as e:  # noqa: BLE001
        if solver_limit(e):
            ck.count("real-error:" + solver_limit(e))
            return done("skipped:solver-limit", error=solver_limit(e))
        if wide:
            return done("observed-raise", error=f"{type(e).__name__}: {str(e)[:120]}")
        ck.violation("recovery-raises:" + type(e).__name__, f"optimize from a perturbed start raised {type(e).__name__}: {str(e)[:160]}", light)
        return done("raised")
    worst = 0.0
    for l in frac:
        t, v = truth.get(l).value, res.optimized_parameters.get(l).value
        worst = max(worst, abs(v - t) / abs(t))
    record["worst_relative_error"] = float(worst)
    record["nfev"] = int(res.number_of_function_evaluations)
    if worst <= 1e-5:
        return done("recovered")
    dmax = max(float(np.max(np.abs(ds.data.values))) for ds in data.values())
    n_res = sum(int(ds.data.size) for ds in data.values())
    if 2.0 * float(res.cost) <= (1e-9 * dmax) ** 2 * n_res:
        return done("other-exact-solution")
    if wide:
        return done("observed-miss", termination=str(res.termination_reason))
    ck.violation("not-recovered", f"identifiable model ({fam}) started {max(abs(f) for f in frac.values()) * 100:.0f} % off did not return to the generating parameters "
                 f"(worst relative error {worst:.2e}, nfev {res.number_of_function_evaluations}, {res.termination_reason!r})", {**light, "worst": worst})
    return done("missed")


def recovery_case(rng, wide=False):
    case = zoo.rand_case(rng, recover=not wide, wide=wide, small=False)
    if not wide and rng.random() < 0.12:
        # a deliberately non-identifiable member of the core family: the generating clps of the last compartment vanish at
        # every global point of every dataset, so its rate does not move the data (the rule must say so: R2)
        n = max(int(l[1:]) for d in case["data"].values() for l in d["labels"] if l[0] == "s" and l[1:].isdigit())
        if n >= 2:
            for d in case["data"].values():
                for tab in (d["clp"], d["truth"]):
                    if f"s{n}" in tab["labels"]:
                        j = tab["labels"].index(f"s{n}")
                        for r in tab["rows"]:
                            r[j] = 0.0
            case["tags"] = sorted(set(case["tags"]) | {"degenerate:zero-clp"})
    frac = {l: rng.choice([-1, 1]) * rng.uniform(0.03, 0.2) for l in case["recover"]}
    return case, frac


# ------------------------------------------------------------------------------------------------------------
def flush(ck, batch):
    if not batch:
        return
    lines = []
    for b in batch:
        lines += b["lines"]
    t0 = time.time()
    answers = core.lean_driver(PROP, lines)
    ck.extra["lean_driver_s"] = round(ck.extra.get("lean_driver_s", 0.0) + time.time() - t0, 1)
    pos = 0
    for b in batch:
        n = len(b["lines"])
        ans = answers[pos:pos + n]
        pos += n
        if "call" in b:
            judge_call(ck, b, ans)
        elif "zoo" in b:
            judge_zoo(ck, b, ans)
        else:
            judge_exact(ck, b, ans)
    batch.clear()


class CaseTimeout(core.HarnessError):
    pass


class _Timeout(BaseException):
    """not an Exception: must pass through the `except Exception` clauses around the real code"""


@contextlib.contextmanager
def time_limit(seconds, what):
    def handler(signum, frame):
        raise _Timeout(what)

    old = signal.signal(signal.SIGALRM, handler)
    signal.setitimer(signal.ITIMER_REAL, seconds)
    try:
        yield
    except _Timeout as e:
        raise CaseTimeout(f"timeout: one case took more than {seconds} s ({e})") from None
    finally:
        signal.setitimer(signal.ITIMER_REAL, 0)
        signal.signal(signal.SIGALRM, old)


def run_case(ck, case, batch, lean=True):
    kind = case.get("kind")
    t0 = time.time()
    try:
        _run_case(ck, case, batch, lean, kind)
    finally:
        dt = round(time.time() - t0, 1)
        slow = ck.extra.setdefault("slowest_case_s", {})
        if dt > slow.get(kind, [0.0])[0]:
            slow[kind] = [dt, case.get("tags") or (case.get("zoo") or {}).get("tags") or sorted(c02.classify(case["spec"])) if "spec" in case or "tags" in case or "zoo" in case else None]


def _run_case(ck, case, batch, lean, kind):
    with time_limit(150 if ck.quick else 600, f"case kind {kind}"):
        if kind in ("exact", "malformed", "noise", "permutation"):
            run_exact(ck, case, batch, lean=lean)
        elif kind == "zoo":
            run_zoo(ck, case, batch, lean=lean)
        elif kind == "call":
            run_call(ck, case, batch, lean=lean)
        elif kind == "recovery":
            run_recovery(ck, case["zoo"], case["perturbation"], wide=bool(case.get("wide")))
        else:
            raise core.HarnessError(f"unknown case kind {kind!r}")


def run(ck):
    try:
        _run(ck)
    except CaseTimeout as e:
        if not ck.violations:
            raise
        # failing inputs were already found on the real code: report them rather than the timeout
        ck.extra["aborted"] = str(e)


def _run(ck):
    gen_scheme.model_class()
    rng = ck.rng
    batch = []
    t_ = [time.time()]
    timing = ck.extra.setdefault("timing_s", {})

    def lap(name):
        timing[name] = round(time.time() - t_[0], 1)
        t_[0] = time.time()

    for c in core.load_corpus(PROP):
        run_case(ck, c["case"], batch)
        ck.count("stream:corpus")
    flush(ck, batch)
    lap("corpus")
    first = None
    for case in permutation_cases():
        run_case(ck, case, batch)
        ck.count("stream:label-permutations(exhaustive)")
        out = batch[-1]["outcomes"]["d1"]
        if out[0] == "ok":
            if first is None:
                first = out[1]
            elif not np.array_equal(first, out[1]):
                ck.violation("depends-on-clp-label-order", "the simulated data change with the order of the clp labels / an unused clp label",
                             {"kind": "permutation", "spec": case["spec"], "sim": case["sim"]})
    flush(ck, batch)
    lap("permutations")
    for i in range(ck.n(70, 2000)):
        case = exact_case(rng)
        run_case(ck, case, batch)
        ck.count("stream:exact")
        if i < 1:
            ck.sample({"kind": "exact", "sim": case["sim"], "groups": case["spec"]["groups"]})
        if rng.random() < 0.25:
            run_case(ck, with_noise(rng, case), batch)
            ck.count("stream:noise")
        if len(batch) >= 40:
            flush(ck, batch)
    flush(ck, batch)
    lap("exact+noise")
    for i in range(ck.n(24, 500)):
        run_case(ck, label_order_case(rng), batch)
        ck.count("stream:label-order-near-axes")
        if i % 2 == 0:
            run_case(ck, full_weighted_case(rng), batch)
            ck.count("stream:full-model-weighted")
        if len(batch) >= 40:
            flush(ck, batch)
    flush(ck, batch)
    lap("label-order+full-weighted")
    for i in range(ck.n(40, 600)):
        run_case(ck, malformed_case(rng), batch)
        ck.count("stream:malformed")
        if len(batch) >= 40:
            flush(ck, batch)
    flush(ck, batch)
    lap("malformed")
    for i in range(ck.n(40, 600)):
        run_case(ck, call_case(rng), batch)
        ck.count("stream:call")
        if len(batch) >= 40:
            flush(ck, batch)
    flush(ck, batch)
    lap("call")
    for i in range(ck.n(60, 1000)):
        case = zoo_variants(rng, zoo.rand_case(rng))
        run_case(ck, case, batch)
        ck.count("stream:builtin")
        if i < 2:
            ck.sample({"kind": "zoo", "tags": case["tags"], "model": case["model"]})
        if rng.random() < 0.15:
            run_case(ck, zoo_with_noise(rng, case), batch)
            ck.count("stream:builtin-noise")
        if len(batch) >= 30:
            flush(ck, batch)
    flush(ck, batch)
    lap("builtin")
    for i in range(ck.n(6, 240)):
        # three of four: the core kinetic family (sequential / parallel decay, no or gaussian IRF); one of four: any configuration
        wide = i % 4 == 3
        case, frac = recovery_case(rng, wide=wide)
        run_case(ck, {"kind": "recovery", "zoo": case, "perturbation": frac, "wide": wide}, batch)
        ck.count("stream:recovery" + (":wide" if wide else ":core"))
    lap("recovery")
    ck.extra["tolerances"] = {"objective_at_truth": "1e-9 * |data|_inf (NNLS with cond >= 1e4: 1e-6 and no parameter check)", "clp": "(1e-10 * cond + 1e-12) * max(1, |clp|)", "parameters": "1e-8 relative",
                              "simulated_data_builtin": "64 eps * sum_l |matrix[:, l] * clp[l]|", "simulated_data_exact": "equality",
                              "recovery": "1e-5 relative after <= 60 evaluations (empirical), for the configurations the stated rule (extra.recovery.rule) calls identifiable"}


def search(ck):
    """widened oracle-only sweep on the real code (no Lean)"""
    rng = ck.rng
    batch = []
    for c in core.load_corpus(PROP):
        run_case(ck, c["case"], batch, lean=False)
    for i in range(ck.n(150, 1500)):
        run_case(ck, exact_case(rng), batch, lean=False)
        if i % 3 == 0:
            run_case(ck, with_noise(rng, exact_case(rng)), batch, lean=False)
        if i % 2 == 0:
            run_case(ck, zoo_variants(rng, zoo.rand_case(rng)), batch, lean=False)
        if i % 4 == 1:
            run_case(ck, call_case(rng), batch, lean=False)
            run_case(ck, label_order_case(rng), batch, lean=False)
            run_case(ck, full_weighted_case(rng), batch, lean=False)
        if ck.violations:
            return


def replay(ck, case):
    gen_scheme.model_class()
    cases = []
    if "disagreements" in case:
        cases = [d["case"] for d in case["disagreements"]]
    elif "case" in case:
        cases = [case["case"]]
    batch = []
    for c in cases:
        if c.get("kind") == "zoo" and "zoo" in c:
            c = c["zoo"]                       # violation payloads wrap the zoo case
        elif c.get("kind") != "zoo":
            c = {k: v for k, v in c.items() if k in ("kind", "spec", "sim", "zoo", "perturbation", "wide")}
        run_case(ck, c, batch)
    flush(ck, batch)
    for d in ck.disagreements:
        print("DISAGREEMENT", d["what"])
