"""C13 — fit statistics are consistent with each other and with the reported data."""
from __future__ import annotations

import copy
import json
import math
from fractions import Fraction

import numpy as np

from harness import core, gen_scheme
from harness.props import c02
from harness.props import _c13_gen as gen
from harness.props import _c13_oracle as orc
from harness.props import _c13_translate as trl

PROP = "C13"
REQUIRED_THEOREMS = [
    "residual_count",
    "residual_count_unlinked",
    "chi_square_decomposes",
    "chi_square_decomposes_datasets_unlinked",
    "chi_square_decomposes_datasets_linked",
    "residual_count_linked",
    "residual_count_linked_members",
    "residual_count_linked_counterexample",
    "global_matrix_shape",
    "full_matrix_has_row_per_data_point",
    "residual_count_every_point",
    "chi_square_over_result_datasets",
    "cost_eq_half_chi",
    "stats_from_objective",
    "dof_formula",
    "reduced_chi_square_formula",
    "nclp_counts_reduced",
    "nclp_linked_at_aligned_values",
    "nclp_counts_remaining_labels",
    "nclp_full_model_product",
    "nclp_append",
    "dataset_rmse_formula",
    "covariance_eq_sandwich",
    "covariance_symm",
    "covariance_psd",
    "covariance_diag_nonneg",
    "jtj_of_svd",
    "covariance_is_pinv_of_truncation",
    "covariance_is_pinv",
    "covariance_is_pinv_iff",
    "penrose_unique",
    "covariance_scale_invariant",
    "errSq_entry",
    "stderr_formula",
    "stderr_stored",
    "stderr_log_space",
    "stderr_nonneg",
    "generated_counts_eq_model",
    "generated_statistics_eq_model",
    "generated_rmse_eq_model",
    "generated_create_result_eq_createStats",
    "generated_cutoff_eq_model",
    "generated_covariance_eq_model",
    "generated_standard_errors_eq_model",
    "generated_stored_standard_error_eq_model",
    "standard_errors_sqrt_of_radicands",
    "generated_dataset_rmse_eq_model",
    "generated_linked_number_of_clps_eq_model",
    "generated_unlinked_number_of_clps_eq_model",
    "chi_square_from_dataset_rmse",
    "unweighted_rmse_not_chi_square_counterexample",
    "stats_total",
    "negative_dof_has_no_rmse",
    "stderr_of_singular_direction",
    "report_shows_the_statistics",
]
TRUSTED = [
    "hand-written model lean/GlotaranModel/C13.lean (on top of C02.lean, C03.lean, C11.lean) of Optimizer.create_result, "
    "calculate_covariance_matrix_and_standard_errors, MatrixProvider{Unlinked,Linked}.number_of_clps and the RMSE attributes of "
    "OptimizationGroup.create_result_data; tied to the code by differential execution",
    "numpy.linalg.svd: its output (s, Vt) is captured and handed to the model as a parameter; the hypotheses the theorems put on it "
    "(Vt Vt^T = 1, J = U diag(s) Vt, U^T U = 1) are evaluated on every captured triple in exact arithmetic with tolerance 1e-10",
    "scipy.optimize.least_squares result fields: x, fun, jac, nfev are consistent (fun = objective(x) is re-checked by re-evaluating the "
    "objective at the optimised parameters; jac is taken as the Jacobian the statement talks about)",
    "LAPACK / scipy.optimize.nnls numerics (statistics derived from residuals are compared with the exact rational model at relative 1e-8)",
    "numpy sqrt / exp / log as elementary functions (terms printed by the model are evaluated with them; radicands are compared exactly)",
    "the function-level translator harness/props/_c13_translate.py (Python ast -> Lean definitions in Generated/C13Fns.lean, with its type "
    "inference int / float / array and the numpy vocabulary lean/GlotaranModel/C13Py.lean: meaning of .size, len, range, sum, max, **, np.sum, "
    "np.dot, .max(initial=), boolean-mask indexing, .T, broadcast division, @, np.diag, np.sqrt, np.finfo(float).eps, Python float division); the "
    "generated definitions are proved equal to the hand-written model, which the differential correspondence ties to the running code",
]
ASSUMPTIONS = [
    "megacomplex outputs are inputs of the model (test megacomplexes with prescribed matrices, evaluated at the optimised parameters)",
    "model-level weights: the weight array is taken from result.data[label].weight (C08 covers its construction)",
    "weights are non-zero (a zero weight makes residual = weighted_residual / weight non-finite)",
    "an optimisation in which the optimiser drives a model-matrix entry to a non-finite value or beyond 1e100 is abandoned (scipy 1.14's "
    "nnls does not return on such input; containment of non-finite models is C15's subject); so is one that exceeds 4*(max_nfev+2)*(n+2)+50 "
    "objective evaluations or 120 s — all three are counted in the evidence (real-error:*) and produce no Result to judge",
    "the Penrose identities are evaluated on the real (J, covariance) only when 1e3 * cond(J^T J) * eps <= 1e-4 and no singular value lies "
    "in the grey zone (1e-16, 1e-12] x sigma_max; outside, the covariance is compared with the model fed with the captured SVD only",
]
RULE = (
    "complete optimisations optimize(scheme) over the C02 scheme space of harness/gen_scheme.py with noisy integer/half-integer data: "
    "streams random (all or a random subset of parameters free), mixing (extra megacomplexes make 1-3 parameters change column "
    "directions: well-conditioned Jacobians), items (one group, linked or not, constraints/relations/penalties with intervals, their "
    "parameters free), full (datasets with a global model), tiny/huge (data x 2^-30 / 2^20); methods TrustRegionReflection, Dogbox, "
    "Levenberg-Marquardt; 1-8 function evaluations; non-negative (log-space) parameters; dataset/model weights. For every successful "
    "Result (a) every clause of the statement is evaluated on the Result alone in exact rational arithmetic (oracle), (b) the Lean "
    "model is fed with the scheme at the optimised parameters, with the captured SVD of the Jacobian and with rmse*sqrt(diag) and "
    "must reproduce all integer statistics exactly, chi-square / cost / reduced chi-square / per-dataset RMSE radicands at 1e-8, the "
    "covariance matrix at 1e-9 x max|C| and every standard error. A second stream calls "
    "Optimizer.calculate_covariance_matrix_and_standard_errors directly on constructed Jacobians with prescribed singular values "
    "(zero, around sqrt(eps), around eps*max(shape)*sigma_max, huge) and parameter values (1, below/above 1, non-negative or not). "
    "A clp-count stream builds two partially overlapping datasets (linked; unlinked; unlinked with a full model) with one zero/only "
    "constraint and/or one relation whose interval takes every placement over the end points 0.5..4.5 (closed, reversed, degenerate, "
    "half-infinite, two-piece; thorough: all 1554, quick: 160 sampled), and the same on a tolerance variant (second axis 2.125, 2.875, 4; "
    "tolerance 0.25; linked with nearest / backward / forward, which merge different points, and unlinked; end points 2.0625 and 2.9375 "
    "lie between a merged point's own coordinate and its aligned value, so merged points sit on both sides of every interval bound; "
    "thorough: all 3884, quick: 200 sampled; the evidence counts own-in/aligned-out and own-out/aligned-in placements), and compares "
    "number_of_clps of the real providers with the oracle's label count, with the total number of columns of the matrices the real code "
    "hands to the linear solver (captured), and with the model. The Lean witness of residual_count_linked_counterexample (first dataset of a "
    "linked group repeats a global coordinate) is run on the driver and on the real code (which must refuse it or count 4 residuals). "
    "Every successful Result additionally has its report checked: Result.markdown(with_model=False) is parsed and every statistic row must show "
    "the field of that name (integers exactly, floats to the digits of .2e; once per run also for a copy of the Result whose float statistics are "
    "exactly 0), the per-dataset table must show the weighted / unweighted RMSE attributes in that order, chi-square must equal the sum over "
    "datasets of size x weighted_root_mean_square_error^2 plus the squared penalties, and a free parameter whose Jacobian column is exactly zero "
    "must have a zero covariance row and standard error 0 (judged where the Penrose identities are). A deterministic edge stream runs dof = 0 "
    "(the code must raise ZeroDivisionError exactly when N = free + clps), dof < 0 (RMSE and standard errors nan), all parameters fixed "
    "(least_squares refuses an empty vector: no Result), a parameter nothing depends on (plain and non-negative), max_nfev = 1 for every method; "
    "termination reasons are counted. "
    "non-trivial = chi-square > 0 and at least one free parameter; distinct = distinct spec"
)
RTOL_MODEL = 1e-8
EPS = 2.0 ** -52


# ------------------------------------------------------------------------------------------------
# translator: the statistics code, function by function, as Lean definitions (regenerated on every run)
# ------------------------------------------------------------------------------------------------
LEAN_GEN = core.LEAN / "GlotaranModel" / "Generated" / "C13Fns.lean"
GEN_SOURCES = ["glotaran/optimization/optimizer.py", "glotaran/optimization/optimization_group.py",
               "glotaran/optimization/matrix_provider.py", "glotaran/project/result.py"]


def generate(ck):
    text, report = trl.translate(core.REPO)
    trl.write_if_changed(LEAN_GEN, text)
    ck.extra["translated_definitions"] = report
    bad = {k: v for k, v in report.items() if v != "ok"}
    if bad:
        ck.extra["untranslatable"] = bad
    return [{"table": "C13Fns: one Lean definition per assignment of Optimizer.create_result (statistics), "
                      "calculate_covariance_matrix_and_standard_errors (cut-off, mask, covariance, standard errors, loop body), "
                      "OptimizationGroup.create_result_data (RMSE attributes), MatrixProvider{Linked,Unlinked}.number_of_clps; "
                      "rows of Result.markdown (label, field, how it is shown)",
             "source": ", ".join(GEN_SOURCES), "sha1": trl.sha1(text)}]


# ------------------------------------------------------------------------------------------------
# real code
# ------------------------------------------------------------------------------------------------
class SvdSpy:
    """records (input, s, vt, u) of numpy.linalg.svd calls made while a Result is created"""

    def __init__(self):
        self.calls = []

    def __enter__(self):
        self.orig = np.linalg.svd
        spy = self

        def svd(a, *args, **kw):
            out = spy.orig(a, *args, **kw)
            try:
                if kw.get("full_matrices") is False and kw.get("compute_uv", True):
                    spy.calls.append((np.array(a, dtype=float), np.array(out[1], dtype=float), np.array(out[2], dtype=float),
                                      np.array(out[0], dtype=float)))
            except Exception:
                pass
            return out
        np.linalg.svd = svd
        return self

    def __exit__(self, *a):
        np.linalg.svd = self.orig


class EvaluationBudgetExceeded(Exception):
    pass


class NonFiniteProblem(Exception):
    pass


class RunTimeout(BaseException):
    """a single optimisation took more than 120 s (normal: 0.1 s)"""


def run_real(spec):
    from glotaran.optimization.optimize import optimize
    out = {"error": None}
    try:
        scheme, model, parameters, data = gen.build(spec)
    except Exception as e:
        out["error"] = "build:" + type(e).__name__ + ":" + str(e)[:100]
        return out
    from glotaran.optimization.optimizer import Optimizer
    n_free = len(gen.free_labels(spec))
    budget = [4 * (int(spec.get("max_nfev") or 1) + 2) * (n_free + 2) + 50]
    orig_objective = Optimizer.objective_function

    def guarded(self, parameters):
        # scipy's MINPACK driver (`lm`) can keep calling the objective far beyond max_nfev when the objective turns non-finite
        # (it then never returns); a budget of evaluations turns that into an exception instead of a hang of the check
        budget[0] -= 1
        if budget[0] < 0:
            raise EvaluationBudgetExceeded()
        return orig_objective(self, parameters)
    from glotaran.optimization import estimation_provider as ep
    orig_residual = ep.EstimationProvider.calculate_residual

    def finite_only(self, matrix, data):
        # scipy 1.14's pure-Python nnls never returns on a non-finite matrix (an unbounded `lm` step can drive a parameter to
        # 1e300 and the matrix to inf/nan); containment of non-finite models is C15's subject — here the run is abandoned
        # (the same happens for finite entries around 1e288: A^T A overflows inside nnls)
        with np.errstate(all="ignore"):
            if not (np.all(np.abs(matrix) < 1e100) and np.all(np.abs(data) < 1e100)):
                raise NonFiniteProblem()
        return orig_residual(self, matrix, data)
    Optimizer.objective_function = guarded
    ep.EstimationProvider.calculate_residual = finite_only
    import signal

    def on_alarm(signum, frame):
        raise RunTimeout()
    try:
        old_handler = signal.signal(signal.SIGALRM, on_alarm)
        signal.alarm(120)
    except ValueError:      # not in the main thread
        old_handler = None
    try:
        with SvdSpy() as spy:
            try:
                res = optimize(scheme, verbose=False, raise_exception=True)
            except RunTimeout:
                out["error"] = "timeout"
                return out
            except ZeroDivisionError:
                out["error"] = "dof-zero"
                return out
            except EvaluationBudgetExceeded:
                out["error"] = "evaluation-budget-exceeded"
                return out
            except NonFiniteProblem:
                out["error"] = "non-finite-matrix"
                return out
            except Exception as e:
                out["error"] = type(e).__name__ + ":" + str(e)[:120]
                return out
    finally:
        if old_handler is not None:
            signal.alarm(0)
            signal.signal(signal.SIGALRM, old_handler)
        Optimizer.objective_function = orig_objective
        ep.EstimationProvider.calculate_residual = orig_residual
    out["result"] = res
    out["svd"] = spy.calls
    return out


# ------------------------------------------------------------------------------------------------
# model lines
# ------------------------------------------------------------------------------------------------
def mat(m):
    return core.lst(core.rats(r) for r in m)


def model_weights(spec, res):
    weights = {}
    for ds in spec["datasets"]:
        if ds.get("weight") is not None:
            weights[ds["label"]] = np.array(ds["weight"], dtype=float)
        elif res is not None and ds["label"] in res.data and "weight" in res.data[ds["label"]]:
            weights[ds["label"]] = np.asarray(res.data[ds["label"]].weight.transpose("model", "global").values, dtype=float)
        else:
            weights[ds["label"]] = None
    return weights


def param_line(p):
    from harness.props import c11
    return core.lst([core.enc(p.label), c11.ext(p.value), c11.ext(p.minimum), c11.ext(p.maximum), core.bool_(p.non_negative),
                     core.bool_(p.vary), "none" if not p.expression else core.enc(p.expression), "nan"])


def model_lines(spec, real):
    """protocol lines for one successful result: scheme at the optimised parameters + statistics + covariance + standard errors"""
    res = real["result"]
    s_opt = copy.deepcopy(spec)
    s_opt["parameters"] = {p.label: float(p.value) for p in res.optimized_parameters.all()}
    lines = gen_scheme.spec_lines(s_opt, weights_from_provider=model_weights(spec, res))
    lines += ["clps", f"stats {len(gen.free_labels(spec))}", "dsstats"]
    J = np.asarray(res.jacobian, dtype=float)
    cap = None
    for a, s, vt, u in real["svd"]:
        if a.shape == J.shape and np.array_equal(a, J):
            cap = (s, vt, u)
    idx = {"clps": len(lines) - 3, "stats": len(lines) - 2, "dsstats": len(lines) - 1, "svd": cap}
    if cap is not None and np.all(np.isfinite(cap[0])) and np.all(np.isfinite(cap[1])):
        lines.append(f"cov {core.rats(cap[0])} {mat(cap[1])} {J.shape[0]} {J.shape[1]}")
        idx["cov"] = len(lines) - 1
    C = np.asarray(res.covariance_matrix, dtype=float)
    rmse = float(res.root_mean_square_error)
    if np.all(np.isfinite(C)) and rmse == rmse and C.ndim == 2 and C.shape[0] == C.shape[1]:
        lines.append(f"errsq {core.rat(Fraction(rmse) ** 2)} {mat(C)}")
        idx["errsq"] = len(lines) - 1
        with np.errstate(all="ignore"):
            errs = rmse * np.sqrt(np.diag(C))
        if np.all(np.isfinite(errs)) and len(errs) == len(res.free_parameter_labels):
            ps = list(res.optimized_parameters.all())
            # the parameter set as it is when the loop runs: standard errors not yet assigned
            lines.append("stderr {} {} {}".format(core.lst(param_line(p) for p in ps), core.strs(res.free_parameter_labels), core.rats(errs)))
            idx["stderr"] = len(lines) - 1
            idx["errs"] = [float(e) for e in errs]
    return lines, idx


# ------------------------------------------------------------------------------------------------
# judging model vs implementation
# ------------------------------------------------------------------------------------------------
def rel(a, b, tol, floor=0.0):
    return abs(a - b) <= tol * max(abs(a), abs(b)) + floor


def svd_hypotheses(ck, J, s, vt, u, light):
    """the hypotheses the covariance theorems put on the SVD, evaluated exactly on the captured doubles"""
    Vq = orc.fmat(vt)
    r = len(Vq)
    VVt = orc.mmul(Vq, orc.mT(Vq))
    e1 = max((abs(VVt[i][j] - (1 if i == j else 0)) for i in range(r) for j in range(r)), default=Fraction(0))
    Uq = orc.fmat(u)
    UtU = orc.mmul(orc.mT(Uq), Uq)
    e2 = max((abs(UtU[i][j] - (1 if i == j else 0)) for i in range(r) for j in range(r)), default=Fraction(0))
    US = [[Uq[i][k] * orc.F(s[k]) for k in range(r)] for i in range(len(Uq))]
    rec = orc.mmul(US, Vq)
    e3 = orc.mmax(orc.msub(rec, orc.fmat(J)))
    scale = max(1e-300, float(np.abs(J).max()) if J.size else 0.0)
    ck.extra.setdefault("svd_hypotheses_max", {"VVt-1": 0.0, "UtU-1": 0.0, "USVt-J(rel)": 0.0})
    m = ck.extra["svd_hypotheses_max"]
    m["VVt-1"] = max(m["VVt-1"], float(e1))
    m["UtU-1"] = max(m["UtU-1"], float(e2))
    m["USVt-J(rel)"] = max(m["USVt-J(rel)"], float(e3) / scale)
    if float(e1) > 1e-10 or float(e2) > 1e-10 or float(e3) > 1e-10 * scale or any(x < 0 for x in s):
        ck.diagnostic("numpy.linalg.svd output violates the assumed SVD properties", {**light, "errors": [float(e1), float(e2), float(e3)]})
        ck.count("svd-hypotheses-failed")
    else:
        ck.count("svd-hypotheses-ok")


def judge(ck, b, ans):
    spec, real, idx = b["spec"], b["real"], b["idx"]
    light = {"spec": spec}
    res = real["result"]
    bad = []
    if any(a.startswith("bad") for a in ans):
        raise core.HarnessError(f"model rejected a protocol line: {[(l[:200], a) for l, a in zip(b['lines'], ans) if a.startswith('bad')][:2]}")
    # ---- statistics ------------------------------------------------------------------------------
    a = ans[idx["clps"]]
    if not a.startswith("clps "):
        bad.append(f"model answered {a!r} to clps")
    else:
        per = [int(v) for v in core.parse_tree(a[5:])[0]]
        if sum(per) != int(res.number_of_clps):
            bad.append(f"number_of_clps: implementation {res.number_of_clps}, model {sum(per)} (per group {per})")
    benign = b["facts"].get("solver_benign", True)
    if not benign:
        # the exact model solves every linear sub-problem exactly; LAPACK / scipy.nnls do not when a matrix is (numerically)
        # rank deficient or has columns of extreme scale (a parameter driven to 0 / 1e-40): C01's subject, not C13's
        ck.count("model:float-statistics-skipped:solver-regime")
    a = ans[idx["stats"]]
    if not benign:
        pass
    elif not a.startswith("stats "):
        bad.append(f"model answered {a!r} to stats")
    else:
        t = core.parse_tree(a[6:])
        st, per_group, pens = t[0], t[1], t[2]
        N, nfree, nclp, dof = int(st[0]), int(st[1]), int(st[2]), int(st[3])
        chi, cost = Fraction(st[4]), Fraction(st[5])
        red = None if st[6] == "none" else Fraction(st[6])
        ck.count("model:dof-sign:" + ("pos" if dof > 0 else "zero" if dof == 0 else "neg"))
        for name, got, want in (("number_of_residuals", res.number_of_residuals, N), ("number_of_free_parameters", res.number_of_free_parameters, nfree),
                                ("number_of_clps", res.number_of_clps, nclp), ("degrees_of_freedom", res.degrees_of_freedom, dof)):
            if int(got) != want:
                bad.append(f"{name}: implementation {got}, model {want}")
        # a perfect fit leaves pure rounding noise: differences are measured against the size of the data as well
        floor = 1e-14 * float(sum((orc.fsum_sq(d["data"]) for d in spec["datasets"]), Fraction(0)))
        for name, got, want, fl in (("chi_square", res.chi_square, chi, floor), ("cost", res.cost, cost, floor),
                                    ("reduced_chi_square", res.reduced_chi_square, red, floor / max(1, abs(dof)))):
            if want is None:
                bad.append(f"{name}: model says division by zero, implementation returned {got}")
            elif not rel(float(got), float(want), RTOL_MODEL, fl):
                bad.append(f"{name}: implementation {float(got)!r}, model {float(want)!r}")
        if red is not None and red >= 0:
            r = float(res.root_mean_square_error)
            if not rel(r * r, float(red), RTOL_MODEL, floor / max(1, abs(dof))):
                bad.append(f"root_mean_square_error^2: implementation {r * r!r}, model radicand {float(red)!r}")
        got_pens = [[float(v) for v in g] for g in (res.additional_penalty or [])]
        want_pens = [[float(Fraction(v)) for v in g] for g in pens]
        scale = max([1.0] + [abs(v) for g in got_pens + want_pens for v in g])
        if [len(g) for g in got_pens] != [len(g) for g in want_pens] or any(
                abs(x - y) > RTOL_MODEL * scale for g, h in zip(got_pens, want_pens) for x, y in zip(g, h)):
            bad.append(f"additional_penalty: implementation {got_pens}, model {want_pens}")
    # ---- per-dataset rmse ------------------------------------------------------------------------
    a = ans[idx["dsstats"]]
    if not benign:
        pass
    elif not a.startswith("dsstats "):
        bad.append(f"model answered {a!r} to dsstats")
    else:
        for item in core.parse_tree(a[8:])[0]:
            label = core.dec(item[0])
            if label not in res.data:
                bad.append(f"{label}: missing in result")
                continue
            r = res.data[label]
            size, rm, wrm = int(item[1]), Fraction(item[2]), Fraction(item[3])
            if size != int(r.residual.shape[0] * r.residual.shape[1]):
                bad.append(f"{label}: size {r.residual.shape} vs model {size}")
            for name, got, want in (("root_mean_square_error", float(r.attrs["root_mean_square_error"]), rm),
                                    ("weighted_root_mean_square_error", float(r.attrs["weighted_root_mean_square_error"]), wrm)):
                if not rel(got * got, float(want), RTOL_MODEL, 1e-14 * float(orc.fsum_sq(r.data.values)) / max(1, size)):
                    bad.append(f"{label}: attrs[{name}]^2 = {got * got!r}, model radicand {float(want)!r}")
    # ---- covariance ------------------------------------------------------------------------------
    C = np.asarray(res.covariance_matrix, dtype=float)
    J = np.asarray(res.jacobian, dtype=float)
    if idx["svd"] is None:
        if np.all(np.isfinite(J)):
            ck.diagnostic("no numpy.linalg.svd(jacobian, full_matrices=False) call observed while the result was created", light)
            ck.count("svd-not-captured")
    elif "cov" in idx:
        s, vt, u = idx["svd"]
        svd_hypotheses(ck, J, s, vt, u, light)
        t = core.parse_tree(ans[idx["cov"]][4:])
        want = np.array([[float(Fraction(v)) for v in row] for row in t[0]], dtype=float).reshape(J.shape[1], J.shape[1])
        scale = max(float(np.abs(want).max()) if want.size else 0.0, float(np.abs(C).max()) if C.size else 0.0)
        kept = int(t[1])
        ck.count(f"cov:kept={min(kept, 4)}{'+' if kept > 4 else ''}/dropped={min(len(s) - kept, 3)}")
        if C.shape != want.shape or not np.all(np.abs(C - want) <= 1e-9 * scale):
            bad.append(f"covariance_matrix differs from the model fed with the captured SVD (max difference "
                       f"{float(np.abs(C - want).max()) if C.shape == want.shape else 'shape'}, scale {scale})")
    if "errsq" in idx:
        want = [Fraction(v) for v in core.parse_tree(ans[idx["errsq"]][6:])[0]]
        for e, w in zip(idx.get("errs", []), want):
            if not rel(e * e, float(w), 1e-12):
                bad.append(f"rmse*sqrt(diag(cov)) squared {e * e!r} vs model radicand {float(w)!r}")
    if "stderr" in idx:
        from harness.props import c11
        a = ans[idx["stderr"]]
        if a == "unmodelled":
            ck.count("stderr:unmodelled")
        elif not a.startswith("stderr "):
            bad.append(f"model answered {a!r} to stderr")
        else:
            te = b["te"]
            for item in core.parse_tree(a[7:])[0]:
                label = core.dec(item[0])
                want = te.value(item[7]) if item[7] not in ("nan", "inf", "-inf") else float(item[7])
                got = float(res.optimized_parameters.get(label).standard_error)
                p = res.optimized_parameters.get(label)
                ck.count("stderr:" + ("fixed" if label not in res.free_parameter_labels else "non-negative" if p.non_negative else "plain"))
                e_opt = idx["errs"][list(res.free_parameter_labels).index(label)] if label in res.free_parameter_labels else float("nan")
                same = orc.se_close(got, want, float(p.value) if p.non_negative else None, e_opt)
                if not same:
                    bad.append(f"standard_error of {label!r}: implementation {got!r}, model {want!r}")
    for what in bad[:4]:
        d = {"key": "model-vs-impl", "what": what, "case": light}
        if b.get("oracle_failed"):
            d["explained"] = True
        ck.disagreements.append(d)


# ------------------------------------------------------------------------------------------------
def tags(spec, res=None):
    t = c02.classify(spec)
    t.append("method=" + spec.get("optimization_method", "TrustRegionReflection"))
    t.append("stream=" + spec.get("stream", "?"))
    t.append(f"max_nfev={spec.get('max_nfev')}")
    t.append("free=" + ("all" if spec.get("vary") is None else str(min(len(spec["vary"]), 4))))
    if spec.get("non_negative"):
        t.append("non-negative")
    return t


def check_spec(ck, spec, batch, te):
    real = run_real(spec)
    for t in tags(spec):
        ck.count("spec:" + t)
    light = {"spec": spec}
    before = len(ck.violations) + len(ck.known_hits)
    nontrivial = False
    if real["error"]:
        kind = real["error"].split(":")[0]
        ck.count("real-error:" + kind)
        if kind == "evaluation-budget-exceeded":
            ck.diagnostic("least_squares kept evaluating the objective far beyond max_nfev (no Result)", light)
        elif kind == "timeout":
            ck.diagnostic("optimize(scheme) did not return within 120 s (run abandoned)", light)
        elif kind == "non-finite-matrix":
            ck.diagnostic("the optimiser drove a parameter to a value that makes the model matrix non-finite or larger than 1e100 (run abandoned)", light)
        elif kind == "dof-zero":
            # the only way the statistics are undefined: reduced chi-square at dof = 0 (Lean: stats_total) — the code raises
            # ZeroDivisionError in create_result; it must do so exactly when N - free parameters - clps = 0
            exp = orc.expected_clps(spec)
            if exp is not None:
                pens = sum(1 for _ in spec.get("penalties") or [])
                dof = orc.expected_points(spec) - len(gen.free_labels(spec)) - sum(exp)
                ck.count("dof-zero:expected-dof=" + ("0" if dof == 0 else "nonzero-before-penalties" if pens else "nonzero"))
                if dof != 0 and not pens:
                    ck.violation("zero-division-with-nonzero-dof", f"create_result raised ZeroDivisionError but N - free - clps = {dof}", light)
        elif kind == "ValueError" and not gen.free_labels(spec) and "zero-size array" in real["error"]:
            # all parameters fixed: scipy.optimize.least_squares cannot take an empty parameter vector — no successful Result exists
            ck.count("real-error:all-parameters-fixed:least-squares-refuses-empty-x")
        elif kind not in ("AlignDatasetError",):
            if kind == "ValueError" and "Levenberg-Marquardt" == spec.get("optimization_method") and "`lm`" in real["error"]:
                ck.count("real-error:lm-needs-more-residuals-than-parameters")
            else:
                # no statistics at all: whatever create_result does to assemble them must not fail
                ck.violation("optimize-raises:" + kind, f"optimize(scheme) raised {real['error']}", light)
        ck.case(("spec", json.dumps(spec, sort_keys=True, default=str)), False)
        return
    res = real["result"]
    if not res.success:
        ck.count("result:unsuccessful")
        ck.case(("spec", json.dumps(spec, sort_keys=True, default=str)), False)
        return
    ck.count(f"result:nfev={min(res.number_of_function_evaluations, 9)}")
    reason = str(res.termination_reason)
    ck.count("result:termination=" + ("max-nfev" if "maximum number of function evaluations" in reason else
                                      "converged" if "termination condition is satisfied" in reason else "other"))
    facts = orc.check_result(ck, spec, res, light)
    nontrivial = facts.get("chi", 0) > 0 and facts.get("nfree", 0) > 0
    exp = facts.get("expected_clps")
    naive = sum(len(orc._labels(d)) * len(d["global_axis"]) for d in spec["datasets"])
    if exp is not None:
        ck.count("oracle:clp-count-" + ("equals-labels-x-indices" if sum(exp) == naive else "differs-from-labels-x-indices"))
    cov = facts.get("cov") or {}
    if "rank" in cov:
        ck.count(f"oracle:jacobian-rank={min(cov['rank'], 4)}-of-{min(cov['n'], 4)}")
    ck.case(("spec", json.dumps(spec, sort_keys=True, default=str)), nontrivial)
    failed = (len(ck.violations) + len(ck.known_hits)) > before
    lines, idx = model_lines(spec, real)
    batch.append({"spec": spec, "real": real, "lines": lines, "idx": idx, "oracle_failed": failed, "te": te, "facts": facts})


def flush(ck, batch):
    if not batch:
        return
    all_lines = []
    for b in batch:
        all_lines += b["lines"]
    answers = core.lean_driver(PROP, all_lines)
    pos = 0
    for b in batch:
        n = len(b["lines"])
        judge(ck, b, answers[pos:pos + n])
        pos += n
    batch.clear()


# ------------------------------------------------------------------------------------------------
# direct stream: calculate_covariance_matrix_and_standard_errors on constructed Jacobians
# ------------------------------------------------------------------------------------------------
ORTHO = {
    1: [[[1]]],
    2: [[[1, 0], [0, 1]], [[0, 1], [1, 0]], [[Fraction(3, 5), Fraction(4, 5)], [Fraction(-4, 5), Fraction(3, 5)]],
        [[Fraction(5, 13), Fraction(12, 13)], [Fraction(12, 13), Fraction(-5, 13)]]],
    3: [[[1, 0, 0], [0, 1, 0], [0, 0, 1]], [[0, 0, 1], [1, 0, 0], [0, 1, 0]],
        [[Fraction(1, 3), Fraction(2, 3), Fraction(2, 3)], [Fraction(2, 3), Fraction(1, 3), Fraction(-2, 3)], [Fraction(2, 3), Fraction(-2, 3), Fraction(1, 3)]],
        [[Fraction(2, 7), Fraction(3, 7), Fraction(6, 7)], [Fraction(3, 7), Fraction(-6, 7), Fraction(2, 7)], [Fraction(6, 7), Fraction(2, 7), Fraction(-3, 7)]]],
}
_DIRECT_OPT = {}


def direct_optimizer(n):
    """an Optimizer whose parameter set has n free parameters p.1..p.n (values are set per case)"""
    from glotaran.optimization.optimizer import Optimizer
    if n not in _DIRECT_OPT:
        spec = {"groups": {"default": {"link_clp": False, "residual_function": "variable_projection"}},
                "parameters": {f"p.{i + 1}": 1.0 for i in range(n)},
                "datasets": [{"label": "d1", "group": "default", "global_axis": [1.0, 2.0], "model_axis": [0.0, 1.0, 2.0], "dims_order": "mg",
                              "data": [[1.0, 2.0], [0.5, 1.0], [3.0, -1.0]], "weight": None, "scale": None,
                              "mcs": [{"labels": ["s1"], "index_dependent": False, "base": [[1.0], [2.0], [1.0]], "pars": None, "scale": None}],
                              "gmcs": []}],
                "constraints": [], "relations": [], "penalties": [], "weights": []}
        scheme, *_ = gen_scheme.build(spec)
        _DIRECT_OPT[n] = Optimizer(scheme, verbose=False, raise_exception=True)
    return _DIRECT_OPT[n]


def direct_case(rng):
    n = rng.choice([1, 2, 2, 3, 3])
    m = n + rng.choice([0, 1, 2, 4])
    V = rng.choice(ORTHO[n])
    mu = rng.choice([k for k in (1, 2, 3) if k <= m and k >= 1])
    # U: n orthonormal columns of length m = an orthogonal block padded with zero rows, rows permuted
    Ub = rng.choice(ORTHO[n])
    rows = [list(r) for r in Ub] + [[Fraction(0)] * n for _ in range(m - n)]
    rng.shuffle(rows)
    smax = rng.choice([1.0, 1.0, 3.0, 2.0 ** 10, 2.0 ** -10, 2.0 ** -30, 2.0 ** 30])
    rel_levels = [1.0, 0.5, 2.0 ** -8, 2.0 ** -20, 2.0 ** -26, 1.4901161193847656e-08 / max(smax, 1e-300), 2.0 ** -40, 2.0 ** -48,
                  EPS * m * 4, EPS * m * 1.5, EPS * m * 0.6, EPS * m / 4, 2.0 ** -60, 0.0, 0.0]
    s = sorted([smax] + [smax * rng.choice(rel_levels) for _ in range(n - 1)], reverse=True)
    if rng.random() < 0.08:
        s = [0.0] * n
    J = [[sum((rows[i][k] * Fraction(s[k]) * V[k][j] for k in range(n)), Fraction(0)) for j in range(n)] for i in range(m)]
    J = [[float(v) for v in r] for r in J]
    values = [rng.choice([1.0, 1.0, 0.5, 2.0, 1e-3, 7.5, 1.0 + 2.0 ** -40, 1e5]) for _ in range(n)]
    nonneg = [rng.random() < 0.6 for _ in range(n)]
    rmse = rng.choice([1.0, 0.25, 3.0, 1e-3, 40.0, 1e-9, 0.0])
    return {"J": J, "values": values, "non_negative": nonneg, "rmse": rmse, "s": s, "V": [[str(Fraction(x)) for x in r] for r in V]}


def run_direct(ck, case, batch, te):
    n = len(case["values"])
    opt = direct_optimizer(n)
    labels = [f"p.{i + 1}" for i in range(n)]
    opt._free_parameter_labels = labels
    for l, v, nn in zip(labels, case["values"], case["non_negative"]):
        p = opt._parameters.get(l)
        p.non_negative = nn
        p.value = v
        p.standard_error = float("nan")
    J = np.array(case["J"], dtype=float)
    light = {"direct": case}
    ps_before = [param_line(p) for p in opt._parameters.all()]
    with SvdSpy() as spy:
        try:
            C = np.asarray(opt.calculate_covariance_matrix_and_standard_errors(J, case["rmse"]), dtype=float)
        except Exception as e:
            ck.violation("covariance-raises", f"calculate_covariance_matrix_and_standard_errors raised {type(e).__name__}: {e}", light)
            return
    got_se = [float(opt._parameters.get(l).standard_error) for l in labels]
    ck.oracle_evals += 1
    before = len(ck.violations) + len(ck.known_hits)
    certs, info = orc.covariance_certificates(J, C)
    for name, (resid, allowed, checked) in certs.items():
        if not checked:
            ck.count("direct:cov-skipped:" + name.split(":")[0])
            continue
        ck.count("direct:cov-checked:" + name.split(":")[0])
        if not (resid <= allowed):
            key = "covariance-" + name.split(":")[0]
            svs = info.get("sv") or []
            if name.startswith("penrose1") and svs and all(s * s <= EPS for s in svs if s > 1e-12 * max(svs)):
                key = "covariance-penrose1:all-singular-values-below-sqrt-eps"
            elif name.startswith("penrose1") and any(s * s <= EPS for s in svs if s > 1e-12 * max(svs)):
                key = "covariance-penrose1:some-singular-values-below-sqrt-eps"
            ck.violation(key, f"covariance matrix is not the symmetric positive semi-definite pseudo-inverse of J^T J: {name} residual "
                         f"{resid:.3e} > allowed {allowed:.3e} (singular values of J: {svs})", light)
    # The Jacobian was built as U diag(s) V from exact orthogonal factors, so the pseudo-inverse of J^T J is known exactly:
    # V^T diag(1/s^2 on the non-zero s) V.  Whatever algorithm computes the covariance has to reproduce it as long as every
    # non-zero singular value is far above the rounding level of J (relative 2^-44 here); an SVD of J does so with relative
    # error ~ eps * cond(J).  (Seeded change C13-1: pinv(J^T J) squares the condition number and drops directions with
    # s/s_max < 3e-8 — exactly the cases for which the Penrose certificates above are skipped as too ill-conditioned.)
    if case.get("V") and C.shape == (n, n):
        sv = [float(x) for x in case["s"]]
        smax = max(sv) if sv else 0.0
        if smax > 0 and all(x == 0.0 or x / smax >= 2.0 ** -44 for x in sv) and all(math.isfinite(1.0 / (x * x)) for x in sv if x):
            Vx = [[Fraction(x) for x in r] for r in case["V"]]
            exact = [[float(sum((Vx[k][i] * Vx[k][j] / (Fraction(sv[k]) ** 2) for k in range(n) if sv[k] != 0.0), Fraction(0)))
                      for j in range(n)] for i in range(n)]
            exact = np.array(exact, dtype=float)
            kappa = smax / min(x for x in sv if x)
            tol = (64 * EPS * kappa + 1e-9) * max(float(np.abs(exact).max()), 1e-300)
            ck.count("direct:cov-exact-pinv-checked")
            if not np.all(np.abs(C - exact) <= tol):
                ck.violation("covariance-not-exact-pinv", "covariance matrix of a Jacobian with prescribed singular values "
                             f"{sv} is not the pseudo-inverse of J^T J (max deviation {float(np.abs(C - exact).max()):.3e}, allowed {tol:.3e})", light)
    with np.errstate(all="ignore"):
        errs = case["rmse"] * np.sqrt(np.diag(C)) if C.shape == (n, n) else np.full(n, np.nan)
    for l, v, nn, e, g in zip(labels, case["values"], case["non_negative"], errs, got_se):
        if C.shape != (n, n):
            break
        want = orc.nn_standard_error(v, e) if nn else float(e)
        if not orc.se_close(g, want, v if nn else None, float(e)):
            ck.violation("standard-error" + (":non-negative" if nn else ""), f"standard_error of {l!r} is {g!r}, expected {want!r} "
                         f"(rmse x sqrt(diag) = {float(e)!r}, value {v!r})", light)
        ck.count("direct:stderr:" + ("plain" if not nn else "log-branch" if float(e) < abs(float(np.log(v + 1e-10 if v == 1 else v))) else "abs-branch"))
    failed = (len(ck.violations) + len(ck.known_hits)) > before
    ck.case(("direct", json.dumps(case, sort_keys=True)), bool(np.any(J)))
    cap = [(a, s, vt, u) for a, s, vt, u in spy.calls if a.shape == J.shape and np.array_equal(a, J)]
    lines, idx = [], {"J": J, "C": C, "se": got_se, "labels": labels, "errs": [float(e) for e in errs]}
    if cap and C.shape == (n, n):
        _, s, vt, u = cap[-1]
        idx["svd"] = (s, vt, u)
        lines.append(f"cov {core.rats(s)} {mat(vt)} {J.shape[0]} {n}")
        idx["cov"] = 0
    elif not cap:
        ck.count("svd-not-captured")
        ck.diagnostic("no numpy.linalg.svd(jacobian, full_matrices=False) call observed", light)
    if np.all(np.isfinite(C)) and np.all(np.isfinite(errs)):
        lines.append("stderr {} {} {}".format(core.lst(ps_before), core.strs(labels), core.rats(errs)))
        idx["stderr"] = len(lines) - 1
    batch.append({"direct": case, "lines": lines, "idx": idx, "oracle_failed": failed, "te": te})


def judge_direct(ck, b, ans):
    idx, light = b["idx"], {"direct": b["direct"]}
    if any(a.startswith("bad") for a in ans):
        raise core.HarnessError(f"model rejected a protocol line: {[(l[:200], a) for l, a in zip(b['lines'], ans) if a.startswith('bad')][:2]}")
    bad = []
    J, C = idx["J"], idx["C"]
    n = J.shape[1]
    if "cov" in idx:
        s, vt, u = idx["svd"]
        svd_hypotheses(ck, J, s, vt, u, light)
        t = core.parse_tree(ans[idx["cov"]][4:])
        want = np.array([[float(Fraction(v)) for v in row] for row in t[0]], dtype=float).reshape(n, n)
        scale = max(float(np.abs(want).max()), float(np.abs(C).max()))
        kept = int(t[1])
        ck.count(f"direct:cov:kept={kept}/dropped={len(s) - kept}")
        if C.shape != want.shape or not np.all(np.abs(C - want) <= 1e-9 * scale):
            bad.append(f"covariance_matrix differs from the model fed with the captured SVD (singular values {[float(x) for x in s]})")
    if "stderr" in idx:
        a = ans[idx["stderr"]]
        if a.startswith("stderr "):
            for item in core.parse_tree(a[7:])[0]:
                label = core.dec(item[0])
                if label not in idx["labels"]:
                    continue
                want = b["te"].value(item[7]) if item[7] not in ("nan", "inf", "-inf") else float(item[7])
                got = idx["se"][idx["labels"].index(label)]
                k = idx["labels"].index(label)
                if not orc.se_close(got, want, b["direct"]["values"][k] if b["direct"]["non_negative"][k] else None, idx["errs"][k]):
                    bad.append(f"standard_error of {label!r}: implementation {got!r}, model {want!r}")
        elif a != "unmodelled":
            bad.append(f"model answered {a!r} to stderr")
    for what in bad[:3]:
        d = {"key": "model-vs-impl-direct", "what": what, "case": light}
        if b.get("oracle_failed"):
            d["explained"] = True
        ck.disagreements.append(d)


def flush_any(ck, batch):
    if not batch:
        return
    all_lines = []
    for b in batch:
        all_lines += b["lines"]
    answers = core.lean_driver(PROP, all_lines)
    pos = 0
    for b in batch:
        n = len(b["lines"])
        (judge_direct if "direct" in b else judge_clp if "clp" in b else judge)(ck, b, answers[pos:pos + n])
        pos += n
    batch.clear()


# ------------------------------------------------------------------------------------------------
# clp-count stream: number_of_clps on a fixed pair of partially overlapping datasets, every interval placement
# ------------------------------------------------------------------------------------------------
ENDPOINTS = [0.5, 1.0, 2.0, 2.5, 3.0, 4.5]
# tolerance stream: the second dataset's axis is (2.125, 2.875, 4); with tolerance 0.25 `nearest` merges 2.125 into 2 and 2.875
# into 3, `backward` only the first, `forward` only the second.  2.0625 lies between an aligned value and the own coordinate
# merged into it from above, 2.9375 between an own coordinate and the aligned value it is merged into from below: for every
# interval bound there are merged points on both sides of it.
ENDPOINTS_TOL = [0.5, 2.0, 2.0625, 2.125, 2.5, 2.875, 2.9375, 3.0, 4.5]
TOL_AXIS = [2.125, 2.875, 4.0]
TOL = 0.25


def clp_intervals(endpoints=ENDPOINTS, half=(1.0, 2.5, 4.5), pieces=((0.5, 1.0), (3.0, 4.5))):
    """None, every closed interval between two end points (also reversed and degenerate), half-infinite ones, one two-piece list"""
    out = [None]
    for a in endpoints:
        for b in endpoints:
            out.append([a, b])
    for a in half:
        out.append(["-inf", a])
        out.append([a, "inf"])
    out.append([list(p) for p in pieces])
    return out


def clp_base(linked, full, method=None):
    """two partially overlapping datasets; `method` given: the tolerance variant (second axis shifted, tolerance 0.25)"""
    ds = []
    for label, gax, mcs in (("d1", [1.0, 2.0, 3.0], [(["s1", "s2"], [[1, 0], [0, 1], [1, 1], [2, 1]]), (["s2", "s3"], [[1, 2], [0, 1], [1, 0], [1, 3]])]),
                            ("d2", [2.0, 3.0, 4.0] if method is None else list(TOL_AXIS), [(["s2", "s3", "s4"], [[1, 0, 1], [0, 1, 1], [1, 1, 0], [2, 0, 1]])])):
        ds.append({"label": label, "group": "default", "global_axis": gax, "model_axis": [0.0, 1.0, 2.0, 3.0], "dims_order": "mg",
                   "data": [[float((3 * i + 2 * j + len(label)) % 7) - 2.5 for j in range(3)] for i in range(4)], "weight": None, "scale": None,
                   "mcs": [{"labels": l, "index_dependent": False, "base": [[float(v) for v in r] for r in b], "pars": None, "scale": None} for l, b in mcs],
                   "gmcs": []})
    if full:
        ds[1]["gmcs"] = [{"labels": ["g1", "g2"], "index_dependent": False, "base": [[1.0, 0.0], [1.0, 1.0], [0.0, 2.0]], "pars": None, "scale": None}]
    return {"groups": {"default": {"link_clp": linked, "residual_function": "variable_projection"}},
            "clp_link_tolerance": 0.0 if method is None else TOL, "clp_link_method": method or "nearest", "parameters": {"p.1": 2.0},
            "datasets": ds, "constraints": [], "relations": [], "penalties": [], "weights": []}


def _items(ivs, coarse_c, coarse_r):
    for ctype, ctarget in (("zero", "s2"), ("only", "s3"), ("zero", "s1")):
        for civ in ivs:
            if ctype == "only" and civ is None:
                continue
            yield {"type": ctype, "target": ctarget, "interval": civ}, None
    for src, tgt in (("s1", "s2"), ("s3", "s4"), ("s4", "s1")):
        for riv in ivs:
            yield None, {"source": src, "target": tgt, "parameter": "p.1", "interval": riv}
    # both, on a coarser grid
    for civ in ivs[::coarse_c]:
        for riv in ivs[::coarse_r]:
            yield {"type": "zero", "target": "s3", "interval": civ}, {"source": "s1", "target": "s2", "parameter": "p.1", "interval": riv}
            if civ is not None:
                yield {"type": "only", "target": "s1", "interval": civ}, {"source": "s1", "target": "s3", "parameter": "p.1", "interval": riv}


def clp_space():
    """(linked, full, method, constraint, relation), tolerance 0 — ~ 1 500 cases"""
    ivs = clp_intervals()
    for linked in (True, False):
        for full in ((False,) if linked else (False, True)):
            for con, rel in _items(ivs, 5, 3):
                yield linked, full, None, con, rel


def clp_space_tol():
    """the same items on the tolerance variant: linked with each alignment method (different sets of merged points), and unlinked
    (items evaluated at the datasets' own coordinates) — ~ 2 600 cases"""
    ivs = clp_intervals(ENDPOINTS_TOL, half=(2.0625, 2.9375), pieces=((0.5, 2.0625), (2.9375, 4.5)))
    for linked, method in ((True, "nearest"), (True, "backward"), (True, "forward"), (False, "nearest")):
        for con, rel in _items(ivs, 7, 5):
            yield linked, False, method, con, rel


def clp_spec(linked, full, con, rel, method=None):
    spec = clp_base(linked, full, method)
    if con:
        spec["constraints"].append(con)
    if rel:
        spec["relations"].append(rel)
    return spec


class ColumnSpy:
    """records, per estimation provider, the number of columns of every matrix handed to the linear solver"""

    def __init__(self):
        self.cols = {}

    def __enter__(self):
        from glotaran.optimization import estimation_provider as ep
        self.ep = ep
        self.orig = ep.EstimationProvider.calculate_residual
        spy = self

        def calculate_residual(this, matrix, data):
            spy.cols.setdefault(id(this), []).append(int(np.asarray(matrix).shape[1]))
            return spy.orig(this, matrix, data)
        ep.EstimationProvider.calculate_residual = calculate_residual
        return self

    def __exit__(self, *a):
        self.ep.EstimationProvider.calculate_residual = self.orig


def clp_tags(spec):
    """which side of the items' interval bounds the merged points lie on (tolerance variant only)"""
    out = []
    if spec.get("clp_link_tolerance", 0.0) <= 0 or not gen_scheme.resolve_linked(spec, "default"):
        return out
    from harness.props import c02 as c02h
    axes = [d["global_axis"] for d in spec["datasets"]]
    aligned = c02h._align(axes, spec["clp_link_tolerance"], spec["clp_link_method"])
    if aligned is None:
        return ["align-error"]
    merged = [(x, v) for ax, al in zip(axes[1:], aligned[1:]) for x, v in zip(ax, al) if x != v]
    out.append(f"merged-points={len(merged)}")
    for item in (spec.get("constraints") or []) + (spec.get("relations") or []):
        iv = item.get("interval")
        if iv is None:
            continue
        for x, v in merged:
            a, b = c02h._applies(iv, x), c02h._applies(iv, v)
            out.append("merged:own-" + ("in" if a else "out") + "/aligned-" + ("in" if b else "out"))
    return out


def run_clp(ck, spec, batch):
    from glotaran.optimization.optimizer import Optimizer
    light = {"clp": spec}
    try:
        scheme, *_ = gen_scheme.build(spec)
        opt = Optimizer(scheme, verbose=False, raise_exception=True)
        labels, x0, _, _ = scheme.parameters.get_label_value_and_bounds_arrays(exclude_non_vary=True)
        opt._free_parameter_labels = labels
        with ColumnSpy() as spy:
            opt.objective_function(np.array(x0, dtype=float))
        got = [int(g.number_of_clps) for g in opt._optimization_groups]
        solved = [sum(spy.cols.get(id(g._estimation_provider), [])) for g in opt._optimization_groups]
    except Exception as e:
        ck.violation("number-of-clps-raises", f"number_of_clps raised {type(e).__name__}: {e}", light)
        return
    want = orc.expected_clps(spec)
    ck.oracle_evals += 1
    linked = gen_scheme.resolve_linked(spec, "default")
    tol = spec.get("clp_link_tolerance", 0.0) > 0
    ck.count(f"clp-count:{'linked' if linked else 'unlinked'}{':tol:' + spec['clp_link_method'] if tol else ''}={sum(got)}")
    for t in clp_tags(spec):
        ck.count("clp-count:tol:" + t)
    ck.case(("clp", json.dumps(spec, sort_keys=True)), True)
    failed = False
    kind = ("linked" if linked else "unlinked") + (":full-model" if any(d.get("gmcs") for d in spec["datasets"]) else "") \
        + (":items" if spec.get("constraints") or spec.get("relations") else "") + (":tolerance" if tol and linked else "")
    if want is not None and got != want:
        failed = True
        ck.violation("number-of-clps:" + kind,
                     f"number_of_clps={sum(got)} but {sum(want)} linear coefficients remain after constraints and relations", light)
    if got != solved:
        # independent of any alignment / interval arithmetic of the harness: the coefficients the linear solver was asked for
        failed = True
        ck.violation("number-of-clps-vs-solved-columns:" + kind,
                     f"number_of_clps per group {got} but the matrices handed to the linear solver have {solved} columns in total", light)
    batch.append({"clp": spec, "lines": gen_scheme.spec_lines(spec) + ["clps"], "got": got, "oracle_failed": failed})


def judge_clp(ck, b, ans):
    if any(a.startswith("bad") for a in ans):
        raise core.HarnessError(f"model rejected a protocol line: {[(l[:200], a) for l, a in zip(b['lines'], ans) if a.startswith('bad')][:2]}")
    a = ans[-1]
    per = [int(v) for v in core.parse_tree(a[5:])[0]] if a.startswith("clps ") else None
    if per != b["got"]:
        d = {"key": "model-vs-impl-clps", "what": f"number_of_clps per group: implementation {b['got']}, model {per if per is not None else a}",
             "case": {"clp": b["clp"]}}
        if b.get("oracle_failed"):
            d["explained"] = True
        ck.disagreements.append(d)


# ------------------------------------------------------------------------------------------------
# the witness of `residual_count_linked_counterexample` on the real code
# ------------------------------------------------------------------------------------------------
def counterexample_spec():
    """a linked group whose first dataset repeats a global coordinate: 2 x 2 data on the axis (1, 1)"""
    return {"groups": {"default": {"link_clp": True, "residual_function": "variable_projection"}}, "clp_link_tolerance": 0.0,
            "clp_link_method": "nearest", "parameters": {"p.1": 2.0},
            "datasets": [{"label": "a", "group": "default", "global_axis": [1.0, 1.0], "model_axis": [0.0, 1.0], "dims_order": "mg",
                          "data": [[1.0, 2.0], [2.0, 4.0]], "weight": None, "scale": None,
                          "mcs": [{"labels": ["c"], "index_dependent": False, "base": [[1.0], [1.0]], "pars": None, "scale": None}], "gmcs": []}],
            "constraints": [], "relations": [], "penalties": [], "weights": [], "max_nfev": 1, "stream": "counterexample"}


def replay_counterexample(ck):
    """The model stacks only the first of two columns with the same coordinate (2 residual entries for 4 data points — the Lean
    theorem); the hypothesis `first global axis without repeated value` of `residual_count_linked` is therefore necessary.
    The real code must not produce a Result with that count: it refuses the input (xarray cannot align a repeated coordinate)."""
    spec = counterexample_spec()
    ans = core.lean_driver(PROP, gen_scheme.spec_lines(spec) + ["parts"])
    model = ans[-1]
    if model != "parts [[2,[]]]":
        ck.disagreements.append({"key": "counterexample-model", "what": f"the driver answers {model!r} to the witness of "
                                 "residual_count_linked_counterexample (expected 2 residual entries, no penalty)", "case": {"spec": spec}})
    real = run_real(spec)
    ck.oracle_evals += 1
    if real["error"]:
        ck.count("counterexample:repeated-first-coordinate:real-code-refuses:" + real["error"].split(":")[0])
    else:
        res = real["result"]
        n = int(res.number_of_residuals)
        ck.count(f"counterexample:repeated-first-coordinate:real-code-result:N={n}")
        if n != 4:
            ck.violation("number-of-residuals:linked:repeated-first-coordinate",
                         f"number_of_residuals={n} for 4 data points (a linked group whose first dataset repeats a global coordinate)",
                         {"spec": spec})
    ck.extra["counterexample_replay"] = {"theorem": "residual_count_linked_counterexample", "model": model,
                                         "real": real["error"] or "result"}


# ------------------------------------------------------------------------------------------------
# edge cases the property quantifies over (deterministic): dof = 0, dof < 0, all parameters fixed, a parameter nothing
# depends on (zero column of the Jacobian), termination by max_nfev after a single evaluation
# ------------------------------------------------------------------------------------------------
def edge_spec(rng, n_model, n_global, free, extra_par=0, method="TrustRegionReflection", max_nfev=3, non_negative=(), labels=("s1",)):
    pars = {f"p.{i + 1}": 1.0 + 0.5 * i for i in range(max(1, free + extra_par))}
    col = lambda: [[float(rng.randint(-3, 5))] for _ in range(n_model)]
    mcs = [{"labels": list(labels), "index_dependent": False, "base": [[float(rng.randint(-3, 5)) for _ in labels] for _ in range(n_model)],
            "pars": None, "scale": None}]
    for k in range(free):
        mcs.append({"labels": [labels[0]], "index_dependent": False, "base": col(), "pars": [f"p.{k + 1}"], "scale": None})
    return {"groups": {"default": {"link_clp": False, "residual_function": "variable_projection"}}, "parameters": pars,
            "datasets": [{"label": "d1", "group": "default", "global_axis": [float(i) for i in range(n_global)],
                          "model_axis": [float(i) for i in range(n_model)], "dims_order": "mg",
                          "data": [[float(rng.randint(-4, 6)) + 0.5 for _ in range(n_global)] for _ in range(n_model)], "weight": None, "scale": None,
                          "mcs": mcs, "gmcs": []}],
            "constraints": [], "relations": [], "penalties": [], "weights": [], "optimization_method": method, "max_nfev": max_nfev,
            "vary": [f"p.{i + 1}" for i in range(free + extra_par)], "non_negative": list(non_negative), "add_svd": False, "stream": "edge"}


def edge_specs(rng):
    out = []
    for method in ("TrustRegionReflection", "Dogbox"):
        out.append(("dof-zero", edge_spec(rng, 2, 2, 2, method=method)))              # N = 4 = 2 free + 2 clps
        out.append(("dof-negative", edge_spec(rng, 2, 2, 3, method=method)))          # N = 4 < 3 free + 2 clps
    out.append(("dof-negative", edge_spec(rng, 2, 2, 3, method="Levenberg-Marquardt")))
    out.append(("dof-zero", edge_spec(rng, 3, 3, 3, labels=("s1", "s2"))))            # N = 9 = 3 free + 6 clps
    s = edge_spec(rng, 4, 3, 0)
    s["vary"] = []
    out.append(("all-fixed", s))
    for nn in ((), ("p.2",)):
        for method in ("TrustRegionReflection", "Levenberg-Marquardt"):
            out.append(("zero-jacobian-column", edge_spec(rng, 4, 3, 1, extra_par=1, non_negative=nn, method=method)))
    for method in METHODS_ALL:
        out.append(("max-nfev-1", edge_spec(rng, 5, 3, 1, max_nfev=1, method=method)))
    # a free parameter boxed tightly around its start value: the optimiser runs into a bound and ends on it (the parameter
    # is still a free parameter: a Jacobian column, a covariance row, one degree of freedom)
    for method in ("TrustRegionReflection", "Dogbox"):
        for free in (1, 2):
            s = edge_spec(rng, 5, 4, free, max_nfev=8, method=method)
            w = rng.choice([0.03125, 0.0625])
            s["bounds"] = {"p.1": [s["parameters"]["p.1"] - w, s["parameters"]["p.1"] + w]}
            out.append(("active-bound", s))
    return out


METHODS_ALL = ["TrustRegionReflection", "Dogbox", "Levenberg-Marquardt"]


def run_edges(ck, batch, te):
    for kind, spec in edge_specs(ck.rng):
        ck.count("stream:edge:" + kind)
        check_spec(ck, spec, batch, te)


# ------------------------------------------------------------------------------------------------
def term_eval():
    from harness.props import c11
    return c11.TermEval()


def run_case(ck, c, batch, te):
    if "direct" in c:
        run_direct(ck, c["direct"], batch, te)
    elif "clp" in c:
        run_clp(ck, c["clp"], batch)
    elif "spec" in c:
        check_spec(ck, c["spec"], batch, te)


def run(ck):
    gen_scheme.model_class()
    te = term_eval()
    batch = []
    for c in core.load_corpus(PROP):
        run_case(ck, c.get("case", c), batch, te)
        ck.count("stream:corpus")
    flush_any(ck, batch)
    n = ck.n(260, 3500)
    for i in range(n):
        spec = gen.rand_c13(ck.rng)
        check_spec(ck, spec, batch, te)
        ck.count("stream:" + spec["stream"])
        if i < 2:
            ck.sample({"spec": spec})
        if len(batch) >= 40:
            flush_any(ck, batch)
    flush_any(ck, batch)
    for i in range(ck.n(400, 5000)):
        case = direct_case(ck.rng)
        run_direct(ck, case, batch, te)
        ck.count("stream:direct")
        if i < 1:
            ck.sample({"direct": case})
        if len(batch) >= 200:
            flush_any(ck, batch)
    flush_any(ck, batch)
    space = list(clp_space())
    if ck.quick:
        space = ck.rng.sample(space, 160)
    else:
        ck.extra["clp_count_stream_exhaustive"] = f"all {len(space)} placements of one constraint and/or one relation interval enumerated"
    space_tol = list(clp_space_tol())
    if ck.quick:
        space_tol = ck.rng.sample(space_tol, 200)
    else:
        ck.extra["clp_count_tolerance_stream_exhaustive"] = (
            f"all {len(space_tol)} placements on the tolerance variant (3 alignment methods linked, 1 unlinked) enumerated")
    for i, (linked, full, method, con, rel) in enumerate(space + space_tol):
        run_clp(ck, clp_spec(linked, full, con, rel, method), batch)
        ck.count("stream:clp-count" + (":tolerance" if method else ""))
        if len(batch) >= 400:
            flush_any(ck, batch)
    flush_any(ck, batch)
    run_edges(ck, batch, te)
    flush_any(ck, batch)
    replay_counterexample(ck)
    ck.extra["term_eval_max_rel_error_vs_mpmath"] = te.max_rel


def search(ck):
    te = term_eval()
    batch = []
    for i in range(ck.n(250, 2500)):
        if i % 3 == 2:
            run_direct(ck, direct_case(ck.rng), batch, te)
        else:
            check_spec(ck, gen.rand_c13(ck.rng), batch, te)
        if len(batch) >= 40:
            flush_any(ck, batch)
        if ck.violations:
            break
    flush_any(ck, batch)


def replay(ck, case):
    gen_scheme.model_class()
    te = term_eval()
    cases = []
    if "case" in case:
        cases.append(case["case"])
    for d in case.get("disagreements", []):
        cases.append(d["case"])
    batch = []
    for c in cases:
        run_case(ck, c, batch, te)
    flush_any(ck, batch)
    for d in ck.disagreements:
        print("DISAGREEMENT", d["what"])
