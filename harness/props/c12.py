"""C12 — expression parameters always equal their expression.

Correspondence (Lean model vs real `glotaran.parameter.Parameters`) + oracle (the statement of the
property evaluated on the real object with plain Python `eval`, independent of the model).
"""
from __future__ import annotations

import ast
import contextlib
import hashlib
import io
import itertools
import json
import math
import re
import sys
import tempfile
import shutil
import time
from fractions import Fraction
from pathlib import Path

from harness import core
from harness.core import enc, strs, bool_
from harness.props import _c12_regex as RX
from harness.props import _c12_fns as FN

PROP = "C12"
if hasattr(sys, "set_int_max_str_digits"):
    sys.set_int_max_str_digits(0)      # exact rationals of the model can have thousands of digits (diverging cyclic definitions)
REQUIRED_THEOREMS = [
    "consistent_after_update", "update_idempotent", "update_preserves_non_expression_values",
    "update_preserves_structure", "consistent_after_construct", "consistent_after_copy",
    "consistent_after_setFromArrays", "setFromArrays_sets_free_values", "consistent_after_arrays",
    "fixpoint_of_quiet_pass", "update_of_consistent", "consistent_unique", "update_ignores_stale_expression_values",
    "ofList_labels_nodup", "acyclic_of_rank",
    # any dependency graph (cycles), raising expressions
    "update_terminates", "cyclic_not_consistent_counterexample", "failed_update_state",
    "failed_update_leaves_stale_counterexample",
    # the `$label` rewriting over the regenerated constants
    "source_regex_has_modelled_shape", "class_on_ascii_is_label_chars", "template_wellformed", "matchAt_is_maximal_munch",
    "tokenisation_exists_unique", "rewrite_spec", "rewrite_append", "rewrite_no_prefix_capture", "rewrite_valid_label",
    "rewrite_without_sigil", "labels_of_rewrite", "rewriteL_eq_substL", "subst_spec", "subst_no_prefix_capture",
    # the functions regenerated from the source (Generated/C12Fns.lean) equal the model
    "generated_update_eq_model", "generated_init_eq_model", "generated_set_transformed_expression_eq_model",
    "generated_copy_eq_model", "generated_copy_consistent", "empty_expression_text_counterexample",
    "generated_default_value_is_nan",
    # bounds / flags / short labels / exported values
    "expression_value_ignores_bounds", "short_label_irrelevant", "exported_values_settled",
]
TRUSTED = [
    "hand-written model lean/GlotaranModel/C12.lean; Parameters.update_parameter_expression (fixed: repeated passes), "
    "Parameters.__init__, Parameters.copy, Parameters.all, Parameter.copy, set_transformed_expression and the default of "
    "Parameter.value are tied by regeneration: harness/props/_c12_fns.py (ast -> Lean translator, trusted, with the meaning "
    "of the Python constructs it emits fixed in lean/GlotaranModel/C12Py.lean: reference into the dict = label, isinstance / "
    "!= / float on asteval results, ValueError, REGEX.sub with a literal template, attrs.evolve = re-validation, dict "
    "comprehension) rewrites them into lean/GlotaranModel/Generated/C12Fns.lean on every run and generated_*_eq_model prove "
    "them equal to the model for all inputs; from_list/from_dict/from_dataframe (dict construction, group default options), "
    "set_from_label_and_value_arrays, get_label_value_and_bounds_arrays, Parameter.set_value_from_optimization/_log_value, "
    "to_dataframe / to_parameter_dict_list / ParameterHistory.append are tied by differential execution only",
    "asteval (parsing and evaluation of the transformed expression) is not modelled: the harness parses the `$label` "
    "text with its own tokenizer (maximal run of [A-Za-z0-9_.]) + Python's ast and sends the intended AST to the model "
    "(tied by correspondence only; the harness' tokens are compared with the model's `labelsOf` and the real findall)",
    "the `$label` rewriting is modelled (lean/GlotaranModel/C12Regex.lean: matchAt with backtracking, scan = finditer, "
    "rewriteL = sub, labelsOf = findall); its constants (sigil, class members, re.ASCII, trailer, the text the replacement "
    "puts around the label, the non-ASCII \\w/\\d ranges of this interpreter's `re`) are regenerated from the source by "
    "harness/props/_c12_regex.py (extractor trusted: recognises the shape `sigil (class+) [((?!class+)|$)]` in "
    "re._parser's parse tree, anything else is reported as `unknown` and breaks source_regex_has_modelled_shape); the "
    "hand-written matching algorithm is tied to Python's `re` by enumeration (all strings over 9 symbols up to length "
    "4 quick / 6 thorough) and on every expression text of every generated case",
    "numpy's exp/log/sqrt/… are uninterpreted in the model (values supplied by the harness from numpy, cross-checked "
    "by the oracle against mpmath at 1e-10 relative)",
    "CPython float arithmetic = IEEE double = exact rational arithmetic whenever every intermediate result is "
    "representable (checked per case with fractions.Fraction)",
]
ASSUMPTIONS = [
    "parameter labels are unique inside a Parameters object (Python dict) — proved for the model's constructor",
    "the consistency theorems assume an acyclic expression dependency graph (the property does not speak about cyclic "
    "definitions); what the bounded loop does on any graph is update_terminates (k <= #expression-parameters passes in "
    "declaration order), cyclic_not_consistent_counterexample shows that the hypothesis is needed; both tied on every "
    "digraph with a cycle on <= 3 parameters",
    "the consistency theorems assume that no evaluation raises; a raising evaluation (division by a Python-float zero, "
    "unknown label/function) is modelled as an explicit error and the state it leaves is failed_update_state "
    "(compared after every error); numpy-scalar division by zero (inf) is not modelled and generated cases keep away "
    "from it (counted when met)",
    "labels_of_rewrite assumes that the expression text does not contain the quote character of the replacement",
    "generated_copy_eq_model assumes parameters as their constructor leaves them (transformed text in sync) and no empty "
    "expression text: expression='' is not None but falsy — the validator leaves vary/transformed text alone, asteval is "
    "called with None and construction raises ValueError (empty_expression_text_counterexample, replayed on the real code)",
]
RULE = (
    "a case = parameters in declaration order (label, initial value or NaN, `$label` expression text or none, vary, "
    "non_negative) + constructor (from_list, from_parameter_dict_list, from_dict, from_dataframe, "
    "load_parameters yml_str list/dict form) + a sequence of operations (set_from_label_and_value_arrays on the free "
    "parameters with numpy arrays/lists, update, copy, csv save/load, get_label_value_and_bounds_arrays, raw value "
    "assignment); after every operation all (label, value, vary) are compared with the Lean model (equality when every "
    "intermediate is an exactly representable dyadic, else 1e-9 relative) and the oracle re-evaluates every expression "
    "with Python eval on the current values and updates twice. DAG stream: every labelled DAG on <= 4 position-nodes "
    "(= every DAG in every declaration order; all 572, quick: one expression shape each, thorough: 3 shapes each) "
    "and seeded samples of DAGs on 5 and 6 nodes; labels from pools with nested labels and labels that are "
    "prefixes of one another; rendering varies spacing/parentheses so that `$label` is followed by `)`, operators, "
    "`,`, blanks and end of text. Non-trivial = at least one expression that references another parameter; distinct = "
    "distinct (parameters, constructor, operations). Rewriting stream: every string over the alphabet "
    "`$ a B 1 . _ ) +` and blank up to length 4 (quick; plus a seeded sample of lengths 5-7) / 6 (thorough), non-ASCII "
    "probes, and the expression text of every expression parameter of every case of the other streams (read from the "
    "real object: Parameter.transformed_expression): model rewrite/labels vs the real sub/findall, and, independent of "
    "the model, the quoted literals of the real transformed text vs the real findall. Cyclic stream: every digraph with "
    "a cycle (self-loops included) on <= 3 declaration positions, expressions from the same grammar, update / set / copy "
    "/ arrays; values compared with the model, wall time bounded. Failure stream: 2-5 expression parameters in random "
    "declaration order, one of them divides by an expression parameter that the operations drive to zero (Python float: "
    "really raises), the state left behind is compared after every error, then further sets/updates (D26). Bounds: 35% of "
    "the expression parameters of the DAG streams declare minimum/maximum from a pool most grammar values lie outside of "
    "(the value must be the expression value all the same). Group default options: 60% of the from_dict / yml dict cases put "
    "an options dict ({vary}, {min,max}, {max}, {vary,max}, {min}, {non-negative} in the numpy-function mode) into 60% of "
    "their groups, in front of or behind the parameters; the case holds the effective flags (own option, else group default), "
    "each parameter spells out only what differs from its group default; to_dataframe / to_parameter_dict_list (stored values "
    "and effective flags: bounds, non_negative, expression) and a ParameterHistory row are compared as further operations."
)

DYADICS = [-4.0, -3.0, -2.5, -2.0, -1.5, -1.0, -0.5, 0.5, 1.0, 1.5, 2.0, 2.5, 3.0, 4.0, 0.25, 0.75, 8.0]
LABEL_POOLS = [
    ["a", "b", "c", "d", "f", "g"],
    ["a", "ab", "abc", "a.b", "a.b.c", "a.bc"],
    ["rates.k.1", "rates.k.2", "rates.k.10", "rates.k.11", "rates.k", "rates.k.1.x"],
    ["k1", "k10", "k100", "k.1", "k.10", "k_1"],
    ["b.1", "b", "b.1.1", "b1", "B.1", "b_1"],
    ["irf.center", "irf.width", "irf.center.1", "scale.1", "scale.10", "s"],
    ["rates.k.1", "rates.k.2", "rates.k.3", "irf.c.1", "irf.c.2", "amp.x.1"],   # from_dict-compatible
]
BOUND_POOL = [(-0.25, 0.25), (None, 0.5), (0.0, None), (1.0, 1.5), (-8.0, -4.0), (0.5, 0.5)]
NUMPY_FUNCS1 = ["exp", "log", "sqrt", "sin", "cos"]
EXACT_FUNCS1 = ["abs"]
EXACT_FUNCS2 = ["min", "max"]


class Unsupported(Exception):
    pass


GEN: dict = {}


FNS_FILE = core.LEAN / "GlotaranModel" / "Generated" / "C12Fns.lean"


def generate(ck):
    """regenerate lean/GlotaranModel/Generated/C12.lean (constants of the `$label` rewriting) and
    lean/GlotaranModel/Generated/C12Fns.lean (function-level transcription of update_parameter_expression, __init__, copy,
    all, Parameter.copy, set_transformed_expression) from VERIF_REPO.  Source outside the translator's subset does not stop
    the check: the function is emitted as `Py.Untranslatable`, the `generated_*_eq_model` theorems about it stop compiling
    and the verdict logic takes over (failing-input search, else `no-failing-input-found`)."""
    tables, t = RX.generate(ck)
    GEN.clear()
    GEN.update(t)
    results, texts = FN.translate_all(core.REPO)
    text = FN.render(results)
    FNS_FILE.parent.mkdir(parents=True, exist_ok=True)
    if not FNS_FILE.exists() or FNS_FILE.read_text() != text:
        FNS_FILE.write_text(text)
    broken = {r.qual: r.reason for r in results if isinstance(r, FN.Broken)}
    if broken:
        ck.extra["untranslatable"] = broken
        for k, v in broken.items():
            print(f"[{PROP}] translator: {k} is outside the translated subset ({v}); its generated_*_eq_model theorem will not compile")
    tables.append({
        "table": "function-level transcription (lean/GlotaranModel/Generated/C12Fns.lean)",
        "source": FN.SOURCES,
        "source_sha1": FN.source_sha1(texts),
        "sha1": hashlib.sha1(text.encode()).hexdigest(),
        "functions": [r.qual for r in results if not isinstance(r, FN.Broken)],
        "untranslatable": broken,
    })
    return tables


def gen_table():
    if not GEN:
        GEN.update(RX.extract())
    return GEN


# ------------------------------------------------------------------------------------------
# expression text <-> AST (harness' own reading of the `$label` syntax)
# ------------------------------------------------------------------------------------------
DOLLAR = re.compile(r"\$([A-Za-z0-9_.]+)")


def tokenize(text):
    """-> (python source with placeholders, [labels])"""
    labels = []

    def sub(m):
        labels.append(m.group(1))
        return f"P__{len(labels) - 1}__"

    return DOLLAR.sub(sub, text), labels


def parse_expr(text):
    src, labels = tokenize(text)
    try:
        tree = ast.parse(src.strip(), mode="eval").body
    except SyntaxError as e:
        raise Unsupported(f"syntax: {e}")

    def conv(n):
        if isinstance(n, ast.Constant) and isinstance(n.value, (int, float)) and not isinstance(n.value, bool):
            return ("lit", n.value)
        if isinstance(n, ast.Name):
            m = re.fullmatch(r"P__(\d+)__", n.id)
            if not m:
                raise Unsupported(f"name {n.id}")
            return ("ref", labels[int(m.group(1))])
        if isinstance(n, ast.UnaryOp) and isinstance(n.op, ast.USub):
            return ("neg", conv(n.operand))
        if isinstance(n, ast.UnaryOp) and isinstance(n.op, ast.UAdd):
            return conv(n.operand)
        if isinstance(n, ast.BinOp):
            ops = {ast.Add: "add", ast.Sub: "sub", ast.Mult: "mul", ast.Div: "div"}
            if type(n.op) not in ops:
                raise Unsupported(type(n.op).__name__)
            return (ops[type(n.op)], conv(n.left), conv(n.right))
        if isinstance(n, ast.Call) and isinstance(n.func, ast.Name) and not n.keywords and len(n.args) in (1, 2):
            if len(n.args) == 1:
                return ("call1", n.func.id, conv(n.args[0]))
            return ("call2", n.func.id, conv(n.args[0]), conv(n.args[1]))
        raise Unsupported(type(n).__name__)

    return conv(tree)


def enc_expr(e):
    k = e[0]
    if k == "lit":
        return f"[lit,{core.rat(e[1])}]"
    if k == "ref":
        return f"[ref,{enc(e[1])}]"
    if k == "neg":
        return f"[neg,{enc_expr(e[1])}]"
    if k in ("add", "sub", "mul", "div"):
        return f"[{k},{enc_expr(e[1])},{enc_expr(e[2])}]"
    if k == "call1":
        return f"[call1,{enc(e[1])},{enc_expr(e[2])}]"
    if k == "call2":
        return f"[call2,{enc(e[1])},{enc_expr(e[2])},{enc_expr(e[3])}]"
    raise AssertionError(e)


def refs_of(e):
    if e[0] == "ref":
        return [e[1]]
    if e[0] == "lit":
        return []
    out = []
    for x in e[1:]:
        if isinstance(x, tuple):
            out += refs_of(x)
    return out


def has_numpy_call(e):
    if e[0] in ("call1", "call2") and e[1] not in EXACT_FUNCS1 + EXACT_FUNCS2:
        return True
    return any(isinstance(x, tuple) and has_numpy_call(x) for x in e[1:])


def has_call(e):
    return e[0] in ("call1", "call2") or any(isinstance(x, tuple) and has_call(x) for x in e[1:])


def render(e, rng, top=True):
    """text of an AST with random spacing / redundant parentheses"""
    k = e[0]
    if k == "lit":
        v = e[1]
        if isinstance(v, float) and v == int(v) and rng.random() < 0.5:
            s = rng.choice([str(int(v)), f"{int(v)}.", repr(v)])
        elif isinstance(v, float) and 0 < v < 1 and rng.random() < 0.3:
            s = repr(v)[1:]          # .5
        else:
            s = repr(v)
        return s
    if k == "ref":
        s = "$" + e[1]
        return f"({s})" if rng.random() < 0.25 else s
    if k == "neg":
        inner = render(e[1], rng, False)
        return f"-({inner})" if e[1][0] not in ("ref", "lit") or rng.random() < 0.5 else f"-{inner}"
    if k in ("add", "sub", "mul", "div"):
        sym = {"add": "+", "sub": "-", "mul": "*", "div": "/"}[k]
        a, b = render(e[1], rng, False), render(e[2], rng, False)
        if e[1][0] in ("add", "sub", "mul", "div", "neg"):
            a = f"({a})"
        if e[2][0] in ("add", "sub", "mul", "div", "neg"):
            b = f"({b})"
        sp = rng.choice(["", "", " "])
        sp2 = rng.choice(["", "", " "])
        s = f"{a}{sp}{sym}{sp2}{b}"
        return s if top and rng.random() < 0.7 else (f"({s})" if not top else s)
    if k == "call1":
        return f"{e[1]}({render(e[2], rng, True)})"
    if k == "call2":
        sp = rng.choice(["", " "])
        return f"{e[1]}({render(e[2], rng, True)},{sp}{render(e[3], rng, True)})"
    raise AssertionError(e)


def norm_ast(e):
    """literals as Fractions so that 2 and 2.0 compare equal"""
    if e[0] == "lit":
        return ("lit", Fraction(e[1]))
    return tuple(norm_ast(x) if isinstance(x, tuple) else x for x in e)


# ------------------------------------------------------------------------------------------
# exactness classification (harness-side; decides equality vs tolerance, never a verdict)
# ------------------------------------------------------------------------------------------
def representable(fr: Fraction) -> bool:
    try:
        return Fraction(float(fr)) == fr
    except OverflowError:
        return False


def exact_eval(e, env):
    """-> Fraction or None (NaN); raises Unsupported when an intermediate is not a double or on a call"""
    k = e[0]
    if k == "lit":
        return Fraction(e[1])
    if k == "ref":
        if e[1] not in env:
            raise Unsupported("unknown")
        return env[e[1]]
    if k == "neg":
        x = exact_eval(e[1], env)
        return None if x is None else -x
    if k in ("add", "sub", "mul", "div"):
        x, y = exact_eval(e[1], env), exact_eval(e[2], env)
        if k == "div" and y == 0:
            raise Unsupported("divzero")
        if x is None or y is None:
            return None
        r = {"add": x + y, "sub": x - y, "mul": x * y, "div": (x / y) if k == "div" else None}[k]
        if not representable(r):
            raise Unsupported("inexact")
        return r
    if k == "call1" and e[1] == "abs":
        x = exact_eval(e[2], env)
        return None if x is None else abs(x)
    if k == "call2" and e[1] in ("min", "max"):
        x, y = exact_eval(e[2], env), exact_eval(e[3], env)
        if x is None or y is None:
            raise Unsupported("nan-minmax")
        return min(x, y) if e[1] == "min" else max(x, y)
    raise Unsupported("call")


# ------------------------------------------------------------------------------------------
# the real code
# ------------------------------------------------------------------------------------------
def _opts(p, D=None):
    """the options a parameter has to spell out itself, given the default options `D` of its group (the case holds the
    *effective* flags of every parameter: own option, else group default, else the default of the class)"""
    D = D or {}
    o = {}
    if p.get("expr") is not None:
        o["expr"] = p["expr"]
    if bool(p.get("vary", True)) != bool(D.get("vary", True)):
        o["vary"] = bool(p.get("vary", True))
    if bool(p.get("nonneg", False)) != bool(D.get("non-negative", False)):
        o["non-negative"] = bool(p.get("nonneg", False))
    for k in ("min", "max"):
        if p.get(k) != D.get(k):
            if p.get(k) is None:
                raise core.HarnessError(f"case generator: group default {k} cannot be undone by {p['label']}")
            o[k] = p[k]
    return o


GROUP_DEFAULT_POOL = [{"vary": False}, {"vary": True}, {"min": -8.0, "max": 8.0}, {"max": 0.5}, {"vary": False, "max": 1.0},
                      {"min": 0.25}]
DEFAULT_KEY = {"vary": "vary", "non-negative": "nonneg", "min": "min", "max": "max"}


def group_of(label):
    return label.rsplit(".", 1)[0] if "." in label else None


def apply_group_defaults(rng, params, mode):
    """choose default options for some groups (labels up to the last dot) and make them the effective flags of every
    parameter of the group that does not set the option itself -> {group: options}"""
    groups = []
    for p in params:
        g = group_of(p["label"])
        if g is not None and g not in groups:
            groups.append(g)
    out = {}
    for g in groups:
        if rng.random() < 0.6:
            pool = GROUP_DEFAULT_POOL + ([{"non-negative": True}] if mode == "F" else [])
            D = dict(rng.choice(pool))
            out[g] = D
            for p in params:
                if group_of(p["label"]) != g:
                    continue
                for k, v in D.items():
                    if DEFAULT_KEY[k] not in p:
                        p[DEFAULT_KEY[k]] = v
                if p.get("nonneg") and p.get("expr") is None and p.get("value") is not None:
                    p["value"] = abs(p["value"])
    return out


def nested_dict(params, defaults=None, first=False):
    """from_dict input + the declaration order the nested dict produces; None when the labels do not fit.
    `defaults` = {group: default options}: the options dict is put into the group's list (in front when `first`)"""
    defaults = defaults or {}
    root: dict = {}
    for p in params:
        parts = p["label"].split(".")
        if len(parts) < 2:
            return None
        node = root
        for g in parts[:-2]:
            node = node.setdefault(g, {})
            if not isinstance(node, dict):
                return None
        leaf = node.setdefault(parts[-2], [])
        if not isinstance(leaf, list):
            return None
        item = [parts[-1]]
        if p.get("value") is not None:
            item.append(p["value"])
        o = _opts(p, defaults.get(group_of(p["label"])))
        if o:
            item.append(o)
        leaf.append(item)
    # a node must not be both a group with sub-groups (dict) and hold parameters (list): checked above
    order = []

    def walk(prefix, node):
        for k, v in node.items():
            if isinstance(v, dict):
                walk(prefix + [k], v)
            else:
                for item in v:
                    order.append(".".join(prefix + [k, item[0]]))
                D = defaults.get(".".join(prefix + [k]))
                if D:
                    if first:
                        v.insert(0, dict(D))
                    else:
                        v.append(dict(D))

    walk([], root)
    if len(set(order)) != len(params):
        return None
    return root, order


OP_TIME_LIMIT_S = 10


class OpTimeout(BaseException):
    """not an `Exception`: asteval swallows those while it evaluates"""


@contextlib.contextmanager
def time_limit(seconds):
    """a call of the real code that does not return (an unbounded loop on a cyclic definition) becomes an answer"""
    import signal

    def handler(signum, frame):
        raise OpTimeout()

    old = signal.signal(signal.SIGALRM, handler)
    signal.alarm(seconds)
    try:
        yield
    finally:
        signal.alarm(0)
        signal.signal(signal.SIGALRM, old)


class Real:
    """one Parameters object of the real code, driven op by op"""

    def __init__(self, case, tmp):
        self.case, self.tmp = case, tmp
        self.obj = None
        self.order = [p["label"] for p in case["params"]]

    # -- construction -------------------------------------------------------------------
    def construct(self):
        from glotaran.io import load_parameters
        from glotaran.parameter import Parameters

        ps, ctor = self.case["params"], self.case["ctor"]
        items = []
        for p in ps:
            it = [p["label"]]
            if p.get("value") is not None:
                it.append(p["value"])
            if _opts(p):
                it.append(_opts(p))
            items.append(it)
        if ctor == "from_list":
            self.obj = Parameters.from_list(items)
        elif ctor == "yml_str":
            self.obj = load_parameters(json.dumps(items), format_name="yml_str")
        elif ctor in ("from_dict", "yml_dict"):
            nd = nested_dict(ps, self.case.get("group_defaults"), bool(self.case.get("defaults_first")))
            if nd is None:
                raise Unsupported("labels do not fit a nested dict")
            root, self.order = nd
            if ctor == "from_dict":
                self.obj = Parameters.from_dict(root)
            else:
                self.obj = load_parameters(json.dumps(root), format_name="yml_str")
        elif ctor in ("dict_list", "dataframe"):
            dl = []
            bounded = ctor == "dataframe" and any(p.get("min") is not None or p.get("max") is not None for p in ps)
            for p in ps:
                d = {"label": p["label"]}
                if p.get("value") is not None:
                    d["value"] = p["value"]
                elif ctor == "dataframe":
                    d["value"] = float("nan")
                if p.get("expr") is not None:
                    d["expression"] = p["expr"]
                elif ctor == "dataframe":
                    d["expression"] = None
                d["vary"] = bool(p.get("vary", True))
                d["non_negative"] = bool(p.get("nonneg", False))
                if bounded or p.get("min") is not None:
                    d["minimum"] = float("-inf") if p.get("min") is None else p["min"]
                if bounded or p.get("max") is not None:
                    d["maximum"] = float("inf") if p.get("max") is None else p["max"]
                dl.append(d)
            if ctor == "dict_list":
                self.obj = Parameters.from_parameter_dict_list(dl)
            else:
                import pandas as pd

                self.obj = Parameters.from_dataframe(pd.DataFrame(dl))
        else:
            raise AssertionError(ctor)

    def flag_mismatch(self, rows):
        """exported flags vs the effective flags of the case -> text of the first difference or None"""
        want = {p["label"]: p for p in self.case["params"]}
        for r in rows:
            p = want.get(r["label"])
            if p is None:
                return f"unknown label {r['label']}"
            lo = float("-inf") if p.get("min") is None else float(p["min"])
            hi = float("inf") if p.get("max") is None else float(p["max"])
            if float(r["minimum"]) != lo or float(r["maximum"]) != hi:
                return f"bounds of {r['label']}: exported [{r['minimum']}, {r['maximum']}], declared [{lo}, {hi}]"
            if bool(r["non_negative"]) != bool(p.get("nonneg", False)):
                return f"non_negative of {r['label']}: exported {r['non_negative']}"
            if (r["expression"] if isinstance(r["expression"], str) else None) != p.get("expr"):
                return f"expression of {r['label']}: exported {r['expression']!r}"
        return None

    def state(self, obj=None):
        obj = self.obj if obj is None else obj
        return [(p.label, p.value, bool(p.vary)) for p in obj.all()]

    def apply(self, op):
        """-> canonical implementation answer: ('ok', state) | ('okarr', labels, values, state) | ('err', text)"""
        import numpy as np
        from glotaran.parameter.parameters import ParameterNotFoundException

        kind = op[0]
        buf = io.StringIO()
        try:
            with contextlib.redirect_stderr(buf), time_limit(OP_TIME_LIMIT_S):
                if kind == "new":
                    self.construct()
                    return ("ok", self.state())
                if kind == "set":
                    _, labels, values, how = op
                    vals = np.array(values, dtype=float) if how == "np" else [float(v) for v in values]
                    self.obj.set_from_label_and_value_arrays(list(labels), vals)
                    return ("ok", self.state())
                if kind == "update":
                    self.obj.update_parameter_expression()
                    return ("ok", self.state())
                if kind == "copy":
                    return ("ok", self.state(self.obj.copy()))
                if kind == "csv":
                    from glotaran.io import load_parameters, save_parameters

                    path = Path(self.tmp) / "p.csv"
                    save_parameters(self.obj, path, allow_overwrite=True)
                    return ("ok", self.state(load_parameters(path)))
                if kind == "arrays":
                    labels, values, _, _ = self.obj.get_label_value_and_bounds_arrays(exclude_non_vary=bool(op[1]))
                    return ("okarr", list(labels), [float(v) for v in values], self.state())
                if kind == "setraw":
                    self.obj.get(op[1]).value = float(op[2])
                    return ("ok", self.state())
                if kind in ("todf", "dictlist"):
                    # exports without an update: the stored values and the effective flags (own option / group default)
                    if kind == "todf":
                        rows = self.obj.to_dataframe().to_dict(orient="records")
                    else:
                        rows = self.obj.to_parameter_dict_list()
                    bad = self.flag_mismatch(rows)
                    if bad:
                        return ("err", "err flags " + enc(bad))
                    return ("ok", [(r["label"], float(r["value"]), bool(r["vary"])) for r in rows])
                if kind == "history":
                    from glotaran.parameter import ParameterHistory

                    h = ParameterHistory()
                    h.append(self.obj, 3)
                    row = h.get_parameters(0)
                    return ("okarr", list(h.parameter_labels[1:]), [float(v) for v in row[1:]], self.state())
                if kind == "show":
                    return ("ok", self.state())
        except OpTimeout:
            return ("err", "err timeout")
        except ParameterNotFoundException as e:
            m = re.search(r"Cannot find parameter (.*)$", str(e))
            return ("err", f"err notfound {enc(m.group(1) if m else '?')}")
        except ValueError as e:
            s = str(e)
            m = re.search(r"Expression '.*' of parameter '([^']*)' evaluates to non numeric value", s, re.S)
            if m:
                return ("err", f"err expr {enc(m.group(1))}")
            if s.startswith("Length of labels"):
                return ("err", "err length")
            return ("err", f"err other ValueError {enc(s[:80])}")
        raise AssertionError(op)


def model_line(case, op, real: Real):
    kind = op[0]
    if kind == "new":
        plist = case["params"]
        if case["ctor"] in ("from_dict", "yml_dict"):
            by_label = {p["label"]: p for p in plist}
            plist = [by_label[lab] for lab in real.order]
        items = []
        for p in plist:
            lab = p["label"]
            e = "none" if p.get("expr") is None else enc_expr(parse_expr(p["expr"]))
            v = "nan" if p.get("value") is None else core.rat(p["value"])
            items.append(f"[{enc(lab)},{v},{e},{bool_(p.get('vary', True))},{bool_(p.get('nonneg', False))}]")
        return "new " + core.lst(items)
    if kind == "set":
        return f"set {strs(op[1])} {core.lst(val_txt(v) for v in op[2])}"
    if kind in ("update", "copy", "show"):
        return kind
    if kind in ("todf", "dictlist"):
        return "show"          # to_dataframe / to_parameter_dict_list do not update: the stored state
    if kind == "history":
        return "arrays F"      # a history row is get_label_value_and_bounds_arrays() (which updates first)
    if kind == "csv":
        return "copy"
    if kind == "arrays":
        return f"arrays {bool_(op[1])}"
    if kind == "setraw":
        return f"setraw {enc(op[1])} {val_txt(op[2])}"
    raise AssertionError(op)


def val_txt(v):
    v = float(v)
    return "nan" if v != v else core.rat(v)


# ------------------------------------------------------------------------------------------
# oracle — the property statement on the real object, independent of the model
# ------------------------------------------------------------------------------------------
def _mp():
    import mpmath

    mpmath.mp.dps = 40
    return mpmath


def oracle_namespace():
    mp = _mp()

    def wrap(f):
        def g(x):
            x = float(x)
            if x != x:
                return float("nan")
            return float(f(mp.mpf(x)))
        return g

    def mplog(x):
        if x < 0:
            return mp.nan
        if x == 0:
            return mp.mpf("-inf")
        return mp.log(x)

    def mpsqrt(x):
        return mp.nan if x < 0 else mp.sqrt(x)

    return {"exp": wrap(mp.exp), "log": wrap(mplog), "sqrt": wrap(mpsqrt), "sin": wrap(mp.sin), "cos": wrap(mp.cos),
            "abs": lambda x: abs(float(x)), "min": min, "max": max, "__builtins__": {}}


_NS = None


def oracle_value(text, values):
    """plain Python eval of the expression text on the current values.
    -> ('val', float, tolerant) | ('undefined', why)"""
    global _NS
    if _NS is None:
        _NS = oracle_namespace()
    src, labels = tokenize(text)
    ns = dict(_NS)
    for i, lab in enumerate(labels):
        if lab not in values:
            return ("undefined", f"unknown label {lab!r}")
        ns[f"P__{i}__"] = float(values[lab])
    try:
        v = eval(compile(src.strip(), "<expr>", "eval"), ns)  # noqa: S307 - harness-generated text only
    except ZeroDivisionError:
        return ("undefined", "division by zero")
    except (SyntaxError, NameError, TypeError, ValueError, OverflowError) as e:
        return ("undefined", f"{type(e).__name__}")
    tolerant = bool(re.search(r"\b(exp|log|sqrt|sin|cos)\s*\(", src))
    return ("val", float(v), tolerant)


def same_float(a, b, tolerant=False):
    a, b = float(a), float(b)
    if a != a or b != b:
        return a != a and b != b
    if a == b:
        return True
    if tolerant and math.isfinite(a) and math.isfinite(b):
        return abs(a - b) <= 1e-10 * max(1.0, abs(a), abs(b))
    return False


def is_acyclic(exprs: dict):
    """exprs: label -> expression text (expression parameters only)"""
    deps = {l: [r for r in tokenize(t)[1] if r in exprs] for l, t in exprs.items()}
    state = {}

    def visit(l):
        if state.get(l) == 1:
            return False
        if state.get(l) == 2:
            return True
        state[l] = 1
        ok = all(visit(r) for r in deps[l])
        state[l] = 2
        return ok

    return all(visit(l) for l in exprs)


class Oracle:
    def __init__(self, ck, case):
        self.ck, self.case = ck, case
        self.free_expect = {}     # label -> value last assigned to a non-expression parameter

    def payload(self, done, detail):
        c = dict(self.case)
        c["ops"] = [list(o) for o in done]
        c["detail"] = detail
        return c

    def check(self, real: Real, obj, after: str, done, op=None, before=None):
        """`obj` is a Parameters object in the state the API call `after` left it"""
        ck = self.ck
        ck.oracle_evals += 1
        params = list(obj.all())
        values = {p.label: p.value for p in params}
        exprs = {p.label: p.expression for p in params if p.expression is not None}
        if any(isinstance(v, float) and math.isinf(v) for v in values.values()):
            ck.count("oracle:skip-inf")
            return
        if not is_acyclic(exprs):
            ck.count("oracle:skip-cyclic")
            return
        # (1) every expression parameter has the value of its expression on the current values
        for p in params:
            if p.expression is None:
                continue
            r = oracle_value(p.expression, values)
            if r[0] == "undefined":
                ck.count("oracle:undefined-" + r[1].split(" ")[0])
                continue
            if not same_float(p.value, r[1], r[2]):
                ck.violation(f"stale-after-{after}",
                             f"after {after}: parameter {p.label!r} = {p.value!r} but its expression {p.expression!r} "
                             f"evaluates to {r[1]!r} on the current values",
                             self.payload(done, {"label": p.label, "value": repr(p.value), "expression_value": repr(r[1]),
                                                 "values": {k: repr(v) for k, v in values.items()}}))
                return
        # (2) updating again changes nothing
        snap = [(p, p.value) for p in params]
        try:
            with contextlib.redirect_stderr(io.StringIO()):
                obj.update_parameter_expression()
            for p, old in snap:
                if not same_float(p.value, old):
                    ck.violation("update-not-idempotent",
                                 f"after {after}: a second update_parameter_expression() changes {p.label!r} from {old!r} "
                                 f"to {p.value!r}", self.payload(done, {"label": p.label}))
                    break
        except ValueError:
            ck.count("oracle:second-update-raised")
        finally:
            for p, old in snap:
                p.value = old
        # (3) values of non-expression parameters are what was last assigned / unchanged by the call
        if before is not None:
            for lab, old in before.items():
                if lab in exprs or lab not in values:
                    continue
                want = self.free_expect.get(lab, old)
                if not same_float(values[lab], want, True):
                    ck.violation(f"free-value-changed-by-{after}",
                                 f"{after} changed the non-expression parameter {lab!r}: {want!r} -> {values[lab]!r}",
                                 self.payload(done, {"label": lab}))
                    return


def expected_free_values(obj, labels, values):
    """what set_from_label_and_value_arrays must store (independent: mpmath exp for non-negative parameters)"""
    mp = _mp()
    out = {}
    for lab, v in zip(labels, values):
        if not obj.has(lab):
            return None
        p = obj.get(lab)
        if p.expression is not None:
            continue
        out[lab] = float(mp.exp(mp.mpf(float(v)))) if p.non_negative else float(v)
    return out


# ------------------------------------------------------------------------------------------
# running a case on the real code
# ------------------------------------------------------------------------------------------
def markdown_observations(obj):
    """for every expression parameter of the real object: (expression, [(label, replacement)], rendered expression) as
    Parameter.markdown(all_parameters=obj) shows it; the replacements are the real markdown of the referenced parameters"""
    out = []
    if not is_acyclic({p.label: p.expression for p in obj.all() if p.expression is not None}):
        return out        # Parameter.markdown recurses through the references: RecursionError on a cycle (outside the property)
    for p in obj.all():
        if p.expression is None or p.vary:
            continue
        try:
            md = str(p.markdown(all_parameters=obj))
            head = f"{p.label}({p.value:.2e}="
            if not (md.startswith(head) and md.endswith(")")):
                out.append((p.expression, [], None, f"unexpected form {md[:80]!r}"))
                continue
            table = []
            for lab in dict.fromkeys(RX.real_findall(p.expression)):
                if obj.has(lab):
                    table.append((lab, "_" + str(obj.get(lab).markdown(all_parameters=obj)) + "_"))
            out.append((p.expression, table, md[len(head):-1], None))
        except Exception as e:  # noqa: BLE001 - reported as an observation, compared with the model
            out.append((p.expression, [], None, f"{type(e).__name__}: {str(e)[:80]}"))
    return out


def run_real(ck, case, with_oracle=True, collect=None, collect_md=None):
    """-> (model lines, impl answers, ops per line) ; the oracle reports through ck.
    `collect`: list that receives (expression, transformed_expression) of every expression parameter of the real object;
    `collect_md`: list that receives the markdown observations"""
    tmp = tempfile.mkdtemp(prefix="c12-")
    try:
        real = Real(case, tmp)
        orc = Oracle(ck, case) if with_oracle else None
        lines, impl, done = [], [], []
        if TIMEOUTS["n"] >= 3:
            raise Unsupported("given up after 3 calls that did not return")
        try:
            ans = real.apply(("new",))
        except Unsupported:
            return [], [], []
        if ans == ("err", "err timeout"):
            TIMEOUTS["n"] += 1
        lines.append(model_line(case, ("new",), real))
        impl.append(ans)
        if ans[0] == "err":
            if orc:
                expect_no_error(ck, case, orc, ans, [])
            return lines, impl, [("new",)]
        if collect is not None:
            collect += [(p.expression, p.transformed_expression) for p in real.obj.all() if p.expression is not None]
        if collect_md is not None:
            collect_md += markdown_observations(real.obj)
        after = {"from_list": "construct", "dict_list": "construct", "from_dict": "construct",
                 "dataframe": "construct", "yml_str": "load-yml", "yml_dict": "load-yml"}[case["ctor"]]
        if orc:
            orc.check(real, real.obj, after, [])
        dirty = False      # a raw assignment / a failed call since the last updating call on the object itself
        for op in case.get("ops", []):
            op = tuple(op)
            before = {p.label: p.value for p in real.obj.all()}
            if orc and op[0] == "set" and len(op[1]) == len(op[2]):
                exp = expected_free_values(real.obj, op[1], op[2])
                if exp is not None:
                    orc.free_expect = exp
                else:
                    orc.free_expect = {}
            elif orc:
                orc.free_expect = {}
            ans = real.apply(op)
            done.append(op)
            lines.append(model_line(case, op, real))
            impl.append(ans)
            if ans == ("err", "err timeout"):
                TIMEOUTS["n"] += 1
                break
            if orc and ans[0] != "err":
                if op[0] in ("copy", "csv"):
                    # the copy / the re-loaded object must be consistent; build it again for the oracle
                    with contextlib.redirect_stderr(io.StringIO()):
                        if op[0] == "copy":
                            other = real.obj.copy()
                        else:
                            from glotaran.io import load_parameters
                            other = load_parameters(Path(tmp) / "p.csv")
                    orc.check(real, other, "copy" if op[0] == "copy" else "csv-roundtrip", done)
                elif op[0] == "setraw":
                    pass      # a raw assignment is not an update: nothing is promised until the next API call
                elif op[0] in ("todf", "dictlist") and dirty:
                    pass      # exports that do not update show the stored values: settled only after an updating call
                else:
                    name = {"set": "set", "update": "update", "arrays": "get-arrays", "show": "show", "todf": "show",
                            "dictlist": "show", "history": "get-arrays"}[op[0]]
                    orc.check(real, real.obj, name, done, op, before if op[0] != "setraw" else None)
            if op[0] == "setraw" or ans[0] == "err":
                dirty = True
            elif op[0] in ("set", "update", "arrays", "history"):
                dirty = False
            # the object itself after the call (copy / csv must not touch it; errors leave a state behind)
            if op[0] in ("copy", "csv") or ans[0] == "err":
                lines.append("show")
                impl.append(real.apply(("show",)))
        return lines, impl, done
    finally:
        shutil.rmtree(tmp, ignore_errors=True)


def expect_no_error(ck, case, orc, ans, done):
    """construction raised: a violation when every expression is well-defined on an acyclic graph"""
    ps = case["params"]
    exprs = {p["label"]: p["expr"] for p in ps if p.get("expr") is not None}
    if not exprs or not is_acyclic(exprs) or not ans[1].startswith("err expr"):
        return
    # solve the acyclic system independently: repeated substitution in dependency order
    values = {p["label"]: (float("nan") if p.get("value") is None else float(p["value"])) for p in ps}
    for _ in range(len(exprs) + 1):
        for lab, text in exprs.items():
            r = oracle_value(text, values)
            if r[0] == "undefined":
                return
            values[lab] = r[1]
    if any(math.isinf(v) for v in values.values()):
        return
    ck.violation("valid-expression-rejected", f"construction raised {ans[1]!r} although every expression is defined",
                 orc.payload(done, {"answer": ans[1]}))


# ------------------------------------------------------------------------------------------
# comparison with the model
# ------------------------------------------------------------------------------------------
def parse_model_state(tree):
    out = []
    for item in tree:
        lab, v, vary = item
        out.append((core.dec(lab), None if v == "nan" else Fraction(v), vary == "T"))
    return out


def value_matches(impl_v, model_v, exact):
    impl_v = float(impl_v)
    if model_v is None or impl_v != impl_v:
        return model_v is None and impl_v != impl_v
    if math.isinf(impl_v):
        return False
    fi = Fraction(impl_v)
    if fi == model_v:
        return True
    if exact:
        return False
    return abs(fi - model_v) <= Fraction(1, 10**9) * max(1, abs(model_v))


def case_exact(case, model_state):
    """True when every expression evaluates, on the model's values, through representable intermediates only"""
    env = {l: v for l, v, _ in model_state}
    if any(p.get("nonneg") for p in case["params"]):
        return False
    try:
        for p in case["params"]:
            if p.get("expr") is not None:
                exact_eval(parse_expr(p["expr"]), env)
    except Unsupported:
        return False
    return True


def _coarse_dyadic_case(case) -> bool:
    """every number the case puts in (parameter values, values of set operations) is a dyadic rational with at most 12
    fractional bits and magnitude below 2^12 — a few products and sums of such numbers stay exactly representable"""
    def ok(v):
        try:
            f = Fraction(float(v))
        except (TypeError, ValueError, OverflowError):
            return True
        return f.denominator <= 4096 and abs(f) <= 4096 and f.denominator & (f.denominator - 1) == 0
    for p in case.get("params", []):
        if p.get("value") is not None and not ok(p["value"]):
            return False
    for op in case.get("ops", []):
        if op and op[0] == "set" and len(op) > 2:
            if not all(ok(v) for v in op[2]):
                return False
    return True


REGIME = {"exact": 0, "tolerance": 0}
WALL = {"max_case_s": 0.0}
TIMEOUTS = {"n": 0}


def compare_answer(case, impl, model, sticky):
    """-> None when they agree, else a description.  `sticky` is a one-element list: once an observation of the
    case left the exact regime (a stored value may stem from it), all later ones are compared with the tolerance"""
    toks = core.parse_tree(model)
    if impl[0] == "err":
        want = impl[1].split(" ")
        got = model.split(" ")
        if got[: len(want)] == want and got[0] == "err":
            return None
        return f"implementation {impl[1]!r}, model {model!r}"
    if not toks or toks[0] != "ok":
        return f"implementation ok {short_state(impl[-1])}, model {model!r}"
    if impl[0] == "okarr":
        if len(toks) != 4:
            return f"model answer malformed {model!r}"
        mlabels = [core.dec(x) for x in toks[1]]
        mvals = [None if v == "nan" else Fraction(v) for v in toks[2]]
        mstate = parse_model_state(toks[3])
        exact = case_exact(case, mstate) and not sticky[0]
        sticky[0] = not exact
        REGIME["exact" if exact else "tolerance"] += 1
        if mlabels != impl[1]:
            return f"array labels: implementation {impl[1]}, model {mlabels}"
        for l, a, b in zip(mlabels, impl[2], mvals):
            if not value_matches(a, b, exact):
                return f"array value of {l!r}: implementation {a!r}, model {b}"
        state = impl[3]
    else:
        if len(toks) != 2:
            return f"model answer malformed {model!r}"
        mstate = parse_model_state(toks[1])
        exact = case_exact(case, mstate) and not sticky[0]
        sticky[0] = not exact
        REGIME["exact" if exact else "tolerance"] += 1
        state = impl[1]
    if [s[0] for s in state] != [s[0] for s in mstate]:
        return f"labels/order: implementation {[s[0] for s in state]}, model {[s[0] for s in mstate]}"
    for (l, v, vary), (_, mv, mvary) in zip(state, mstate):
        if vary != mvary:
            return f"vary of {l!r}: implementation {vary}, model {mvary}"
        if not value_matches(v, mv, exact):
            return f"value of {l!r}: implementation {v!r}, model {mv} ({'exact' if exact else 'tolerance'} regime)"
    return None


def short_state(state):
    return [(l, v) for l, v, _ in state]


def impl_has_inf(impl):
    for a in impl:
        if a[0] == "err":
            continue
        for l, v, _ in a[-1]:
            if isinstance(v, float) and math.isinf(v):
                return True
    return False


def table_value(f, args):
    """numpy's value of a function the model does not interpret; None when it cannot be sent (inf)"""
    import numpy as np

    xs = [np.float64("nan") if a == "nan" else np.float64(float(Fraction(a))) for a in args]
    with np.errstate(all="ignore"):
        v = float(getattr(np, f)(*xs))
    if math.isinf(v):
        return None
    return "nan" if v != v else core.rat(v)


def run_model(lines, owner, table):
    """model answers for `lines` (owner[i] = case index of line i); function values the model asks for are supplied
    from numpy and the cases concerned are run again (a call's argument may depend on an earlier call's value)"""
    out = [None] * len(lines)
    todo = list(range(len(lines)))
    for _ in range(80):
        pre = [f"fun {enc(f)} {core.lst(args)} {v}" for (f, args), v in table.items() if v is not None]
        res = core.lean_driver(PROP, pre + [lines[i] for i in todo])[len(pre):]
        again = set()
        known = set(table)
        for i, o in zip(todo, res):
            out[i] = o
            m = re.search(r"(?:call|fn) (\S+) (\[[^\]]*\])$", o)
            if not m or not o.startswith("err"):
                continue
            f = core.dec(m.group(1))
            args = tuple(core.parse_tree(m.group(2))[0])
            if f in NUMPY_FUNCS1 and (f, args) not in known:
                if (f, args) not in table:
                    table[(f, args)] = table_value(f, args)
                again.add(owner[i])
        if not again:
            return out
        todo = [i for i in range(len(lines)) if owner[i] in again]
    raise core.HarnessError("function table negotiation did not converge")


def _mirror_eval(e, env):
    """magnitude mirror of the model's evaluator in double arithmetic (work bound only, never a verdict)"""
    k = e[0]
    if k == "lit":
        return float(e[1])
    if k == "ref":
        return env.get(e[1], float("nan"))
    if k == "neg":
        return -_mirror_eval(e[1], env)
    if k in ("add", "sub", "mul", "div"):
        x, y = _mirror_eval(e[1], env), _mirror_eval(e[2], env)
        if k == "div":
            return x / y if y != 0 else float("inf")
        return {"add": x + y, "sub": x - y, "mul": x * y}[k]
    if k == "call1":
        return abs(_mirror_eval(e[2], env))
    if k == "call2":
        x, y = _mirror_eval(e[2], env), _mirror_eval(e[3], env)
        return max(abs(x), abs(y)) if x == x and y == y else float("nan")
    return float("nan")


MIRROR_LIMIT = 2.0 ** 400


def model_would_explode(case, ops):
    """would the exact rationals of the model outgrow 2^±400 on this case (a diverging cyclic definition)?  The model
    performs its passes whatever the implementation does, and a squaring cycle doubles the number of digits per pass; the
    implementation usually overflows to inf first (such cases are skipped anyway) — but not when a change of the code
    makes it do fewer passes.  Mirror of the model's schedule (passes in declaration order repeated while something
    changes, at most one per expression parameter) in doubles, used only to bound the work of the driver."""
    try:
        params = case["params"]
        env = {p["label"]: (float("nan") if p.get("value") is None else float(p["value"])) for p in params}
        exprs = [(p["label"], parse_expr(p["expr"])) for p in params if p.get("expr") is not None]

        def update():
            for _ in exprs:
                changed = False
                for lab, e in exprs:
                    v = _mirror_eval(e, env)
                    if v != env[lab]:
                        changed = True
                    env[lab] = v
                    if v == v and (abs(v) > MIRROR_LIMIT or (v != 0 and abs(v) < 1 / MIRROR_LIMIT)):
                        return True
                if not changed:
                    break
            return False

        if update():
            return True
        nonneg = {p["label"] for p in params if p.get("nonneg")}
        for op in ops:
            if op[0] == "set" and len(op[1]) == len(op[2]):
                for lab, v in zip(op[1], op[2]):
                    if lab in env:
                        env[lab] = math.exp(float(v)) if lab in nonneg else float(v)
            elif op[0] == "setraw":
                env[op[1]] = float(op[2])
                continue
            elif op[0] in ("copy", "csv", "show", "todf", "dictlist"):
                continue
            if update():
                return True
        return False
    except (Unsupported, OverflowError, KeyError, ValueError, ZeroDivisionError):
        return False


def compare(ck, cases, tag, diagnostic_only=False, exact_only=False):
    all_lines, all_impl, owner, table = [], [], [], {}
    seen_texts, seen_md = [], []
    for ci, case in enumerate(cases):
        try:
            t0 = time.time()
            lines, impl, done = run_real(ck, case, collect=seen_texts, collect_md=seen_md if tag in MD_STREAMS else None)
            WALL["max_case_s"] = max(WALL["max_case_s"], time.time() - t0)
        except Unsupported as e:
            ck.count(f"skipped:{e}")
            continue
        if not lines:
            ck.count("skipped:ctor-unsuitable")
            continue
        exprs = [p["expr"] for p in case["params"] if p.get("expr") is not None]
        nontrivial = any(tokenize(t)[1] for t in exprs)
        ck.case(("case", json.dumps(case, sort_keys=True)), nontrivial)
        ck.count(f"stream:{tag}")
        ck.count(f"ctor:{case['ctor']}")
        ck.count(f"n_params:{len(case['params'])}")
        ck.count(f"n_expr:{len(exprs)}")
        nb = sum(1 for p in case["params"] if p.get("expr") is not None and (p.get("min") is not None or p.get("max") is not None))
        if nb:
            ck.count("expr-with-bounds", nb)
        if case.get("group_defaults"):
            ck.count("cases-with-group-defaults")
            for D in case["group_defaults"].values():
                ck.count("group-default:" + ",".join(sorted(D)))
        for op in done:
            ck.count(f"op:{op[0]}")
        for a in impl:
            ck.count("answer:" + (a[0] if a[0] != "err" else " ".join(a[1].split(" ")[:2])))
        if any(a[0] == "err" and a[1].startswith("err expr") for a in impl[1:]):
            ck.count(f"raised-after-construction:{tag}")
        if impl and impl[0][0] == "err":
            ck.count(f"raised-in-construction:{tag}")
        if impl_has_inf(impl):
            ck.count("skipped:numpy-inf-unmodelled")
            continue
        if exact_only and model_would_explode(case, done):
            ck.count(f"skipped:{tag}-model-digits-explode")
            continue
        all_lines += lines
        all_impl += impl
        owner += [ci] * len(lines)
    if seen_texts:
        uniq = list(dict(seen_texts).items())
        compare_rewrites(ck, [t for t, _ in uniq], f"{tag}-expressions", reals=[r for _, r in uniq], parse=True)
    if seen_md:
        compare_markdown(ck, seen_md, tag)
    if not all_lines:
        return 0
    model = run_model(all_lines, owner, table)
    bad = {}
    sticky = {}
    unmodelled = set()
    for i, b in enumerate(model):
        # an intermediate pass produced +-inf (e.g. log(0) on a stale value): the model has no infinities
        m = re.search(r"(?:call|fn) (\S+) (\[[^\]]*\])$", b) if b.startswith("err") else None
        if m and table.get((core.dec(m.group(1)), tuple(core.parse_tree(m.group(2))[0])), 0) is None:
            unmodelled.add(owner[i])
    for ci in unmodelled:
        ck.count("skipped:transient-inf-unmodelled")
    inexact = set()
    for i, (a, b) in enumerate(zip(all_impl, model)):
        if owner[i] in bad or owner[i] in unmodelled or owner[i] in inexact:
            continue
        st = sticky.setdefault(owner[i], [False])
        if exact_only and not _coarse_dyadic_case(cases[owner[i]]):
            # case_exact looks at the expressions on the FINAL values only; an iteration that does not settle (cyclic
            # definition) also passes through the values of earlier passes, and with finite-difference sized inputs
            # (27 significant bits) their products need 54 bits: the floats round where the model does not, and the
            # parity of a 2-cycle can differ. Such cases are outside what the exact comparison can judge.
            inexact.add(owner[i])
            ck.count(f"skipped:{tag}-fine-grained-values")
            continue
        why = compare_answer(cases[owner[i]], a, b, st)
        if exact_only and st[0] and a[0] != "err":
            # a diverging iteration (cyclic definition) amplifies rounding errors and overflows: only observations whose
            # intermediates are all exactly representable are compared
            inexact.add(owner[i])
            ck.count(f"skipped:{tag}-left-exact-regime")
            continue
        if why:
            bad[owner[i]] = (all_lines[i], why)
    for ci, (line, why) in bad.items():
        payload = dict(cases[ci])
        payload["detail"] = {"line": line[:300], "why": why}
        if diagnostic_only:
            ck.diagnostic(f"[{tag}] {why}", payload)
        else:
            ck.disagree("model-vs-impl", f"[{tag}] after {line[:120]!r}: {why}", payload)
    return len(bad)



# ------------------------------------------------------------------------------------------
# the `$label` rewriting: model (Lean `scan`) vs the real regex / set_transformed_expression
# ------------------------------------------------------------------------------------------
RW_ALPHABET = ["$", "a", "B", "1", ".", "_", ")", "+", " "]
RW_REPORTS = {"n": 0}


def lookups_by_ast(transformed):
    """labels a transformed expression looks up, read with Python's parser: the string arguments of `parameters.get(…)`
    in source order; None when the text is not an expression"""
    try:
        tree = ast.parse(transformed.strip(), mode="eval")
    except (SyntaxError, ValueError):
        return None
    found = []
    for n in ast.walk(tree):
        if (isinstance(n, ast.Call) and isinstance(n.func, ast.Attribute) and n.func.attr == "get"
                and isinstance(n.func.value, ast.Name) and n.func.value.id == "parameters" and len(n.args) == 1
                and isinstance(n.args[0], ast.Constant) and isinstance(n.args[0].value, str)):
            found.append((n.lineno, n.col_offset, n.args[0].value))
    return [x[2] for x in sorted(found)]


def compare_rewrites(ck, texts, tag, reals=None, parse=False, register=True):
    """model `scan` (rewrite, labels, quoted literals of the rewritten text) against the real code on `texts`.
    `reals[i]` = transformed_expression observed on a real Parameter (else obtained through set_transformed_expression).
    Independent of the model (oracle form of labels_of_rewrite): the quoted literals of the *real* transformed text are
    the labels the *real* findall returns."""
    if not texts:
        return 0
    t = gen_table()
    quote = (t["prefix"] or "'")[-1]
    B = 400
    lines = ["scan " + strs(texts[i:i + B]) for i in range(0, len(texts), B)]
    answers = core.lean_driver(PROP, lines)
    bad = 0

    def report(key, what, payload):
        nonlocal bad
        bad += 1
        RW_REPORTS["n"] += 1
        if RW_REPORTS["n"] <= 8:
            ck.disagree(key, f"[{tag}] {what}", payload)
        else:
            ck.count("rewrite:further-disagreements")

    k = 0
    for i, ans in enumerate(answers):
        chunk = texts[i * B:(i + 1) * B]
        tree = core.parse_tree(ans)
        items = tree[0] if tree else None
        if not isinstance(items, list) or len(items) != len(chunk):
            raise core.HarnessError(f"scan answer malformed: {ans[:200]!r}")
        for text, item in zip(chunk, items):
            m_rw = core.dec(item[0])
            m_labels = [core.dec(x) for x in item[1]]
            m_quoted = [core.dec(x) for x in item[2]]
            real = reals[k] if reals is not None else RX.real_transform_fast(text)
            k += 1
            if real is None and text == "":
                ck.count("rewrite:empty-expression-not-transformed")
                continue
            r_labels = RX.real_findall(text)
            ck.count(f"rewrite:{tag}")
            ck.count(f"rewrite-tokens:{min(len(r_labels), 3)}")
            if register:
                ck.case(("rewrite", text), bool(r_labels))
            payload = {"kind": "rewrite", "text": text, "implementation": real, "model": m_rw,
                       "implementation_findall": r_labels, "model_labels": m_labels}
            if real != m_rw:
                report("rewrite-vs-impl", f"transformed expression of {text!r}: implementation {real!r}, model {m_rw!r}", payload)
                continue
            if r_labels != m_labels:
                report("findall-vs-impl", f"labels found in {text!r}: implementation {r_labels}, model {m_labels}", payload)
                continue
            if quote not in text:
                ck.oracle_evals += 1
                r_look = RX.lookups_in(real, quote)
                if r_look != r_labels:
                    report("lookups-vs-findall", f"{text!r} is transformed to {real!r}, which looks up {r_look}, but the pattern "
                           f"finds {r_labels}", payload)
                    continue
                if m_quoted != r_look:
                    report("quoted-vs-impl", f"quoted literals of the transformed {text!r}: implementation {r_look}, model "
                           f"{m_quoted}", payload)
                    continue
            if text.isascii():
                mine = tokenize(text)[1]
                if mine != r_labels:
                    ck.diagnostic(f"[{tag}] the harness tokenizer reads {mine} in {text!r}, the real pattern {r_labels}", payload)
            if parse:
                got = lookups_by_ast(real)
                if got is not None and quote not in text and got != r_labels:
                    report("ast-lookups-vs-findall", f"Python's parser finds the lookups {got} in {real!r}; the pattern finds "
                           f"{r_labels} in {text!r}", payload)
    return bad


MD_STREAMS = {"corpus", "regex", "chains", "dag", "markdown", "replay"}


def compare_markdown(ck, observations, tag):
    """Parameter.markdown(all_parameters=…) renders the expression by substituting every `$label` with the markdown of the
    referenced parameter: the substitution step against the model's `substL` (replacements taken from the real code)"""
    todo, seen = [], set()
    for text, table, rendered, problem in observations:
        key = (text, tuple(table), rendered, problem)
        if key in seen:
            continue
        seen.add(key)
        if problem is not None:
            ck.disagree("markdown-raised", f"[{tag}] Parameter.markdown of the expression {text!r}: {problem}",
                        {"kind": "markdown", "text": text})
            continue
        if any(not RX_has(text, lab) for lab, _ in table):
            continue
        todo.append((text, table, rendered))
    if not todo:
        return
    lines = [f"subst {enc(t)} " + core.lst(f"[{enc(l)},{enc(r)}]" for l, r in tab) for t, tab, _ in todo]
    n_bad = 0
    for (text, table, rendered), ans in zip(todo, core.lean_driver(PROP, lines)):
        ck.count("markdown:compared")
        if len({l for l, _ in table}) > 1 and any(a != b and b.startswith(a) for a, _ in table for b, _ in table):
            ck.count("markdown:prefix-labels")
        got = core.dec(ans[3:]) if ans.startswith("ok ") else ans
        if got != rendered:
            n_bad += 1
            if n_bad <= 3:
                ck.disagree("markdown-vs-impl", f"[{tag}] Parameter.markdown renders the expression {text!r} as {rendered!r}; "
                            f"substituting the referenced parameters match by match gives {got!r}",
                            {"kind": "markdown", "text": text, "table": [list(x) for x in table], "implementation": rendered,
                             "model": got})


def RX_has(text, label):
    return label in RX.real_findall(text)


def enumerated_texts(maxlen):
    for n in range(maxlen + 1):
        for tup in itertools.product(RW_ALPHABET, repeat=n):
            yield "".join(tup)


NONASCII_PROBES = ["é", "µ", "ª", "²", "٣", "߂", "Ω", "я", "中", "ｱ", "𝑎", "𝟙", "€", "·", "‿", "​", " ", "́", "ǅ",
                   "Ⅷ", "㊀", "😀", "\U000e0100", "￿", "\n", "\t", "'", "\"", "\\", "%", "~", "[", "]", ",", "-", "/", "*", "("]


def rewrite_stream(ck):
    rng = ck.rng
    t0 = time.time()
    maxlen = ck.n(4, 6)
    texts = list(enumerated_texts(maxlen))
    n_enum = len(texts)
    if ck.quick:
        seen = set()
        while len(seen) < 12000:
            n = rng.randint(5, 7)
            s = "".join(rng.choice(RW_ALPHABET) for _ in range(n))
            if "$" in s:
                seen.add(s)
        texts += sorted(seen)
    bad = 0
    for i in range(0, len(texts), 60000):
        bad += compare_rewrites(ck, texts[i:i + 60000], "enumerated")
    probes = []
    for ch in NONASCII_PROBES:
        probes += [f"$a{ch}b", f"${ch}", f"$a{ch}", f"{ch}$a", f"$a.{ch}1+$b", f"($a{ch})"]
    probes += ["$a\n", "$a\n\n", "$a\nb", "$\n", "$a$", "$$a", "$a$b$c", "$.", "$..a", "$_", "$1", "$a.$b", "$a 'x' $b",
               "parameters.get('c').value+$a", "'$a'", "$a'", "'$a", "$", "", " ", "$ a", "a$", "$a" * 40, "$" * 50,
               "$" + "a.b_1" * 60]
    bad += compare_rewrites(ck, probes, "probes")
    # the class table of the model against the real pattern, code point by code point
    t = gen_table()
    pm = RX.real_module()
    sig = chr(t["sigil"])
    cps = set(range(0, ck.n(0x400, 0x3000)))
    for a, b in t["word"] + t["digit"]:
        cps.update(c for c in (a - 1, a, b, b + 1) if 0 <= c < 0x110000)
    while len(cps) < ck.n(4000, 60000):
        cps.add(rng.randrange(0x110000))
    cps = sorted(c for c in cps if not 0xD800 <= c <= 0xDFFF)
    ans = core.lean_driver(PROP, ["tok " + core.lst(str(c) for c in cps[i:i + 2000]) for i in range(0, len(cps), 2000)])
    flat = [x for a in ans for x in core.parse_tree(a)[0]]
    n_class_bad = 0
    for c, m in zip(cps, flat):
        real_in = pm.PARAMETER_EXPRESSION_REGEX.fullmatch(sig + chr(c)) is not None
        if real_in != (m == "T"):
            n_class_bad += 1
            if n_class_bad <= 3:
                ck.disagree("class-vs-impl", f"code point U+{c:04X}: the real pattern {'matches' if real_in else 'does not match'} "
                            f"{'$' + chr(c)!r}, model isTok = {m}", {"kind": "rewrite", "text": sig + chr(c)})
    ck.count("rewrite:class-code-points", len(cps))
    if not ck.quick or True:
        ck.extra["rewrite_enumeration"] = {
            "alphabet": RW_ALPHABET, "max_length_exhaustive": maxlen, "exhaustive_strings": n_enum,
            "sampled_longer_strings": len(texts) - n_enum, "probes": len(probes), "class_code_points_compared": len(cps),
            "disagreements": bad + n_class_bad, "wall_s": round(time.time() - t0, 2)}
    return bad


# ------------------------------------------------------------------------------------------
# witnesses of the counterexample theorems, replayed on the real code
# ------------------------------------------------------------------------------------------
def replay_witnesses(ck):
    try:
        with time_limit(OP_TIME_LIMIT_S):
            _replay_witnesses(ck)
    except (Exception, OpTimeout) as e:  # noqa: BLE001 - the witnesses are valid inputs: a crash is a difference, not a harness error
        ck.disagree("witness-crashed", f"replaying the counterexample witnesses on the real code raised {type(e).__name__}: "
                    f"{str(e)[:200]}", {"params": [{"label": "a", "value": 3.0, "expr": "2+1/$b"}, {"label": "b", "value": 1.0,
                    "expr": "$c-1"}, {"label": "c", "value": 2.0}], "ctor": "from_list", "ops": []})


def _replay_witnesses(ck):
    from glotaran.parameter import Parameters

    def vals(ps):
        return [float(p.value) for p in ps.all()]

    # cyclic_not_consistent_counterexample: a = $b + 1, b = $a + 1, a = 1, b = 2
    t0 = time.time()
    with contextlib.redirect_stderr(io.StringIO()):
        ps = Parameters.from_list([["a", 1.0, {"expr": "$b+1"}], ["b", 2.0, {"expr": "$a+1"}]])
        first = vals(ps)
        ps.update_parameter_expression()
        second = vals(ps)
    wall = time.time() - t0
    ck.count("witness:cyclic")
    if first != [5.0, 6.0] or second != [9.0, 10.0] or wall > 5:
        ck.disagree("witness-cyclic", "cyclic_not_consistent_counterexample: the model says a=5,b=6 after construction and "
                    f"a=9,b=10 after a further update; the implementation gives {first} and {second} in {wall:.2f}s",
                    {"params": [{"label": "a", "value": 1.0, "expr": "$b+1"}, {"label": "b", "value": 2.0, "expr": "$a+1"}],
                     "ctor": "from_list", "ops": [["update"]]})
    # failed_update_leaves_stale_counterexample (D26): a = 2 + 1/$b before b = $c - 1
    decl = [["a", 3.0, {"expr": "2+1/$b"}], ["b", 1.0, {"expr": "$c-1"}], ["c", 2.0]]
    with contextlib.redirect_stderr(io.StringIO()):
        ps = Parameters.from_list(decl)
        start = vals(ps)
        raised1 = raised2 = False
        try:
            ps.set_from_label_and_value_arrays(["c"], [1.0])
        except ValueError:
            raised1 = True
        left = vals(ps)
        try:
            ps.set_from_label_and_value_arrays(["c"], [2.0])
        except ValueError:
            raised2 = True
        left2 = vals(ps)
        fresh = vals(Parameters.from_list(decl))
    ck.count("witness:failed-update")
    if (start, raised1, left, raised2, left2, fresh) != ([3.0, 1.0, 2.0], True, [3.0, 0.0, 1.0], True, [3.0, 0.0, 2.0],
                                                          [3.0, 1.0, 2.0]):
        ck.disagree("witness-failed-update", "failed_update_leaves_stale_counterexample: expected start [3,1,2], c:=1 raises and "
                    "leaves [3,0,1], c:=2 raises again and leaves [3,0,2], a fresh object gives [3,1,2]; implementation: "
                    f"{(start, raised1, left, raised2, left2, fresh)}",
                    {"params": [{"label": "a", "value": 3.0, "expr": "2+1/$b"}, {"label": "b", "value": 1.0, "expr": "$c-1"},
                                {"label": "c", "value": 2.0}], "ctor": "from_list",
                     "ops": [["set", ["c"], [1.0], "list"], ["set", ["c"], [2.0], "list"]]})
    # empty_expression_text_counterexample: expression "" is not None but falsy
    from glotaran.parameter import Parameter

    with contextlib.redirect_stderr(io.StringIO()):
        p = Parameter("a", value=1.0, expression="")
        seen = (p.expression, p.transformed_expression, bool(p.vary))
        q = p.copy()
        seen_copy = (q.expression, q.transformed_expression, bool(q.vary))
        try:
            Parameters({"a": p})
            raised = None
        except ValueError as e:
            raised = str(e)
    ck.count("witness:empty-expression")
    if seen != ("", None, True) or seen_copy != seen or raised is None or "of parameter 'a' evaluates to non numeric value 'None'" not in raised:
        ck.disagree("witness-empty-expression", "empty_expression_text_counterexample: expected expression '' to leave "
                    "transformed_expression None and vary True (also in the copy) and Parameters({'a': p}) to raise the "
                    f"non-numeric ValueError; implementation: {seen}, copy {seen_copy}, raised {raised!r}",
                    {"params": [{"label": "a", "value": 1.0, "expr": ""}], "ctor": "from_list", "ops": []})
    # the examples next to generated_copy_eq_model / expression_value_ignores_bounds: a stale a = 100 is replaced in the copy,
    # a = $b*2 with bounds [0, 1] ends at 8
    with contextlib.redirect_stderr(io.StringIO()):
        ps = Parameters.from_list([["a", {"expr": "$b*2", "min": 0, "max": 1}], ["b", {"expr": "$c+1"}], ["c", 3.0]])
        built = vals(ps)
        texts = [x.transformed_expression for x in ps.all()]
        ps.get("a").value = 100.0
        copied = vals(ps.copy())
        kept = vals(ps)
    ck.count("witness:copy-reevaluates")
    if (built, copied, kept) != ([8.0, 4.0, 3.0], [8.0, 4.0, 3.0], [100.0, 4.0, 3.0]) or \
            texts != ["parameters.get('b').value*2", "parameters.get('c').value+1", None]:
        ck.disagree("witness-copy-reevaluates", "examples of generated_copy_eq_model / expression_value_ignores_bounds: expected "
                    "[8,4,3] after construction (a outside its bounds [0,1]), [8,4,3] in the copy of the object with a := 100, "
                    f"the object itself untouched; implementation: {(built, copied, kept)}, transformed texts {texts}",
                    {"params": [{"label": "a", "expr": "$b*2", "min": 0.0, "max": 1.0}, {"label": "b", "expr": "$c+1"},
                                {"label": "c", "value": 3.0}], "ctor": "from_list",
                     "ops": [["setraw", "a", 100.0], ["copy"]]})


# ------------------------------------------------------------------------------------------
# generators
# ------------------------------------------------------------------------------------------
def all_dags(n):
    """every labelled DAG on nodes 0..n-1 as {i: [successors]} — node = declaration position"""
    pairs = [(i, j) for i in range(n) for j in range(n) if i != j]
    for mask in range(1 << len(pairs)):
        succ = {i: [] for i in range(n)}
        for b, (i, j) in enumerate(pairs):
            if mask >> b & 1:
                succ[i].append(j)
        if dag_ok(succ):
            yield succ


def dag_ok(succ):
    state = {}

    def visit(i):
        if state.get(i) == 1:
            return False
        if state.get(i) == 2:
            return True
        state[i] = 1
        ok = all(visit(j) for j in succ[i])
        state[i] = 2
        return ok

    return all(visit(i) for i in succ)


def random_dag(rng, n, density=None):
    perm = list(range(n))
    rng.shuffle(perm)
    density = rng.choice([0.3, 0.5, 0.8]) if density is None else density
    succ = {i: [] for i in range(n)}
    for a in range(n):
        for b in range(a + 1, n):
            if rng.random() < density:
                succ[perm[a]].append(perm[b])     # perm[a] references perm[b]
    return succ


def valid_labels(pool):
    from glotaran.parameter.parameter import RESERVED_LABELS

    return [l for l in pool if l not in RESERVED_LABELS]


def make_expr(rng, refs, mode):
    """an AST that references every label of `refs` at least once. mode: 'E' exact ops only, 'R' any division,
    'F' numpy-style functions as well"""
    terms = [("ref", l) for l in refs]
    rng.shuffle(terms)
    extra = rng.randint(0, 2) if terms else rng.randint(1, 2)
    for _ in range(extra):
        if refs and rng.random() < 0.3:
            terms.append(("ref", rng.choice(refs)))
        else:
            terms.append(("lit", rng.choice([1, 2, 3, 0.5, 1.5, 2.0, 4, 0.25])))
    rng.shuffle(terms)

    def leaf(t):
        r = rng.random()
        if mode == "F" and r < 0.45:
            f = rng.choice(NUMPY_FUNCS1 + EXACT_FUNCS1)
            if f in ("log", "sqrt"):
                t = ("call1", "abs", t) if rng.random() < 0.8 else t
                t = ("add", t, ("lit", 1)) if f == "log" else t
            if f == "exp":
                t = ("div", t, ("lit", 8))
            return ("call1", f, t)
        if r < 0.12:
            return ("neg", t)
        if r < 0.2:
            return ("call1", "abs", t)
        return t

    e = leaf(terms[0])
    for t in terms[1:]:
        r = rng.random()
        t = leaf(t)
        if r < 0.35:
            e = ("add", e, t)
        elif r < 0.6:
            e = ("sub", e, t)
        elif r < 0.85:
            e = ("mul", e, t)
        elif r < 0.93 and mode in ("E", "F"):
            e = ("div", e, ("lit", rng.choice([2, 4, 0.5, 8])))
            e = rng.choice([("add", e, t), ("sub", t, e)])
        elif mode in ("R", "F"):
            e = ("div", e, ("add", ("call1", "abs", t), ("lit", 1)))   # divisor >= 1
        else:
            e = ("call2", rng.choice(EXACT_FUNCS2), e, t)
    if rng.random() < 0.1:
        e = ("call2", rng.choice(EXACT_FUNCS2), e, ("lit", rng.choice([0, 1, 2.5])))
    return e


def case_from_dag(rng, succ, mode="E", pool=None, ctor=None, n_ops=None):
    n = len(succ)
    ctors = ["from_list", "from_list", "dict_list", "yml_str", "dataframe", "from_dict", "yml_dict"]
    ctor = rng.choice(ctors) if ctor is None else ctor
    if pool is None:
        pool = LABEL_POOLS[-1] if ctor in ("from_dict", "yml_dict") else rng.choice(LABEL_POOLS[:-1])
    labels = rng.sample(valid_labels(pool), n)
    params = []
    for i in range(n):
        p = {"label": labels[i]}
        refs = [labels[j] for j in succ[i]]
        if refs or rng.random() < 0.08:
            ast_ = make_expr(rng, refs, mode)
            text = render(ast_, rng)
            back = parse_expr(text)
            if norm_ast(back) != norm_ast(ast_):
                raise core.HarnessError(f"renderer/parser self-check failed: {ast_} -> {text!r} -> {back}")
            p["expr"] = text
            p["value"] = None if rng.random() < 0.5 else rng.choice(DYADICS)
            if rng.random() < 0.35:
                # bounds on an expression parameter (most values of the grammar lie outside): the value is the expression
                # value whatever the bounds say (expression_value_ignores_bounds; seeded change: clamping to the bounds)
                lo, hi = rng.choice(BOUND_POOL)
                if lo is not None:
                    p["min"] = lo
                if hi is not None:
                    p["max"] = hi
        else:
            p["value"] = rng.choice(DYADICS)
            if rng.random() < 0.15:
                p["vary"] = False
            if mode == "F" and rng.random() < 0.3:
                p["nonneg"] = True
                p["value"] = abs(p["value"])
        params.append(p)
    case = {"params": params, "ctor": ctor}
    if case["ctor"] in ("from_dict", "yml_dict") and nested_dict(params) is None:
        case["ctor"] = "from_list"
    if case["ctor"] in ("from_dict", "yml_dict") and rng.random() < 0.6:
        # default options of a group (`- {vary: false, max: 1}` inside the list): inherited by every parameter of the group
        # that does not set the option itself, expression parameters included
        gd = apply_group_defaults(rng, params, mode)
        if gd:
            case["group_defaults"] = gd
            case["defaults_first"] = rng.random() < 0.5
    case["ops"] = make_ops(rng, params, rng.randint(2, 5) if n_ops is None else n_ops, mode)
    return case


def make_ops(rng, params, k, mode):
    free = [p["label"] for p in params if p.get("expr") is None and p.get("vary", True)]
    fixed = [p["label"] for p in params if p.get("expr") is None and not p.get("vary", True)]
    expr = [p["label"] for p in params if p.get("expr") is not None]
    ops = []
    for _ in range(k):
        r = rng.random()
        if r < 0.55 and free:
            # what the optimiser does: all free parameters at once
            labels = list(free)
            if rng.random() < 0.2:
                rng.shuffle(labels)
            if rng.random() < 0.1 and (fixed or expr):
                labels.append(rng.choice(fixed + expr))
            vals = [rng.choice(DYADICS) for _ in labels]
            if mode == "F":
                vals = [rng.choice([-1.0, -0.5, 0.5, 1.0, 1.5, 0.25, 2.0]) for _ in labels]
            ops.append(["set", labels, vals, "np" if rng.random() < 0.8 else "list"])
            if rng.random() < 0.3:
                # the optimiser's finite-difference step: the same vector again with one (or every) entry moved by a
                # relative 2^-26 / an absolute 2^-30 (seeded change C12-1: the fixpoint loop stopped on np.isclose, so a
                # small step left expression parameters that refer to later-declared ones stale)
                step = rng.choice(["rel", "abs"])
                which = rng.randrange(len(vals)) if rng.random() < 0.6 else None
                vals2 = []
                for i, v in enumerate(vals):
                    if which is None or i == which:
                        vals2.append(v * (1.0 + 2.0 ** -26) if (step == "rel" and v != 0) else v + 2.0 ** -30)
                    else:
                        vals2.append(v)
                ops.append(["set", labels, vals2, "np"])
        elif r < 0.65:
            ops.append(["copy"])
        elif r < 0.72:
            ops.append(["csv"])
        elif r < 0.80:
            ops.append(["arrays", rng.random() < 0.7])
        elif r < 0.84:
            ops.append([rng.choice(["todf", "dictlist", "history"])])
        elif r < 0.9:
            ops.append(["update"])
        else:
            lab = rng.choice([p["label"] for p in params])
            ops.append(["setraw", lab, rng.choice(DYADICS)])
            ops.append(rng.choice([["update"], ["arrays", True], ["copy"], ["set", [], [], "np"]]))
    return ops


D3_WITNESS = {
    "params": [{"label": "a", "value": None, "expr": "$b*2"}, {"label": "b", "value": None, "expr": "$c+1"},
               {"label": "c", "value": 3.0}],
    "ctor": "from_list", "ops": [["show"], ["set", ["c"], [5.0], "np"], ["copy"]],
}


def special_cases():
    """the `$label` rewriting: nested labels, prefixes, what may follow a label"""
    def P(label, value=None, expr=None, **kw):
        d = {"label": label, "value": value}
        if expr is not None:
            d["expr"] = expr
        d.update(kw)
        return d

    out = []
    base = [P("b", 2.0), P("b.1", 4.0), P("b.1.1", 8.0), P("b1", 16.0), P("rates.k.1", 0.5), P("rates.k.10", 32.0),
            P("rates.k", 64.0), P("k_1", 3.0)]
    texts = [
        "$b", "($b)", "$b.1", "($b.1)", "$b.1.1", "$b1", "$b*$b.1", "$b.1*$b", "($b)*($b.1)", "$b.1-$b", "$b-$b.1",
        "$b.1.1/$b.1", "$b+$b1", "$b1+$b", "$rates.k.1*$rates.k.10", "$rates.k.10*$rates.k.1", "$rates.k+$rates.k.1",
        "$rates.k.1+$rates.k", "2*($rates.k.1+$rates.k.10)", "min($b,$b.1)", "max($b.1, $b)", "min($b.1,$b)", "-$b.1",
        "-($b.1)", "$b.1 * 2", "2.*$b.1", "$b.1*.5", "$b.1/2.", "($b.1)/(2.)", "abs(-$b.1)", "abs($b.1-$b.1.1)",
        "$k_1*$b", "$k_1-$rates.k.1", "$b.1 ", "$b.1\t+ 1", "(($b.1))", "1-$b.1", "1 - $rates.k.1", "$b.1+$b.1+$b.1",
        "$b.1*$b.1.1*$b",
    ]
    for t in texts:
        for pos in (0, len(base)):
            ps = [dict(p) for p in base]
            ps.insert(pos, P("x", 1.0 if pos else None, t))
            out.append({"params": ps, "ctor": "from_list", "ops": [["set", ["b", "b.1", "rates.k.1"], [1.5, -2.0, 0.25], "np"]]})
    # a label directly followed by '.', and other texts the tokenizer reads as a longer (unknown) label: ValueError
    for t in ["$b.", "$b.+1", "($b.)", "$b.2", "$rates.k.", "$rates.k.100", "$b.real", "$bb", "$B"]:
        out.append({"params": [P("x", 1.0, t)] + [dict(p) for p in base], "ctor": "from_list", "ops": []})
    # chains through nested labels in hostile declaration orders, all constructors
    chain = [P("rates.k.1", None, "$rates.k.2*2"), P("rates.k.2", None, "$rates.k.3+1"), P("rates.k.3", None, "$irf.c.1/2"),
             P("irf.c.1", 3.0), P("irf.c.2", 7.0, "$rates.k.1-$irf.c.1")]
    for ctor in ("from_list", "dict_list", "yml_str", "dataframe", "from_dict", "yml_dict"):
        for perm in ([0, 1, 2, 3, 4], [4, 3, 2, 1, 0], [2, 0, 4, 1, 3]):
            out.append({"params": [dict(chain[i]) for i in perm], "ctor": ctor,
                        "ops": [["set", ["irf.c.1"], [5.0], "np"], ["csv"], ["copy"], ["arrays", True], ["arrays", False]]})
    # duplicate labels in from_list: the later declaration replaces the earlier one at its place
    out.append({"params": [P("a", 1.0), P("b", 2.0), P("a", 5.0, "$b*3")], "ctor": "from_list", "ops": [["show"]]})
    return out


def error_cases():
    def P(label, value=None, expr=None, **kw):
        d = {"label": label, "value": value}
        if expr is not None:
            d["expr"] = expr
        d.update(kw)
        return d

    out = []
    for ctor in ("from_list", "dict_list", "yml_str"):
        out.append({"params": [P("a", 1.0, "$b/0"), P("b", 2.0)], "ctor": ctor, "ops": []})
        out.append({"params": [P("a", 1.0, "$b/($b-2)"), P("b", 2.0)], "ctor": ctor, "ops": []})
        out.append({"params": [P("a", 1.0, "$zz+1"), P("b", 2.0)], "ctor": ctor, "ops": []})
        out.append({"params": [P("b", 2.0), P("a", 1.0, "nosuchfunction($b)")], "ctor": ctor, "ops": []})
        out.append({"params": [P("a", 1.0, "1/$b"), P("b", 2.0), P("c", None, "$a+1")], "ctor": ctor,
                    "ops": [["set", ["b"], [0.0], "list"], ["set", ["b"], [4.0], "list"], ["set", ["b", "zz"], [1.0, 2.0], "np"],
                            ["set", ["b"], [1.0, 2.0], "np"], ["set", ["zz", "b"], [1.0, 8.0], "np"], ["update"]]})
    return out


def cyclic_cases():
    def P(label, value=None, expr=None):
        d = {"label": label, "value": value}
        if expr is not None:
            d["expr"] = expr
        return d

    return [
        {"params": [P("a", 1.0, "$b+1"), P("b", 2.0, "$a+1")], "ctor": "from_list", "ops": [["update"]]},
        {"params": [P("a", 1.0, "$a+1")], "ctor": "from_list", "ops": [["update"], ["copy"]]},
        {"params": [P("a", 1.0, "$b*2"), P("b", 2.0, "$c*2"), P("c", 1.0, "$a/4"), P("d", 1.0)], "ctor": "from_list",
         "ops": [["set", ["d"], [2.0], "np"]]},
        {"params": [P("a", None, "$b+1"), P("b", None, "$a+1")], "ctor": "from_list", "ops": []},
        {"params": [P("a", 1.0, "$b"), P("b", 2.0, "$a")], "ctor": "from_list", "ops": [["update"], ["setraw", "b", 4.0], ["update"]]},
        {"params": [P("b", 2.0, "$a"), P("a", 1.0, "$b")], "ctor": "dict_list", "ops": [["update"], ["csv"]]},
    ]


def all_cyclic_digraphs(n):
    """every digraph on the declaration positions 0..n-1 (self-loops allowed) that has a cycle"""
    pairs = [(i, j) for i in range(n) for j in range(n)]
    for mask in range(1, 1 << len(pairs)):
        succ = {i: [] for i in range(n)}
        for b, (i, j) in enumerate(pairs):
            if mask >> b & 1:
                succ[i].append(j)
        if not dag_ok(succ):
            yield succ


def cyclic_stream(ck):
    """all 1-, 2- and 3-cycles: every cyclic digraph on <= 3 declaration positions (= in every declaration order)"""
    rng = ck.rng
    graphs = [g for n in (1, 2, 3) for g in all_cyclic_digraphs(n)]
    ck.extra["cyclic_digraphs"] = len(graphs)
    out = list(cyclic_cases())
    for rep in range(ck.n(2, 4)):
        for g in graphs:
            n = len(g)
            extra = rng.randint(0, 1)            # a free parameter next to the cycle
            succ = {i: list(js) for i, js in g.items()}
            for k in range(extra):
                succ[n + k] = []
                for i in range(n):
                    if rng.random() < 0.4:
                        succ[i].append(n + k)
            # declaration order of the extra node is random as well
            order = list(succ)
            if extra:
                rng.shuffle(order)
                pos = {old: new for new, old in enumerate(order)}
                succ = {pos[i]: [pos[j] for j in succ[i]] for i in order}
                succ = {i: succ[i] for i in sorted(succ)}
            case = case_from_dag(rng, succ, "E", ctor=rng.choice(["from_list", "from_list", "dict_list", "yml_str"]),
                                 pool=rng.choice(LABEL_POOLS[:-1]), n_ops=rng.randint(1, 3))
            if rep % 2 == 1:
                # pure aliases / increments: the classical 2- and 3-cycles
                labels = [p["label"] for p in case["params"]]
                for i, p in enumerate(case["params"]):
                    if succ[i]:
                        p["expr"] = "+".join("$" + labels[j] for j in succ[i]) + rng.choice(["", "+1", "*2", "-0.5", "/2"])
            out.append(case)
    return out


def failure_cases(ck):
    """an expression raises in some pass at some declaration position: which values are left (failed_update_state, D26)"""
    rng = ck.rng
    out = []
    for _ in range(ck.n(160, 2000)):
        n_e = rng.randint(2, 5)
        pool = rng.choice(LABEL_POOLS[:-1])
        labels = rng.sample(valid_labels(pool), min(len(valid_labels(pool)), n_e + 1))
        n_e = len(labels) - 1
        free, elabs = labels[-1], labels[:-1]
        z, others = elabs[0], elabs[1:]
        K = rng.choice([1.0, 2.0, 0.5, -1.0])
        exprs = {z: rng.choice([f"${free}-{K!r}", f"${free} - ({K!r})", f"({K!r})-${free}", f"(${free}-{K!r})*2"])}
        poison = rng.choice(others)
        # the other expression parameters form a random DAG among themselves (and may use z / the free parameter)
        succ = random_dag(rng, len(others))
        for i, lab in enumerate(others):
            refs = [others[j] for j in succ[i]]
            if rng.random() < 0.5:
                refs.append(z)
            if not refs or rng.random() < 0.4:
                refs.append(free)
            exprs[lab] = render(make_expr(rng, refs, "E"), rng)
        # numerators are Python floats (literals, values of expression parameters): a numpy scalar (a free parameter set
        # from an array, the result of numpy's abs) divided by zero is inf/nan, not an error — not modelled
        o1 = [others[j] for j in succ[others.index(poison)]][:1]      # referenced by the poison anyway: no cycle
        num = rng.choice(["1", "2.5", f"${z}", f"(${z}+1)"] + [f"${o}" for o in o1] + [f"(${o}*2-${z})" for o in o1])
        exprs[poison] = rng.choice([f"{num}/${z}", f"{num}/(${z})", f"2+{num}/${z}", f"({num}/${z})*2", f"{num}/(${z}*4)"])
        params = [{"label": l, "value": rng.choice([None, 1.0, 1.0, 4.0, 0.0] if l == z else [None, 1.0, 2.0, -0.5]), "expr": exprs[l]}
                  for l in elabs]
        params.append({"label": free, "value": rng.choice([v for v in DYADICS if v != K])})
        rng.shuffle(params)
        ops = []
        for _ in range(rng.randint(2, 4)):
            how = rng.choice(["list", "np"])
            ops.append(["set", [free], [K], how])                      # drives z to zero: the poison raises in some pass
            ops.append(rng.choice([["update"], ["arrays", True], ["copy"], ["set", [free], [K], "list"]]))
            ops.append(["set", [free], [rng.choice([v for v in DYADICS if v != K])], rng.choice(["list", "np"])])   # D26
            if rng.random() < 0.5:
                ops.append(rng.choice([["update"], ["arrays", False], ["csv"]]))
        out.append({"params": params, "ctor": rng.choice(["from_list", "from_list", "dict_list", "yml_str", "dataframe"]), "ops": ops})
    return out


def dag_stream(ck):
    rng = ck.rng
    cases = []
    small = [d for n in (1, 2, 3) for d in all_dags(n)]
    four = list(all_dags(4))
    ck.extra["dag_counts"] = {"n<=3": len(small), "n=4": len(four)}
    if ck.quick:
        for d in small + four:
            cases.append(case_from_dag(rng, d, "E"))
        ck.exhaustive = True
        ck.extra["exhaustive_space"] = (f"all {len(small) + len(four)} labelled DAGs on <= 4 declaration positions "
                                        "(every DAG in every declaration order), one expression shape each")
        for d in rng.sample(four, 60):
            cases.append(case_from_dag(rng, d, "R"))
        for n, k in ((5, 150), (6, 120)):
            for _ in range(k):
                cases.append(case_from_dag(rng, random_dag(rng, n), rng.choice(["E", "E", "R"])))
    else:
        for rep in range(3):
            for d in small + four:
                cases.append(case_from_dag(rng, d, "E" if rep < 2 else "R"))
        ck.exhaustive = True
        ck.extra["exhaustive_space"] = (f"all {len(small) + len(four)} labelled DAGs on <= 4 declaration positions "
                                        "(every DAG in every declaration order), 3 expression shapes each")
        for n, k in ((5, 1500), (6, 1200)):
            for _ in range(k):
                cases.append(case_from_dag(rng, random_dag(rng, n), rng.choice(["E", "E", "R"])))
    return cases


def chain_cases(ck):
    """reverse / shuffled chains: the worst case for the number of passes"""
    rng = ck.rng
    out = []
    for n in (2, 3, 4, 5, 6):
        for order in ("reverse", "forward", "shuffled"):
            labels = valid_labels(LABEL_POOLS[-1] if rng.random() < 0.5 else LABEL_POOLS[0])[:n]
            ps = []
            for i in range(n):
                if i == n - 1:
                    ps.append({"label": labels[i], "value": 3.0})
                else:
                    ps.append({"label": labels[i], "value": None if rng.random() < 0.5 else 1.0,
                               "expr": f"${labels[i + 1]}{rng.choice(['*2', '+1', '-0.5', '/2'])}"})
            if order == "forward":
                ps.reverse()
            elif order == "shuffled":
                rng.shuffle(ps)
            ctor = rng.choice(["from_list", "dict_list", "yml_str", "dataframe", "from_dict", "yml_dict"])
            if ctor in ("from_dict", "yml_dict") and nested_dict(ps) is None:
                ctor = "from_list"
            out.append({"params": ps, "ctor": ctor,
                        "ops": [["arrays", True], ["set", [labels[n - 1]], [rng.choice(DYADICS)], "np"], ["copy"], ["csv"],
                                ["set", [labels[n - 1]], [rng.choice(DYADICS)], "list"]]})
    return out


def func_stream(ck):
    rng = ck.rng
    cases = []
    for _ in range(ck.n(200, 1500)):
        n = rng.randint(2, 5)
        cases.append(case_from_dag(rng, random_dag(rng, n), "F"))
    return cases


def run(ck):
    corpus = [c.get("case", c) for c in core.load_corpus(PROP)]
    if corpus:
        compare(ck, corpus, "corpus")
    compare(ck, [D3_WITNESS], "d3-witness")
    compare(ck, special_cases(), "regex")
    compare(ck, error_cases(), "errors")
    compare(ck, chain_cases(ck), "chains")
    cases = dag_stream(ck)
    for i in range(0, len(cases), 1500):
        compare(ck, cases[i:i + 1500], "dag")
    compare(ck, func_stream(ck), "functions")
    # cyclic definitions are outside the property statement but inside the model (update_terminates): they must
    # terminate with the values of the bounded passes
    t0 = time.time()
    WALL["max_case_s"] = 0.0
    compare(ck, cyclic_stream(ck), "cyclic", exact_only=True)
    ck.extra["cyclic_cases_wall_s"] = round(time.time() - t0, 2)
    ck.extra["cyclic_max_case_wall_s"] = round(WALL["max_case_s"], 3)
    if WALL["max_case_s"] > 10:
        ck.disagree("cyclic-slow", f"a cyclic case needed {WALL['max_case_s']:.1f}s on the real code (the model makes at most one "
                    "pass per expression parameter)", {})
    compare(ck, failure_cases(ck), "failures")
    replay_witnesses(ck)
    rewrite_stream(ck)
    ck.sample(D3_WITNESS)
    for c in cases[:3]:
        ck.sample(c)
    ck.extra["observations_compared"] = dict(REGIME)
    ck.extra["tolerances"] = {"model_vs_impl_inexact_regime_rel": 1e-9, "oracle_functions_vs_mpmath_rel": 1e-10,
                              "exact_regime": "equality of Fraction(float)"}


def search(ck):
    """widened oracle-only sweep on the real code"""
    rng = ck.rng
    for c in [D3_WITNESS] + chain_cases(ck):
        run_real(ck, c)
        if ck.violations:
            return
    for _ in range(ck.n(1500, 15000)):
        n = rng.randint(2, 6)
        c = case_from_dag(rng, random_dag(rng, n), rng.choice(["E", "R", "F"]), n_ops=rng.randint(1, 6))
        try:
            run_real(ck, c)
        except Unsupported:
            continue
        if ck.violations:
            return


def replay(ck, case):
    cases = []
    if "disagreements" in case:
        cases = [d["case"] for d in case["disagreements"]]
    else:
        cases = [case.get("case", case)]
    for c in cases:
        if c.get("kind") == "rewrite":
            compare_rewrites(ck, [c["text"]], "replay")
            print("  ", repr(c["text"]), "->", repr(RX.real_transform(c["text"])), RX.real_findall(c["text"]))
            continue
        if not c.get("params"):
            print("  ", json.dumps(c)[:300])
            continue
        c = {k: v for k, v in c.items() if k != "detail"}
        n = compare(ck, [c], "replay")
        lines, impl, _ = run_real(core.Check(PROP, "quick", 0), c, with_oracle=False)
        for l, a in zip(lines, impl):
            print("  ", l[:100], "->", a[0], short_state(a[-1]) if a[0] != "err" else a[1])
    for d in ck.disagreements:
        print("DISAGREEMENT", d["what"])
    for v in ck.violations:
        print("ORACLE", v["key"], "-", v["what"])
