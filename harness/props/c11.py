"""C11 — parameter transformations, bounds and fixed parameters.

Correspondence: Parameter(...), get_label_value_and_bounds_arrays, set_from_label_and_value_arrays,
ParameterHistory.append / set_from_history and the standard-error assignment of
Optimizer.calculate_covariance_matrix_and_standard_errors against lean/GlotaranModel/C11.lean.  The model
prints *terms* (which operation on which exact operand); they are evaluated here with IEEE doubles (numpy,
the same elementary operations the code calls -> equality of doubles) and with mpmath (independent
evaluator, relative 1e-12).
Oracle (independent of the model): the statement of C11 evaluated on the real code, on generated
parameter sets and on real optimisations (trf / dogbox / lm) of a small decay scheme.
"""
from __future__ import annotations

import hashlib
import json
import math
import warnings
from fractions import Fraction

import numpy as np

from harness import core
from harness.core import bool_, enc, lst, strs
from harness.props import _c11_gen as gen

PROP = "C11"
REQUIRED_THEOREMS = [
    "roundtrip", "roundtrip_plain", "roundtrip_at_one", "nonfinite_passes", "arrays_same_order_and_length",
    "free_excludes_fixed_and_expr", "create_expr_not_free", "set_preserves_unlisted", "wellFormed_preserved",
    "fixed_values_survive_optimizer_set", "set_get_identity", "set_get_identity_real", "bounds_transport",
    "fromOpt_pos_partial", "fromOpt_pos_counterexample", "box_transport", "labels_index_everything", "history_row_is_all_parameters",
    "history_maps_back",
    # the regenerated transcription of the source (Generated/C11Fns.lean) equals the model
    "generated_eq_model_log_value", "generated_eq_model_toOpt", "generated_eq_model_setFromOpt",
    "generated_eq_model_setExpr", "generated_eq_model_arrays", "generated_eq_model_set", "generated_eq_model_has_get",
    # look-up, constructor / start value, copies and equality, standard-error space, history access
    "lookup_exact", "start_value_handed_over_unvalidated", "start_feasible_iff", "copy_wellFormed",
    "copy_and_dict_list_roundtrip", "copy_identity_counterexample", "params_eq_spec", "stderr_space",
    "history_access", "history_row_i_maps_back",
]
TRUSTED = [
    "the ast -> Lean translator harness/props/_c11_gen.py and its hand-written reading of Python constructs "
    "(lean/GlotaranModel/C11Py.lean): _log_value, get_value_and_bounds_for_optimization, set_value_from_optimization, "
    "set_transformed_expression, Parameters.has / get / get_label_value_and_bounds_arrays / set_from_label_and_value_arrays "
    "are regenerated from the source on every run and proved equal to the model (generated_eq_model_*)",
    "hand-written model lean/GlotaranModel/C11.lean of the rest: update_parameter_expression (a parameter of the model), "
    "Parameters.copy / __eq__ / to_ / from_parameter_dict_list / set_from_history, parameter_history.py "
    "(append, get_parameters, number_of_records, to_dataframe / from_dataframe) and optimizer.py (standard-error loop), "
    "tied by differential execution only",
    "numpy's log/exp/abs and IEEE double arithmetic as evaluator of the model's terms; mpmath as second evaluator",
    "scipy.optimize.least_squares keeps iterates inside the box it is given (trf, dogbox) — monitored on "
    "every recorded evaluation, not proved",
]
ASSUMPTIONS = [
    "theorems about log/exp are over the reals (Real.log, Real.exp); floating-point rounding of np.log/np.exp "
    "is observed (round trip within (|ln v|+4) ulp), not proved",
    "np.log(0) = -inf and np.log(negative) = nan (a non-negative parameter with minimum < 0 gets a nan lower "
    "bound and scipy refuses to start) are IEEE facts seen by the term evaluator; the theorems state 0 < bound",
    "_log_value(1) = log(1 + 1e-10): stated in roundtrip_at_one / box_transport (N5); the oracle allows "
    "exactly this 1e-10 at value or bound == 1",
    "expression evaluation (asteval) is a parameter `ev` of the model (property C12); the driver evaluates "
    "the generated +,* expressions",
    "labels of a parameter set are unique (dict keys)",
]
RULE = (
    "parameter sets of 1..7 parameters, flat and nested labels in non-sorted declaration order, built through "
    "from_parameter_dict_list / from_list / from_dict, and (30 %) written the way parameter files are written: a flat "
    "list or nested groups (from_list / from_dict / the yml loader) where every group carries a block of DEFAULT OPTIONS "
    "(vary / non-negative / min / max taken from its members, mostly trailing) and a member spells out only the options in "
    "which it differs from the defaults (now and then one it shares; members without options of their own included) — "
    "for these the oracle also requires: free / fixed, box, non-negative flag, expression and value of every parameter are "
    "those declared (own options + defaults of its group, never a neighbour's), the specification object is not modified "
    "and parses twice to the same set (compared by the oracle only; the model sees the parsed set); every parameter drawn from free/fixed x "
    "unbounded/lower/upper/both x non-negative x expression(+,* over earlier plain parameters); values from "
    "{1, at a bound, 1e300, 1e-300, 0, negative, random, inf, nan}; bounds incl. 0, 1, negative for non-negative. "
    "Per set: constructor, both array selections, 3 set operations (free labels / shuffled subsets / unknown "
    "label / length mismatch; optimiser values incl. 0, +-800, +-inf, nan), one objective step with history "
    "record, set_from_history, the standard-error loop on a random Jacobian; all compared with the model. "
    "Oracle on the same sets plus optimisations of a 2-3 rate decay scheme with trf, dogbox, lm over "
    "mixes of bounded / non-negative / fixed / expression parameters with targets inside and outside the box, the start "
    "parameters of 35 % of them written as a flat list with a defaults block. "
    "non-trivial = at least one free and one non-free parameter or a non-negative one; distinct = distinct "
    "(specification, operation) pairs"
)

INF = float("inf")
NAN = float("nan")

GEN_FILE = core.LEAN / "GlotaranModel" / "Generated" / "C11Fns.lean"


def generate(ck):
    """regenerate lean/GlotaranModel/Generated/C11Fns.lean (function-level translation of parameter.py / parameters.py /
    parameter_history.py) from the source text of VERIF_REPO.  Source outside the translator's subset does not stop the
    check: the function is emitted as `Py.Untranslatable`, the `generated_eq_model_*` theorems about it stop compiling and
    the verdict logic takes over (failing-input search, else `no-failing-input-found`)."""
    results, texts = gen.translate_all(core.REPO)
    text = gen.render(results)
    GEN_FILE.parent.mkdir(parents=True, exist_ok=True)
    if not GEN_FILE.exists() or GEN_FILE.read_text() != text:
        GEN_FILE.write_text(text)
    broken = {r.qual: r.reason for r in results if isinstance(r, gen.Broken)}
    if broken:
        ck.extra["untranslatable"] = broken
        for k, v in broken.items():
            print(f"[{PROP}] translator: {k} is outside the translated subset ({v}); its generated_eq_model theorem will not compile")
    return [{
        "table": "function-level transcription (lean/GlotaranModel/Generated/C11Fns.lean)",
        "source": gen.SOURCES,
        "source_sha1": gen.source_sha1(texts),
        "sha1": hashlib.sha1(text.encode()).hexdigest(),
        "functions": [r.qual for r in results if not isinstance(r, gen.Broken)],
        "untranslatable": {r.qual: r.reason for r in results if isinstance(r, gen.Broken)},
    }]


# ------------------------------------------------------------------------------------------
# float <-> json / protocol
# ------------------------------------------------------------------------------------------
def fj(x):
    x = float(x)
    if x != x:
        return "nan"
    if x in (INF, -INF):
        return "inf" if x > 0 else "-inf"
    return x.hex()


def jf(s):
    if s in ("nan", "inf", "-inf"):
        return float(s)
    return float.fromhex(s)


def ext(x) -> str:
    x = float(x)
    if x != x:
        return "nan"
    return core.erat(x)


def same(a, b) -> bool:
    """equality of doubles (nan == nan; -0.0 == 0.0)"""
    a, b = float(a), float(b)
    if a != a or b != b:
        return a != a and b != b
    return a == b


def same_list(a, b):
    return len(a) == len(b) and all(same(x, y) for x, y in zip(a, b))


# ------------------------------------------------------------------------------------------
# evaluation of model terms
# ------------------------------------------------------------------------------------------
class TermEval:
    """doubles via numpy (the code's own elementary operations) + mpmath shadow value"""

    def __init__(self):
        import mpmath
        self.mp = mpmath
        mpmath.mp.dps = 50
        self.max_rel = 0.0
        self.ops = {}

    def atom(self, a):
        if a in ("inf", "-inf", "nan"):
            v = np.float64(a)
            return v, None
        fr = Fraction(a)
        v = np.float64(fr.numerator / fr.denominator) if abs(fr.numerator) < 2**1000 and fr.denominator < 2**1000 \
            else np.float64(float(fr))
        return v, self.mp.mpf(fr.numerator) / self.mp.mpf(fr.denominator)

    def ev(self, t):
        if isinstance(t, str):
            return self.atom(t)
        op, args = t[0], t[1:]
        self.ops[op] = self.ops.get(op, 0) + 1
        mp = self.mp
        with np.errstate(all="ignore"):
            if op in ("ifeq", "iflt"):
                a, b = self.ev(args[0]), self.ev(args[1])
                cond = (a[0] == b[0]) if op == "ifeq" else (a[0] < b[0])
                return self.ev(args[2] if cond else args[3])
            vals = [self.ev(a) for a in args]
            f = [v[0] for v in vals]
            m = [v[1] for v in vals]
            ok = all(x is not None for x in m)
            if op == "add":
                return f[0] + f[1], (m[0] + m[1]) if ok else None
            if op == "sub":
                return f[0] - f[1], (m[0] - m[1]) if ok else None
            if op == "mul":
                return f[0] * f[1], (m[0] * m[1]) if ok else None
            if op == "abs":
                return np.abs(f[0]), abs(m[0]) if ok else None
            if op == "log":
                r = np.log(f[0])
                return r, (mp.log(m[0]) if ok and m[0] > 0 else None)
            if op == "exp":
                r = np.exp(f[0])
                return r, (mp.exp(m[0]) if ok and abs(m[0]) < 700 else None)
        raise core.HarnessError(f"unknown term {t!r}")

    def value(self, t):
        f, m = self.ev(t)
        # cancellation in sub (exp(err) - 1) amplifies the double's rounding: no shadow comparison there
        if m is not None and np.isfinite(f) and f != 0 and "sub" not in repr(t):
            rel = abs((self.mp.mpf(float(f)) - m) / m) if m != 0 else 0
            self.max_rel = max(self.max_rel, float(rel))
        return float(f)


# ------------------------------------------------------------------------------------------
# specifications of parameter sets
# ------------------------------------------------------------------------------------------
LABEL_POOLS = [
    ["b", "a", "zz", "k1", "c3", "a0", "y"],
    ["rates.k2", "rates.k1", "irf.center", "b.1", "a.2", "a.1", "scale.1"],
    ["x.y.2", "x.y.1", "x.b.1", "a.b.c.1", "k.3", "k.1", "k.2"],
    ["10", "9", "2", "1", "11", "3", "20"],
]


def rnd_value(rng, pos=False):
    r = rng.random()
    if r < 0.12:
        return 1.0
    if r < 0.18:
        return 1e300
    if r < 0.24:
        return 1e-300
    if r < 0.3:
        return rng.choice([0.5, 2.0, 0.25, 3.0, 10.0])
    v = math.exp(rng.uniform(-6, 6))
    if not pos and rng.random() < 0.3:
        v = -v
    return v


def gen_spec(rng, n=None, finite_only=False):
    """list of dicts label,value,min,max,nonneg,vary,expr(ast|None) in declaration order"""
    pool = list(rng.choice(LABEL_POOLS))
    n = n or rng.randint(1, 7)
    labels = pool[:n] if rng.random() < 0.5 else rng.sample(pool, n)
    spec = []
    for i, label in enumerate(labels):
        nonneg = rng.random() < 0.45
        value = rnd_value(rng, pos=nonneg)
        r = rng.random()
        if not finite_only:
            if r < 0.04:
                value = NAN
            elif r < 0.07:
                value = INF
            elif r < 0.10:
                value = 0.0
            elif r < 0.13 and nonneg:
                value = -value
        lo, hi = -INF, INF
        kind = rng.choice(["none", "lower", "upper", "both", "both"])
        if value == value and abs(value) != INF:
            span = abs(value) * rng.choice([0.0, 0.5, 2.0]) + rng.choice([0.0, 0.0, 1.0])
            if kind in ("lower", "both"):
                lo = value - span if not nonneg else max(value / (1 + span), 0.0)
            if kind in ("upper", "both"):
                hi = value + span
            if nonneg and rng.random() < 0.25:
                lo = rng.choice([0.0, 1.0, -1.0, -INF, 0.0])
            if nonneg and rng.random() < 0.15:
                hi = rng.choice([1.0, INF, 1.0 if value <= 1 else value])
        if not finite_only and math.isfinite(value):
            r2 = rng.random()
            if r2 < 0.04 and math.isfinite(hi):          # start above the box
                value = hi + abs(hi) * 0.5 + 1.0
            elif r2 < 0.08 and math.isfinite(lo):        # start below the box
                value = lo - abs(lo) * 0.5 - (0.0 if nonneg and lo > 0 else 1.0)
                if nonneg and lo > 0:
                    value = lo * 0.5
            elif r2 < 0.11 and math.isfinite(lo) and math.isfinite(hi) and lo < hi:   # reversed box
                lo, hi = hi, lo
        vary = rng.random() < 0.65
        expr = None
        plain = [s for s in spec if s["expr"] is None and s["value"] == s["value"] and abs(s["value"]) != INF]
        if plain and rng.random() < 0.2:
            expr = gen_ast(rng, plain)
        spec.append({"label": label, "value": value, "min": lo, "max": hi, "nonneg": nonneg, "vary": vary,
                     "expr": expr})
    return spec


def gen_ast(rng, plain):
    ref = ["ref", rng.choice(plain)["label"]]
    c = rng.choice([2.0, 0.5, 3.0, 0.1, 1.0])
    r = rng.random()
    if r < 0.3:
        return ref
    if r < 0.6:
        return ["mul", ref, ["c", c]]
    if r < 0.8:
        return ["add", ref, ["c", c]]
    return ["add", ["mul", ref, ["c", c]], ["ref", rng.choice(plain)["label"]]]


def ast_str(a):
    if a[0] == "ref":
        return "$" + a[1]
    if a[0] == "c":
        return repr(float(a[1]))
    return f"({ast_str(a[1])} {'+' if a[0] == 'add' else '*'} {ast_str(a[2])})"


def ast_proto(a):
    if a[0] == "ref":
        return lst(["ref", enc(a[1])])
    if a[0] == "c":
        return lst(["c", core.rat(float(a[1]))])
    return lst([a[0], ast_proto(a[1]), ast_proto(a[2])])


def spec_json(spec):
    return [{**s, "value": fj(s["value"]), "min": fj(s["min"]), "max": fj(s["max"])} for s in spec]


def spec_unjson(js):
    return [{**s, "value": jf(s["value"]), "min": jf(s["min"]), "max": jf(s["max"])} for s in js]


def build(spec, route="dicts"):
    """the real Parameters object for a specification"""
    from glotaran.parameter import Parameters

    def opts(s):
        o = {"minimum": s["min"], "maximum": s["max"], "non_negative": s["nonneg"], "vary": s["vary"]}
        if s["expr"] is not None:
            o["expression"] = ast_str(s["expr"])
        return o

    if "+defaults" in route:
        kind, raw = raw_with_defaults(spec, route)
        return parse_raw(kind, raw)
    if route == "list":
        return Parameters.from_list([
            [s["label"], s["value"], {"min": s["min"], "max": s["max"], "non-negative": s["nonneg"], "vary": s["vary"],
                                      **({"expr": ast_str(s["expr"])} if s["expr"] is not None else {})}]
            for s in spec])
    if route == "dict":
        tree: dict = {}
        for s in spec:
            *path, leaf = s["label"].split(".")
            node = tree
            for p in path[:-1]:
                node = node.setdefault(p, {})
            node.setdefault(path[-1], []).append(
                [leaf, s["value"], {"min": s["min"], "max": s["max"], "non-negative": s["nonneg"], "vary": s["vary"],
                                    **({"expr": ast_str(s["expr"])} if s["expr"] is not None else {})}])
        return Parameters.from_dict(tree)
    return Parameters.from_parameter_dict_list([{"label": s["label"], "value": s["value"], **opts(s)} for s in spec])


# ---- group defaults: a trailing options dict shared by every member of a group / of a flat list -------------
OPT_KEYS = (("vary", "vary"), ("nonneg", "non-negative"), ("min", "min"), ("max", "max"))
LIB_DEFAULT = {"vary": True, "nonneg": False, "min": -INF, "max": INF}


def raw_with_defaults(spec, route):
    """the specification written the way parameter files are written: every group (nested-dict route) or the flat list
    carries a block of default options, and a member spells out only the options in which it differs from the
    defaults of its group (plus, now and then, one it shares).  The *declared* parameter set is still `spec`: options of
    a member apply to that member only, the defaults to every member that does not set the key itself.
    route = '<list|dict|yml>+defaults:<seed>'; the layout is a function of (spec, route) only, so a recorded case replays."""
    import random
    kind, _, seed = route.partition("+defaults:")
    r = random.Random(f"defaults:{seed}")

    def items_of(members, leaf_of):
        defaults = {}
        for k, _name in OPT_KEYS:
            if r.random() < 0.6:
                defaults[k] = r.choice(members)[k]
        if not defaults:
            k = r.choice(OPT_KEYS)[0]
            defaults[k] = r.choice(members)[k]
        items = []
        for s in members:
            o = {}
            for k, name in OPT_KEYS:
                base = defaults.get(k, LIB_DEFAULT[k])
                differs = (s[k] != base) if isinstance(base, bool) else not same(s[k], base)
                if differs or r.random() < 0.15:
                    o[name] = s[k]
            if s["expr"] is not None:
                o["expr"] = ast_str(s["expr"])
            items.append([leaf_of(s), s["value"]] + ([o] if o or r.random() < 0.2 else []))
        block = {name: defaults[k] for k, name in OPT_KEYS if k in defaults}
        items.insert(len(items) if r.random() < 0.8 else r.randrange(len(items) + 1), block)
        return items

    if kind == "list":
        return "list", items_of(spec, lambda s: s["label"])
    tree: dict = {}
    groups: dict = {}
    for s in spec:
        *path, _leaf = s["label"].split(".")
        node = tree
        for p in path[:-1]:
            node = node.setdefault(p, {})
        node.setdefault(path[-1], [])             # key order of the dicts = declaration order
        groups.setdefault(tuple(path), (node, path[-1], []))[2].append(s)
    for node, key, members in groups.values():
        node[key] = items_of(members, lambda s: s["label"].split(".")[-1])
    return kind, tree


def parse_raw(kind, raw):
    from glotaran.parameter import Parameters
    if kind == "list":
        return Parameters.from_list(raw)
    if kind == "yml":
        import yaml
        from glotaran.io import load_parameters
        return load_parameters(yaml.safe_dump(raw, sort_keys=False), format_name="yml_str")
    return Parameters.from_dict(raw)


def dict_route_order(spec):
    """declaration order produced by the nested-dict route (depth-first over insertion-ordered dicts)"""
    tree: dict = {}
    for s in spec:
        *path, leaf = s["label"].split(".")
        node = tree
        for p in path[:-1]:
            node = node.setdefault(p, {})
        node.setdefault(path[-1], []).append(s["label"])

    def walk(node):
        for v in node.values():
            if isinstance(v, dict):
                yield from walk(v)
            else:
                yield from v
    return list(walk(tree))


def dict_route_ok(spec):
    # from_dict needs >= 2 label components and no label that is both a group and a leaf list
    if not all(s["label"].count(".") >= 1 for s in spec):
        return False
    groups = {tuple(s["label"].split(".")[:-1]) for s in spec}
    for g in groups:
        for k in range(1, len(g)):
            if g[:k] in groups:
                return False
    return True


def state_of(ps):
    return [{"label": p.label, "value": float(p.value), "min": float(p.minimum), "max": float(p.maximum),
             "nonneg": bool(p.non_negative), "vary": bool(p.vary), "expr": p.expression,
             "stderr": float(p.standard_error)} for p in ps.all()]


def proto_state(state):
    return lst(lst([enc(s["label"]), ext(s["value"]), ext(s["min"]), ext(s["max"]), bool_(s["nonneg"]),
                    bool_(s["vary"]), "none" if s["expr"] is None else enc(s["expr"]), ext(s["stderr"])])
               for s in state)


def proto_table(spec):
    seen, out = set(), []
    for s in spec:
        if s["expr"] is not None and ast_str(s["expr"]) not in seen:
            seen.add(ast_str(s["expr"]))
            out.append(lst([enc(ast_str(s["expr"])), ast_proto(s["expr"])]))
    return lst(out)


def parse_params(tree, te: TermEval):
    out = []
    for l, v, lo, hi, nn, vy, e, se in tree:
        out.append({"label": core.dec(l), "value": te.value(v), "min": te.value(lo), "max": te.value(hi),
                    "nonneg": nn == "T", "vary": vy == "T", "expr": None if e == "none" else core.dec(e),
                    "stderr": te.value(se)})
    return out


def states_equal(a, b):
    if len(a) != len(b):
        return "length"
    for x, y in zip(a, b):
        for k in ("label", "nonneg", "vary", "expr"):
            if x[k] != y[k]:
                return f"{x['label']}.{k}: {x[k]!r} vs {y[k]!r}"
        for k in ("value", "min", "max", "stderr"):
            if not same(x[k], y[k]):
                return f"{x['label']}.{k}: {x[k]!r} vs {y[k]!r}"
    return None


# ------------------------------------------------------------------------------------------
# correspondence on one parameter set
# ------------------------------------------------------------------------------------------
def opt_values(rng, n):
    out = []
    for _ in range(n):
        r = rng.random()
        if r < 0.08:
            out.append(0.0)
        elif r < 0.12:
            out.append(rng.choice([800.0, -800.0]))
        elif r < 0.15:
            out.append(rng.choice([INF, -INF, NAN]))
        elif r < 0.2:
            out.append(rng.choice([1e-17, -1e-17, 1e-10]))
        else:
            out.append(rng.uniform(-8, 8))
    return out


class Job:
    """one protocol line + the implementation's observation + how to compare"""

    def __init__(self, line, kind, impl, case):
        self.line, self.kind, self.impl, self.case = line, kind, impl, case


def set_real(ps, labels, xs):
    from glotaran.parameter.parameters import ParameterNotFoundException
    try:
        ps.set_from_label_and_value_arrays(list(labels), np.asarray(xs, dtype=float))
        return "ok"
    except ParameterNotFoundException as e:
        return "notfound:" + enc(str(e).replace("Cannot find parameter ", ""))
    except ValueError:
        return "len"


def jobs_for(ck, spec, route, ops_json=None):
    """run the real code on one specification; returns the jobs for the model.  `ops_json` replays
    recorded random choices"""
    from glotaran.parameter import Parameter, ParameterHistory
    from glotaran.optimization.optimizer import Optimizer

    rng = ck.rng
    jobs = []
    case0 = {"spec": spec_json(spec), "route": route}
    with warnings.catch_warnings():
        warnings.simplefilter("ignore")
        ps = build(spec, route)
        # constructor
        for s in spec:
            p = Parameter(label=s["label"], value=s["value"], minimum=s["min"], maximum=s["max"],
                          non_negative=s["nonneg"], vary=s["vary"],
                          expression=None if s["expr"] is None else ast_str(s["expr"]))
            e = "none" if s["expr"] is None else enc(ast_str(s["expr"]))
            line = (f"create {enc(s['label'])} {ext(s['value'])} {ext(s['min'])} {ext(s['max'])} "
                    f"{bool_(s['nonneg'])} {bool_(s['vary'])} {e}")
            jobs.append(Job(line, "create", state_of_one(p), {**case0, "op": "create", "label": s["label"]}))
        state = state_of(ps)
        pstate, table = proto_state(state), proto_table(spec)
        # arrays
        for excl in (True, False):
            l, v, lo, hi = ps.get_label_value_and_bounds_arrays(exclude_non_vary=excl)
            jobs.append(Job(f"arrays {bool_(excl)} {pstate} {table}", "arrays",
                            (list(l), [float(x) for x in v], [float(x) for x in lo], [float(x) for x in hi]),
                            {**case0, "op": "arrays", "excl": excl}))
        free = [s["label"] for s in state if s["vary"]]
        alll = [s["label"] for s in state]
        # set
        ops = ops_json or []
        if not ops_json:
            for k in range(3):
                r = rng.random()
                if k == 0 or r < 0.3:
                    labels = list(free)
                elif r < 0.6:
                    labels = rng.sample(alll, rng.randint(0, len(alll)))
                elif r < 0.75:
                    labels = list(alll)
                elif r < 0.85:
                    labels = rng.sample(alll, rng.randint(0, len(alll))) + ["no.such"] + rng.sample(alll, 1)
                else:
                    labels = list(free) + [rng.choice(alll)]   # duplicate: later value wins
                xs = opt_values(rng, len(labels))
                if r >= 0.95 and labels:
                    xs = xs[:-1]
                if any(s["expr"] is not None for s in spec):
                    xs = [x if math.isfinite(x) else 0.25 for x in xs]
                ops.append({"labels": labels, "xs": [fj(x) for x in xs]})
        for op in ops:
            labels, xs = op["labels"], [jf(x) for x in op["xs"]]
            q = ps.copy()
            status = set_real(q, labels, xs)
            jobs.append(Job(f"set {pstate} {table} {strs(labels)} {lst(ext(x) for x in xs)}", "set",
                            (status, state_of(q)), {**case0, "op": "set", "ops": [op]}))
        # objective step: free parameters from x, then one history record of everything
        op = ops[0]
        xs = [jf(x) for x in op["xs"]]
        if op["labels"] == free and len(xs) == len(free):
            q = ps.copy()
            q.set_from_label_and_value_arrays(free, np.asarray(xs, dtype=float))
            h = ParameterHistory()
            h.append(q, 3)
            jobs.append(Job(f"objective {pstate} {table} {strs(free)} {lst(ext(x) for x in xs)} 3", "objective",
                            ("ok", state_of(q), list(h.parameter_labels), [[float(x) for x in r] for r in h.parameters]),
                            {**case0, "op": "objective", "ops": [op]}))
            # set_from_history on a second copy: two records, pick one
            h.append(ps, 4)
            idx = len(xs) % 2
            q2 = ps.copy()
            try:
                q2.set_from_history(h, idx - 2)     # python-style negative index, as Optimizer uses
            except Exception as e:
                ck.violation("history-index", f"set_from_history(history, {idx - 2}) on a history of 2 records raised {e!r}",
                             {**case0, "op": "fromhistory", "ops": [op]})
            rows = [[float(x) for x in r] for r in h.parameters]
            finite_rows = all(math.isfinite(x) for x in rows[idx][1:]) or not any(s["expr"] for s in spec)
            if finite_rows:
                jobs.append(Job(f"fromhistory {pstate} {table} {strs(h.parameter_labels)} "
                                f"{lst(lst(ext(x) for x in r) for r in rows)} {idx}", "set",
                                ("ok", state_of(q2)), {**case0, "op": "fromhistory", "ops": [op]}))
        # standard errors
        if free and all(math.isfinite(s["value"]) for s in state if s["vary"] and s["nonneg"]):
            seed = rng.randrange(2**31) if not ops_json else ops_json[0].get("jseed", 0)
            ops[0]["jseed"] = seed
            rs = np.random.RandomState(seed)
            n = len(free)
            jac = rs.normal(size=(n + 3, n)) * (2.0 ** rs.randint(-6, 7, size=n))
            rmse = float(2.0 ** rs.randint(-8, 3))
            q = ps.copy()
            o = object.__new__(Optimizer)
            o._parameters = q
            o._free_parameter_labels = list(free)
            try:
                cov = o.calculate_covariance_matrix_and_standard_errors(jac, rmse)
            except Exception as e:   # the loop can no longer be driven in isolation: a broken tie, not a verdict
                ck.disagree("stderr-loop-not-callable", "Optimizer.calculate_covariance_matrix_and_standard_errors(jacobian, rmse) "
                            f"on an Optimizer holding only parameters and free labels raised {e!r}", {**case0, "op": "stderr"})
                cov = None
            errs = rmse * np.sqrt(np.diag(cov)) if cov is not None else np.array([np.nan])
            if np.all(np.isfinite(errs)):
                jobs.append(Job(f"stderr {pstate} {strs(free)} {lst(ext(x) for x in errs)}", "stderr",
                                state_of(q), {**case0, "op": "stderr", "ops": [ops[0]]}))
    return jobs, ps, state


def state_of_one(p):
    return {"label": p.label, "value": float(p.value), "min": float(p.minimum), "max": float(p.maximum),
            "nonneg": bool(p.non_negative), "vary": bool(p.vary), "expr": p.expression,
            "stderr": float(p.standard_error)}


# ------------------------------------------------------------------------------------------
# look-up, copies / dictionaries / equality, history access
# ------------------------------------------------------------------------------------------
def lookup_queries(labels):
    qs = {"", "no.such", ".", "iteration"}
    for l in labels:
        qs.update([l, l.rsplit(".", 1)[0], l.split(".")[-1], l.split(".")[0], l + ".1", l[:-1], l + "x", l.upper(), l + "."])
    return sorted(qs)


def extra_jobs(ck, spec, route):
    """Jobs (and the model-independent oracle) for Parameters.has / get, copy, to/from_parameter_dict_list, __eq__,
    ParameterHistory.to_dataframe / from_dataframe / get_parameters / number_of_records and set_from_history with Python
    indices.  Every random choice derives from the specification itself, so a replay reproduces the case."""
    import random
    from glotaran.parameter import ParameterHistory, Parameters
    from glotaran.parameter.parameters import ParameterNotFoundException

    r = random.Random("extra:" + json.dumps(spec_json(spec), sort_keys=True) + route)
    case0 = {"spec": spec_json(spec), "route": route}
    jobs = []
    ps = build(spec, route)
    state = state_of(ps)
    pstate, table = proto_state(state), proto_table(spec)
    labels = [s["label"] for s in state]
    has_expr = any(s["expr"] is not None for s in spec)
    # --- look-up: full labels, group paths, short labels, prefixes, unknown
    queries = lookup_queries(labels)
    if len(queries) > 14:
        keep = {"", *labels[:3], *[l.rsplit(".", 1)[0] for l in labels[:3]], *[l.split(".")[-1] for l in labels[:2]]}
        queries = sorted(keep | set(r.sample([x for x in queries if x not in keep], 6)))
    for qy in queries:
        got_has = bool(ps.has(qy))
        try:
            got = state_of_one(ps.get(qy))
        except ParameterNotFoundException as e:
            got = "notfound:" + enc(str(e).replace("Cannot find parameter ", "", 1))
        ck.oracle_evals += 1
        if got_has != (qy in labels) or (isinstance(got, dict)) != (qy in labels) or (isinstance(got, dict) and got["label"] != qy):
            ck.violation("lookup-not-exact", f"has({qy!r}) = {got_has}, get({qy!r}) -> {got if isinstance(got, str) else got['label']!r}; "
                         f"declared labels {labels}", {**case0, "op": "lookup", "query": qy})
        jobs.append(Job(f"has {pstate} {enc(qy)}", "has", got_has, {**case0, "op": "has", "query": qy}))
        jobs.append(Job(f"get {pstate} {enc(qy)}", "get", got, {**case0, "op": "get", "query": qy}))
    # --- oracle: a fresh (well formed, up to date) set is reproduced by copy() and by the dictionary round trip
    c = ps.copy()
    d = Parameters.from_parameter_dict_list(ps.to_parameter_dict_list())
    ck.oracle_evals += 2
    for name, other in (("copy()", c), ("from_parameter_dict_list(to_parameter_dict_list())", d)):
        why = states_equal(state, state_of(other))
        if why or not (other == ps):
            ck.violation("copy-not-identity", f"{name} of a freshly built parameter set differs from it: {why or '== is False'}",
                         {**case0, "op": "copy-identity"})
    for l in labels:
        if c.get(l) is ps.get(l):
            ck.violation("copy-aliases-original", f"copy() shares the Parameter object of {l!r} with the original",
                         {**case0, "op": "copy-alias"})
            break
    if labels:
        l = r.choice([x["label"] for x in state if x["expr"] is None] or labels)
        before = state_of(ps)
        c.get(l).value = 123.25
        c.get(l).vary = not c.get(l).vary
        if states_equal(before, state_of(ps)) is not None:
            ck.violation("copy-aliases-original", f"changing {l!r} in the copy changed the original", {**case0, "op": "copy-alias"})
    # --- copy / dictionaries after assignments: vary flipped (also on expression parameters), values changed so that
    #     expression values are stale, standard errors set
    ps2 = build(spec, route)
    for p in ps2.all():
        x = r.random()
        if x < 0.3:
            p.vary = not p.vary
        if p.expression is None and has_expr and math.isfinite(p.value) and r.random() < 0.5:
            p.value = float(r.choice([0.5, 2.0, 3.0, 1.0, 0.125]))
        if r.random() < 0.4:
            p.standard_error = float(r.choice([0.25, 0.0, 1e-3, INF]))
    st2 = state_of(ps2)
    pst2 = proto_state(st2)
    st_copy = state_of(ps2.copy())
    st_dict = state_of(Parameters.from_parameter_dict_list(ps2.to_parameter_dict_list()))
    jobs.append(Job(f"copy {pst2} {table}", "params", st_copy, {**case0, "op": "copy", "state": spec_json_state(st2)}))
    jobs.append(Job(f"dictlist {pst2} {table}", "params", st_dict, {**case0, "op": "dictlist", "state": spec_json_state(st2)}))
    # oracle: a copy carries every attribute of every parameter; only what defines an expression parameter's value and
    # freedom is recomputed (its value from the expression, vary = False)
    ck.oracle_evals += 2
    for name, got in (("copy()", st_copy), ("from_parameter_dict_list(to_parameter_dict_list())", st_dict)):
        why = None
        if [x["label"] for x in got] != [x["label"] for x in st2]:
            why = "labels / order differ"
        for a, bb in zip(st2, got):
            if why:
                break
            for k in ("min", "max", "stderr", "nonneg", "expr") + (("value", "vary") if a["expr"] is None else ()):
                if not (same(a[k], bb[k]) if k in ("min", "max", "stderr", "value") else a[k] == bb[k]):
                    why = f"{a['label']}.{k}: {a[k]!r} -> {bb[k]!r}"
            if a["expr"] and bb["vary"]:
                why = f"{a['label']}: expression parameter with vary = True in the copy"
        if why:
            ck.violation("copy-changes-attribute", f"{name} after attribute assignments: {why}",
                         {**case0, "op": "copy-attributes", "state": spec_json_state(st2)})
    # --- equality
    variants = [("copy", ps2.copy())]
    dicts = ps2.to_parameter_dict_list()
    if len(dicts) > 1:
        for name, ds in (("reversed", list(reversed(dicts))), ("dropped", dicts[:-1])):
            try:
                variants.append((name, Parameters.from_parameter_dict_list(ds)))
            except ValueError:    # the dropped parameter was referred to by an expression
                pass
    b = ps2.copy()
    tgt = r.choice(list(b.all()))
    attr = r.choice(["value", "standard_error", "minimum", "maximum", "vary", "non_negative", "value", "standard_error"])
    cur = getattr(tgt, attr)
    if attr in ("vary", "non_negative"):
        setattr(tgt, attr, not cur)
    else:
        setattr(tgt, attr, r.choice([NAN, 1.0, float(cur) + 1.0 if math.isfinite(float(cur)) else 0.0, -float(cur) if cur == cur else NAN, float(cur)]))
    variants.append((f"changed-{attr}", b))
    b2 = [dict(x) for x in dicts]
    b2[r.randrange(len(b2))]["label"] = "zz9"
    if "zz9" not in labels:
        try:
            variants.append(("relabelled", Parameters.from_parameter_dict_list(b2)))
        except ValueError:        # the relabelled parameter was referred to by an expression
            pass
    for name, other in variants:
        sto = state_of(other)
        ck.oracle_evals += 1
        by_o = {x["label"]: x for x in sto}
        want_eq = sorted(by_o) == sorted(x["label"] for x in st2) and all(
            all((same(a[k], by_o[a["label"]][k]) if k in ("value", "min", "max", "stderr") else a[k] == by_o[a["label"]][k])
                for k in ("value", "min", "max", "stderr", "nonneg", "vary", "expr")) for a in st2)
        if bool(ps2 == other) != want_eq:
            ck.violation("eq-wrong", f"== answers {bool(ps2 == other)} for two parameter sets that "
                         f"{'agree in' if want_eq else 'differ in'} labels / attributes (variant {name})",
                         {**case0, "op": "eq-oracle", "variant": name, "state": spec_json_state(st2), "other": spec_json_state(sto)})
        jobs.append(Job(f"eq {pst2} {proto_state(sto)}", "eq", bool(ps2 == other),
                        {**case0, "op": "eq", "variant": name, "state": spec_json_state(st2), "other": spec_json_state(sto)}))
        ck.count("eq:" + name.split("-")[0] + (":equal" if ps2 == other else ":different"))
    # --- history: records of several sets, data frame round trip, access with Python indices, mapping back
    free = [s["label"] for s in state if s["vary"]]
    h = ParameterHistory()
    n = r.randint(1, 3)
    recorded = []
    for k in range(n):
        qk = ps.copy()
        if free and k:
            qk.set_from_label_and_value_arrays(free, np.asarray([r.uniform(-3, 3) for _ in free]))
        h.append(qk, k)
        recorded.append(state_of(qk))
    hl = list(h.parameter_labels)
    rows = [[float(x) for x in row] for row in h.parameters]
    h2 = ParameterHistory.from_dataframe(h.to_dataframe())
    prows = lst(lst(ext(x) for x in row) for row in rows)
    for i in range(-n - 1, n + 1):
        try:
            got = [float(x) for x in h2.get_parameters(i)]
        except IndexError:
            got = "indexerror"
        jobs.append(Job(f"histget {strs(hl)} {prows} {i}", "histget",
                        (int(h2.number_of_records), [str(x) for x in h2.parameter_labels], got, len(h2)),
                        {**case0, "op": "histget", "index": i, "records": n}))
        if (got == "indexerror") != (not -n <= i < n):
            ck.violation("history-index", f"get_parameters({i}) on a history of {n} records "
                         f"{'raised IndexError' if got == 'indexerror' else 'did not raise'}",
                         {**case0, "op": "history-oracle", "index": i, "records": n})
        q = ps.copy()
        try:
            q.set_from_history(h2, i)
            got = ("ok", state_of(q))
        except IndexError:
            got = "indexerror"
        ck.oracle_evals += 1
        if got != "indexerror":
            # oracle: row i belongs to record i (mod n), every non-expression value comes back
            want = recorded[i % n]
            for a, bb in zip(want, got[1]):
                if a["expr"] is None and not (close_roundtrip(a["value"], bb["value"], a["nonneg"])
                                               or (a["nonneg"] and not (math.isfinite(a["value"]) and a["value"] > 0))):
                    ck.violation("history-row-maps-to-wrong-record", f"set_from_history(h, {i}) with {n} records gives "
                                 f"{a['label']} = {bb['value']!r}, record {i % n} was taken at {a['value']!r}",
                                 {**case0, "op": "history-oracle", "index": i, "records": n})
                    break
        row = rows[i % n] if -n <= i < n else []
        if not has_expr or all(math.isfinite(x) for x in row[1:]):
            jobs.append(Job(f"fromhistoryat {pstate} {table} {strs(hl)} {prows} {i}", "sethist", got,
                            {**case0, "op": "fromhistoryat", "index": i, "records": n}))
    return jobs


def spec_json_state(state):
    return [{**s, "value": fj(s["value"]), "min": fj(s["min"]), "max": fj(s["max"]), "stderr": fj(s["stderr"])} for s in state]


def compare_jobs(ck, jobs, te):
    answers = core.lean_driver(PROP, [j.line for j in jobs])
    bad = 0
    for j, ans in zip(jobs, answers):
        ck.count("op:" + j.kind)
        t = core.parse_tree(ans)
        diff = None
        if t[0] in ("bad-op", "unmodelled"):
            diff = f"model answered {t[0]}"
        elif j.kind == "create":
            diff = states_equal([j.impl], parse_params([t[1]], te))
        elif j.kind == "arrays":
            l, v, lo, hi = j.impl
            ml = [core.dec(x) for x in t[1]]
            if ml != l:
                diff = f"labels {l} vs {ml}"
            else:
                for name, a, b in (("values", v, t[2]), ("lower", lo, t[3]), ("upper", hi, t[4])):
                    mb = [te.value(x) for x in b]
                    if not same_list(a, mb):
                        diff = f"{name} {a} vs {mb}"
                        break
        elif j.kind in ("set", "objective"):
            status, st = j.impl[0], j.impl[1]
            ck.count("set-status:" + status.split(":")[0])
            if t[1] != status:
                diff = f"status {status} vs {t[1]}"
            else:
                diff = states_equal(st, parse_params(t[2], te))
            if diff is None and j.kind == "objective":
                hl, rows = j.impl[2], j.impl[3]
                if t[3] == "mismatch" or [core.dec(x) for x in t[3]] != hl:
                    diff = f"history labels {hl} vs {t[3]}"
                else:
                    mrows = [[te.value(x) for x in r] for r in t[4]]
                    if len(mrows) != len(rows) or not all(same_list(a, b) for a, b in zip(rows, mrows)):
                        diff = f"history rows {rows} vs {mrows}"
        elif j.kind == "stderr":
            diff = states_equal(j.impl, parse_params(t[1], te))
        elif j.kind in ("has", "eq"):
            if (t[1] == "T") != j.impl:
                diff = f"{j.kind}: implementation {j.impl}, model {t[1]}"
        elif j.kind == "get":
            if isinstance(j.impl, str) or isinstance(t[1], str):
                if j.impl != t[1]:
                    diff = f"get: implementation {j.impl if isinstance(j.impl, str) else 'a parameter'}, model {t[1] if isinstance(t[1], str) else 'a parameter'}"
            else:
                diff = states_equal([j.impl], parse_params([t[1]], te))
        elif j.kind == "params":
            diff = states_equal(j.impl, parse_params(t[1], te))
        elif j.kind == "histget":
            nrec, hl, got, ln = j.impl
            if int(t[1]) != nrec or ln != nrec:
                diff = f"number_of_records {nrec} / len {ln} vs {t[1]}"
            elif [core.dec(x) for x in t[2]] != hl:
                diff = f"data-frame labels {hl} vs {t[2]}"
            elif isinstance(got, str) or isinstance(t[3], str):
                if got != t[3]:
                    diff = f"get_parameters: implementation {got}, model {t[3]}"
            elif not same_list(got, [te.value(x) for x in t[3]]):
                diff = f"get_parameters {got} vs {[te.value(x) for x in t[3]]}"
        elif j.kind == "sethist":
            if isinstance(j.impl, str) or t[1] == "indexerror":
                if not (j.impl == "indexerror" and t[1] == "indexerror"):
                    diff = f"set_from_history: implementation {j.impl if isinstance(j.impl, str) else 'ok'}, model {t[1]}"
            elif t[1] != j.impl[0]:
                diff = f"status {j.impl[0]} vs {t[1]}"
            else:
                diff = states_equal(j.impl[1], parse_params(t[2], te))
        if diff:
            bad += 1
            if len(ck.disagreements) < 8:
                ck.disagree("model-vs-impl", f"{j.kind}: implementation vs model: {diff}", j.case)
    return bad


# ------------------------------------------------------------------------------------------
# oracle on parameter sets (independent of the model)
# ------------------------------------------------------------------------------------------
ULP = 2.0 ** -52
UNDERFLOW = -745.0      # np.exp(x) == 0.0 for x < -745.13...


def _exp(x):
    """exp in doubles as numpy computes it: overflow gives inf instead of raising"""
    try:
        return math.exp(x)
    except OverflowError:
        return math.inf


def close_roundtrip(orig, got, nonneg):
    """`got` is `orig` after log -> exp in doubles"""
    if same(orig, got):
        return True
    if not nonneg or not (math.isfinite(orig) and orig > 0):
        return False
    if orig == 1.0:                       # N5, stated in roundtrip_at_one
        return abs(got - 1.0) <= 1e-10 * (1 + 1e-6)
    return abs(got - orig) <= (abs(math.log(orig)) + 4) * ULP * orig


def oracle_pset(ck, spec, route, order_expected):
    """C11 on the real code for one parameter set"""
    case = {"spec": spec_json(spec), "route": route, "op": "oracle"}
    by = {s["label"]: s for s in spec}
    with warnings.catch_warnings():
        warnings.simplefilter("ignore")
        ps = build(spec, route)
        ck.oracle_evals += 1
        order = [p.label for p in ps.all()]
        if order != order_expected:
            ck.violation("declaration-order", f"parameters enumerate as {order}, declared {order_expected}", case)
            return
        if "+defaults" in route and not oracle_defaults(ck, spec, route, ps, case):
            return
        # never handed over: fixed and expression parameters
        fl, fv, flo, fhi = ps.get_label_value_and_bounds_arrays(exclude_non_vary=True)
        want_free = [l for l in order if by[l]["vary"] and by[l]["expr"] is None]
        if list(fl) != want_free:
            extra = [l for l in fl if l not in want_free]
            key = "nonfree-handed-over" if extra else "free-labels-order"
            ck.violation(key, f"free labels {list(fl)}; varying non-expression parameters in declaration order "
                         f"are {want_free}", case)
            return
        if not (len(fl) == len(fv) == len(flo) == len(fhi)):
            ck.violation("array-lengths", "labels/values/bounds arrays differ in length", case)
            return
        # arrays positional: value/bounds of label i belong to parameter i
        for i, l in enumerate(fl):
            s = by[l]
            for name, arr, src in (("value", fv, s["value"]), ("lower", flo, s["min"]), ("upper", fhi, s["max"])):
                x = float(arr[i])
                if not s["nonneg"]:
                    okv = same(x, src)
                elif not math.isfinite(src):
                    okv = same(x, src)
                elif src > 0:
                    # at exactly 1 the statement (identity to rounding) is met by log 1 = 0 and, N5, by the
                    # code's guard log(1 + 1e-10); which of the two is the model's business, not the oracle's
                    ref = math.log(src)
                    okv = abs(x - ref) <= 4 * ULP * max(abs(ref), 1e-300) + (1e-10 + 1e-16 if src == 1.0 else 0)
                else:
                    okv = True            # log of a non-positive number: outside the statement
                if not okv:
                    ck.violation("array-entry-wrong-parameter" if name == "value" else "bound-not-transformed",
                                 f"{name} entry {i} ({x!r}) of the optimiser arrays does not belong to parameter "
                                 f"{l!r} ({name} {src!r}, non_negative={s['nonneg']})", case)
                    return
            if s["nonneg"] and all(math.isfinite(z) and z > 0 for z in (s["min"], s["max"])) \
                    and s["min"] <= s["max"] and not float(flo[i]) <= float(fhi[i]):
                ck.violation("bounds-order", f"transformed bounds of {l!r} are not ordered", case)
                return
        # round trip over everything and over the free ones
        for excl in (False, True):
            l, v, _, _ = ps.get_label_value_and_bounds_arrays(exclude_non_vary=excl)
            q = ps.copy()
            q.set_from_label_and_value_arrays(list(l), v)
            for p0, p1 in zip(ps.all(), q.all()):
                s = by[p0.label]
                if s["expr"] is not None:
                    if p1.expression != ast_str(s["expr"]) or p1.vary:
                        ck.violation("expression-definition-changed", f"{p0.label}: expression/vary changed by set", case)
                        return
                    continue
                listed = p0.label in l
                good = close_roundtrip(p0.value, p1.value, s["nonneg"]) if listed else same(p0.value, p1.value)
                if s["nonneg"] and not (math.isfinite(p0.value) and p0.value > 0):
                    good = True if listed else good      # outside the statement (non-positive value)
                if not good:
                    ck.violation("roundtrip" if listed else "unlisted-changed",
                                 f"{p0.label}: {p0.value!r} -> {p1.value!r} after arrays -> set "
                                 f"(exclude_non_vary={excl})", case)
                    return
        # arbitrary optimiser vector for the free ones: nothing else moves, non-negative ones are positive
        xs = np.asarray([ck.rng.uniform(-5, 5) for _ in fl])
        q = ps.copy()
        q.set_from_label_and_value_arrays(list(fl), xs)
        for p0, p1 in zip(ps.all(), q.all()):
            s = by[p0.label]
            if (p1.label, p1.minimum, p1.maximum, p1.non_negative, p1.vary, p1.expression) != \
                    (p0.label, p0.minimum, p0.maximum, p0.non_negative, p0.vary, p0.expression):
                ck.violation("definition-changed", f"{p0.label}: bounds/flags/expression changed by set", case)
                return
            if p0.label in fl:
                x = float(xs[list(fl).index(p0.label)])
                want = _exp(x) if s["nonneg"] else x
                if not (abs(p1.value - want) <= 4 * ULP * abs(want)) or (s["nonneg"] and not p1.value > 0):
                    ck.violation("from-optimizer-wrong", f"{p0.label}: optimiser value {x!r} became {p1.value!r}, "
                                 f"expected {want!r}", case)
                    return
            elif s["expr"] is None and not same(p0.value, p1.value):
                ck.violation("fixed-moved", f"fixed parameter {p0.label} moved {p0.value!r} -> {p1.value!r}", case)
                return
        # the selection follows the *current* flags of the same object: fix a free parameter / free a fixed one after
        # the arrays have been read once (a fit, then `p.vary = False`, then another fit on the same Parameters object)
        plain = [p for p in ps.all() if p.expression is None]
        if plain:
            for _ in range(2):
                p = ck.rng.choice(plain)
                p.vary = not p.vary
            want_free = [p.label for p in ps.all() if p.vary and p.expression is None]
            for excl, want in ((True, want_free), (False, [p.label for p in ps.all()])):
                l2 = list(ps.get_label_value_and_bounds_arrays(exclude_non_vary=excl)[0])
                if l2 != want:
                    ck.violation("stale-selection-after-flag-change", f"after changing `vary` on the same Parameters object "
                                 f"get_label_value_and_bounds_arrays(exclude_non_vary={excl}) gives {l2}, the varying "
                                 f"non-expression parameters are {want}", {**case, "flags_now": {p.label: p.vary for p in ps.all()}})
                    return
            ck.count("oracle:flags-changed-after-first-use")


def oracle_defaults(ck, spec, route, ps, case):
    """specification with group defaults: what reaches the optimiser is what was declared.  The options of a member are
    its own, the defaults of the group reach every member that does not set the key itself — so which parameters are
    free, their box and their transformation are those of `spec`, whatever the neighbours in the group say; parsing does
    not change the specification, and parsing it again gives the same set."""
    import copy
    kind, raw = raw_with_defaults(spec, route)
    case = {**case, "specification": show_raw(raw)}
    ck.count(f"defaults:{kind}")
    n_own = sum(1 for s in state_members(raw) if len(s) > 2 and s[2])
    ck.count("defaults:members-with-own-options:" + ("0" if n_own == 0 else "1" if n_own == 1 else "2+"))
    for p in ps.all():
        s = next(x for x in spec if x["label"] == p.label)
        declared_free = s["vary"] and s["expr"] is None
        if bool(p.vary) != declared_free:
            ck.violation("group-defaults:fixed-becomes-free" if p.vary else "group-defaults:free-becomes-fixed",
                         f"{p.label} is declared {'free' if declared_free else 'not free'} (own options + defaults of its "
                         f"group) but the parsed parameter has vary={p.vary}, expression={p.expression!r}", case)
            return False
        got = (float(p.minimum), float(p.maximum), bool(p.non_negative), p.expression)
        want = (s["min"], s["max"], s["nonneg"], None if s["expr"] is None else ast_str(s["expr"]))
        if not (same(got[0], want[0]) and same(got[1], want[1]) and got[2:] == want[2:]):
            ck.violation("group-defaults:box-not-as-declared",
                         f"{p.label}: (minimum, maximum, non_negative, expression) parsed as {got}, declared {want} "
                         f"(own options + defaults of its group)", case)
            return False
        if s["expr"] is None and not same(p.value, s["value"]):
            ck.violation("group-defaults:value-not-as-declared", f"{p.label}: value {p.value!r}, declared {s['value']!r}", case)
            return False
    # the caller's specification object: parsed twice
    pristine = copy.deepcopy(raw)
    first, second = state_of(parse_raw(kind, raw)), state_of(parse_raw(kind, raw))
    if states_equal(first, second) is not None:
        fl = [[s["label"] for s in st if s["vary"]] for st in (first, second)]
        ck.violation("group-defaults:reparse-differs", f"the same specification object parsed twice gives two parameter "
                     f"sets (free labels {fl[0]} then {fl[1]})", case)
        return False
    if show_raw(raw) != show_raw(pristine):
        ck.violation("group-defaults:specification-modified", "parsing modified the caller's specification "
                     f"(now {show_raw(raw)})", case)
        return False
    return True


def show_raw(raw):
    """the specification as strict JSON (non-finite numbers as text); the case replays from spec + route"""
    if isinstance(raw, dict):
        return {k: show_raw(v) for k, v in raw.items()}
    if isinstance(raw, list):
        return [show_raw(v) for v in raw]
    if isinstance(raw, float) and not math.isfinite(raw):
        return repr(raw)
    return raw


def state_members(raw):
    if isinstance(raw, dict):
        for v in raw.values():
            yield from state_members(v)
    else:
        yield from (it for it in raw if isinstance(it, list))


# ------------------------------------------------------------------------------------------
# real optimisations
# ------------------------------------------------------------------------------------------
METHODS = {"trf": "TrustRegionReflection", "dogbox": "Dogbox", "lm": "Levenberg-Marquardt"}


def gen_opt_case(rng):
    method = rng.choice(["trf", "dogbox", "lm"])
    nk = rng.choice([2, 2, 3])
    true = sorted([math.exp(rng.uniform(-3.5, 0.3)) for _ in range(nk)], reverse=True)
    for i in range(1, nk):
        if true[i] > true[i - 1] / 2.5:
            true[i] = true[i - 1] / rng.uniform(2.5, 5)
    klabels = rng.choice([["k.1", "k.2", "k.3"], ["rates.b", "rates.a", "z.1"], ["c", "b", "a"]])[:nk]
    spec = []
    expr_k = rng.random() < 0.3 and nk >= 2
    for i, (l, t) in enumerate(zip(klabels, true)):
        start = t * math.exp(rng.uniform(-0.5, 0.5))
        nonneg = rng.random() < 0.5
        lo, hi = -INF, INF
        if method != "lm":
            kind = rng.choice(["none", "loose", "tight", "outside-hi", "outside-lo", "lower", "at-bound", "one"])
            if kind == "loose":
                lo, hi = t / 10, t * 10
            elif kind == "tight":
                lo, hi = min(start, t) * 0.9, max(start, t) * 1.1
            elif kind == "outside-hi":          # the optimum lies above the box
                lo, hi = t / 20, t * 0.8
                start = t * rng.uniform(0.3, 0.8)
            elif kind == "outside-lo":
                lo, hi = t * 1.25, t * 20
                start = t * rng.uniform(1.25, 3)
            elif kind == "lower":
                lo = 0.0 if nonneg or rng.random() < 0.5 else t / 10
            elif kind == "at-bound":
                lo, hi = start, t * 10 if start < t * 10 else start * 2
            elif kind == "one" and nonneg:       # N5: a bound that is exactly 1
                if t > 1:
                    lo, hi, start = 1.0, t * 5, max(1.0, start)
                else:
                    lo, hi = t / 10, 1.0
                    start = min(start, 1.0)
        spec.append({"label": l, "value": start, "min": lo, "max": hi, "nonneg": nonneg, "vary": True, "expr": None,
                     "true": t})
    if rng.random() < 0.35:                    # one rate fixed at its true value
        i = rng.randrange(nk)
        spec[i].update(vary=False, value=spec[i]["true"] if rng.random() < 0.5 else spec[i]["value"],
                       min=-INF, max=INF)
    if expr_k:                                 # last rate defined by an expression of the first
        ratio = spec[-1]["true"] / spec[0]["true"]
        spec[-1].update(expr=["mul", ["ref", spec[0]["label"]], ["c", ratio]], vary=rng.random() < 0.5,
                        min=-INF, max=INF, nonneg=False)
    kin = [s["label"] for s in spec]
    extras = []
    if rng.random() < 0.7:
        extras.append({"label": "fix.1", "value": rng.choice([1.0, 0.1, 2.0, 5.0]), "min": -INF, "max": INF,
                       "nonneg": rng.random() < 0.7, "vary": False, "expr": None})
    if rng.random() < 0.5:
        extras.append({"label": "e.1", "value": 0.0, "min": -INF, "max": INF, "nonneg": False,
                       "vary": rng.random() < 0.5, "expr": ["add", ["mul", ["ref", kin[0]], ["c", 2.0]], ["c", 0.5]]})
    if rng.random() < 0.3 and method != "lm":
        extras.append({"label": "aa.unused", "value": 2.0, "min": 1.0, "max": 3.0, "nonneg": rng.random() < 0.5,
                       "vary": True, "expr": None})
    allp = spec + extras
    order = list(range(len(allp)))
    rng.shuffle(order)
    # an expression parameter must be declared after the parameter it refers to (C12's single pass)
    decl = [allp[i] for i in order]
    decl.sort(key=lambda s: s["expr"] is not None)
    if not any(s["vary"] and s["expr"] is None and s["label"] in kin for s in decl):
        decl[0 if decl[0]["label"] in kin else [d["label"] for d in decl].index(kin[0])].update(vary=True)
    case = {"method": method, "kinetic": kin, "true": [fj(s["true"]) for s in spec],
            "spec": spec_json([{k: v for k, v in s.items() if k != "true"} for s in decl]),
            "noise_seed": rng.randrange(2**31), "max_nfev": rng.choice([6, 10, 15]),
            "fail_at": rng.choice([2, 3, 5]) if rng.random() < 0.08 else 0}
    if rng.random() < 0.35:                    # start parameters written as a flat list with a defaults block
        case["route"] = f"list+defaults:{rng.randrange(10**6)}"
    return case


def run_opt_case(ck, case):
    """C11 on one real optimisation.  Everything is checked against the specification, by label."""
    from glotaran.optimization.optimize import optimize
    from glotaran.optimization.optimizer import Optimizer
    from glotaran.optimization.test.models import DecayModel
    from glotaran.parameter import Parameters
    from glotaran.project import Scheme
    from glotaran.simulation import simulate

    spec = spec_unjson(case["spec"])
    by = {s["label"]: s for s in spec}
    kin = case["kinetic"]
    payload = {"kind": "opt", **case}
    with warnings.catch_warnings():
        warnings.simplefilter("ignore")
        mdl = {"megacomplex": {"m1": {"type": "simple-kinetic-test-mc", "is_index_dependent": False}},
               "dataset": {"dataset1": {"megacomplex": ["m1"], "kinetic": kin}}}
        sim = {"megacomplex": {"m1": {"type": "simple-kinetic-test-mc", "is_index_dependent": False},
                               "m2": {"type": "simple-spectral-test-mc"}},
               "dataset": {"dataset1": {"megacomplex": ["m1"], "global_megacomplex": ["m2"], "kinetic": kin}}}
        wanted = Parameters.from_parameter_dict_list(
            [{"label": l, "value": jf(t)} for l, t in zip(kin, case["true"])])
        tmax = 4.0 / min(jf(t) for t in case["true"])
        ds = simulate(DecayModel(**sim), "dataset1", wanted,
                      {"global": np.asarray([1.0, 2.0, 3.0]), "model": np.linspace(0, tmax, 40)})
        rs = np.random.RandomState(case["noise_seed"])
        ds["data"] = ds.data + rs.normal(0, 1e-3, ds.data.shape)
        initial = build(spec, case.get("route", "dicts"))
        ck.count("opt:route:" + case.get("route", "dicts").split(":")[0])
        scheme = Scheme(model=DecayModel(**mdl), parameters=initial, data={"dataset1": ds},
                        maximum_number_function_evaluations=case["max_nfev"],
                        optimization_method=METHODS[case["method"]])
        # failure path of create_result (parameters restored from the history): one evaluation raises once
        from glotaran.optimization.optimization_group import OptimizationGroup
        orig_calc, calls = OptimizationGroup.calculate, [0]

        def calc(self, parameters):
            calls[0] += 1
            if calls[0] == case.get("fail_at", 0):
                raise RuntimeError("injected by the C11 harness")
            return orig_calc(self, parameters)

        try:
            if case.get("fail_at"):
                OptimizationGroup.calculate = calc
            result = optimize(scheme, verbose=False, raise_exception=False)
        except Exception as e:
            ck.count("opt:no-result:" + type(e).__name__)
            return None
        finally:
            OptimizationGroup.calculate = orig_calc
    ck.oracle_evals += 1
    ck.count(f"opt:{case['method']}:{'success' if result.success else 'failed'}")
    order = [s["label"] for s in spec]
    want_free = [l for l in order if by[l]["vary"] and by[l]["expr"] is None]

    def viol(key, what):
        ck.violation(key, what, payload)
        return result

    # --- one ordering
    if list(result.free_parameter_labels) != want_free:
        extra = [l for l in result.free_parameter_labels if l not in want_free]
        return viol("nonfree-handed-over" if extra else "free-labels-order",
                    f"free_parameter_labels {list(result.free_parameter_labels)}, expected {want_free}")
    n = len(want_free)
    opt = result.optimized_parameters
    hist = result.parameter_history
    # --- definitions and fixed values
    if [p.label for p in opt.all()] != order:
        return viol("declaration-order", "optimized_parameters enumerate in another order")
    for p in opt.all():
        s = by[p.label]
        e = None if s["expr"] is None else ast_str(s["expr"])
        if (float(p.minimum), float(p.maximum), p.non_negative, p.expression) != (s["min"], s["max"], s["nonneg"], e) \
                or p.vary != (s["vary"] and s["expr"] is None):
            return viol("definition-changed", f"{p.label}: bounds/flags/expression differ from the specification")
        if s["expr"] is None and not s["vary"]:
            okf = same(p.value, s["value"]) if result.success else close_roundtrip(s["value"], p.value, s["nonneg"])
            if not okf:
                return viol("fixed-moved", f"fixed parameter {p.label}: {s['value']!r} -> {p.value!r}")
            if not same(p.value, s["value"]):
                # unsuccessful run: create_result restores *all* parameters from the history, so a fixed
                # non-negative parameter goes through log -> exp (rounding, or 1e-10 at value 1): recorded
                ck.count("opt:fixed-nonneg-rounded-by-failure-path")
                ck.extra.setdefault("note_failure_path_rounds_fixed_nonneg", {
                    "label": p.label, "declared": s["value"].hex(), "in_result": float(p.value).hex(),
                    "meaning": "after a failed optimisation set_from_history(-2) rewrites every parameter; a fixed "
                               "non-negative one is mapped log -> exp and may change in the last bit (1e-10 at value 1). "
                               "Within 'to rounding'; not reported as a violation."})

    def in_box(label, v):
        s = by[label]
        tol_lo = tol_hi = 0.0
        if s["nonneg"]:
            if not v > 0:
                return "non-negative parameter is not positive"
            # the box is transported through log/exp: rounding of both, and N5 at a bound that is exactly 1
            tol_lo = (abs(math.log(s["min"])) + 4) * ULP * s["min"] if s["min"] > 0 and math.isfinite(s["min"]) else 0.0
            tol_hi = (abs(math.log(s["max"])) + 4) * ULP * s["max"] if s["max"] > 0 and math.isfinite(s["max"]) else 0.0
            if s["max"] == 1.0:
                tol_hi = 1e-10 * (1 + 1e-6)
        if v < s["min"] - tol_lo:
            return f"below minimum {s['min']!r}"
        if v > s["max"] + tol_hi:
            return f"above maximum {s['max']!r}"
        return None

    for l in want_free:
        if by[l]["nonneg"] and opt.get(l).value == 0.0 and not by[l]["min"] > 0 \
                and any(float(r[order.index(l) + 1]) < UNDERFLOW for r in hist.parameters):
            # the recorded finding (exp underflow of the optimiser value) reaching the result itself
            ck.violation("nonneg-underflow-to-zero", f"optimised non-negative {l} is exactly 0.0 (optimiser value below {UNDERFLOW})",
                         payload)
            ck.count("opt:nonneg-underflow-to-zero")
            continue
        why = in_box(l, opt.get(l).value)
        if why:
            return viol("result-outside-box", f"optimised {l} = {opt.get(l).value!r}: {why}")
    # --- history: labels, every recorded evaluation inside the box, fixed ones constant
    if list(hist.parameter_labels) != ["iteration"] + order:
        return viol("history-labels", f"history labels {list(hist.parameter_labels)}")
    rows = hist.parameters
    ck.count("opt:history-rows", len(rows))
    for ri, row in enumerate(rows):
        if len(row) != len(order) + 1:
            return viol("history-row-length", f"history row {ri} has {len(row)} entries")
        for l, x in zip(order, row[1:]):
            s = by[l]
            v = _exp(x) if s["nonneg"] else float(x)      # the mapping back, from the statement
            if s["expr"] is not None:
                continue
            if s["vary"]:
                if s["nonneg"] and v == 0.0 and x < UNDERFLOW and not s["min"] > 0:
                    # exp underflow: the recorded finding (fromOpt_pos_counterexample), not a new violation
                    ck.violation("nonneg-underflow-to-zero", f"history row {ri}: non-negative {l} is exactly 0.0 "
                                 f"(optimiser value {float(x)!r})", payload)
                    ck.count("opt:nonneg-underflow-to-zero")
                    continue
                why = in_box(l, v)
                if why:
                    return viol("iterate-outside-box", f"history row {ri}: {l} = {v!r}: {why}")
            elif not close_roundtrip(s["value"], v, s["nonneg"]):
                return viol("fixed-moved-in-history", f"history row {ri}: fixed {l} = {v!r}, declared {s['value']!r}")
    # first record = initial parameters, last record = result (mapped back)
    for ri, ref, name in ((0, initial, "initial parameters"), (len(rows) - 1, opt, "optimised parameters")):
        if not result.success and ri != 0:
            continue
        for l, x in zip(order, rows[ri][1:]):
            s = by[l]
            v = _exp(x) if s["nonneg"] else float(x)
            rv = ref.get(l).value
            if not (close_roundtrip(rv, v, s["nonneg"]) or abs(v - rv) <= 8 * ULP * abs(rv)):
                return viol("history-space", f"history row {ri} mapped back gives {l} = {v!r}, {name} have {rv!r}")
    # the library's own mapping back
    q = initial.copy()
    ri = ck.rng.randrange(len(rows))
    with warnings.catch_warnings():
        warnings.simplefilter("ignore")
        q.set_from_history(hist, ri)
    for l, x in zip(order, rows[ri][1:]):
        s = by[l]
        if s["expr"] is not None:
            continue
        v = _exp(x) if s["nonneg"] else float(x)
        if not (same(q.get(l).value, v) or abs(q.get(l).value - v) <= 4 * ULP * abs(v)):
            return viol("set-from-history", f"set_from_history(row {ri}) gives {l} = {q.get(l).value!r}, expected {v!r}")
    # the history of a real optimisation through its data frame: same records, same access
    h2 = type(hist).from_dataframe(hist.to_dataframe())
    if h2.number_of_records != len(rows) or len(h2) != len(rows) or [str(x) for x in h2.parameter_labels] != list(hist.parameter_labels) \
            or not all(same_list(a, b) for a, b in zip(rows, h2.parameters)) \
            or not same_list(h2.get_parameters(-1), rows[-1]) or not same_list(h2.get_parameters(0), rows[0]):
        return viol("history-dataframe", "ParameterHistory.from_dataframe(history.to_dataframe()) does not hold the records of the "
                    f"history ({len(rows)} records) under the same indices")
    if not result.success:
        return result
    # --- Jacobian / covariance / standard errors: same ordering
    jac = np.asarray(result.jacobian)
    cov = np.asarray(result.covariance_matrix)
    if jac.shape[1] != n or cov.shape != (n, n):
        return viol("shapes", f"jacobian {jac.shape}, covariance {cov.shape}, {n} free parameters")
    # column j is the derivative w.r.t. free parameter j (in optimiser space): finite differences by label
    o = Optimizer(scheme, verbose=False)

    def penalty(values_by_label):
        p = opt.copy()
        for l, v in values_by_label.items():
            p.get(l).value = v
        p.update_parameter_expression()
        o._parameters = p
        return np.asarray(o.calculate_penalty(), dtype=float)

    base = {l: opt.get(l).value for l in want_free}
    cols = []
    with warnings.catch_warnings():
        warnings.simplefilter("ignore")
        for l in want_free:
            h = 1e-6
            up, dn = dict(base), dict(base)
            if by[l]["nonneg"]:
                up[l], dn[l] = base[l] * math.exp(h), base[l] * math.exp(-h)
            else:
                hh = h * max(1.0, abs(base[l]))
                up[l], dn[l] = base[l] + hh, base[l] - hh
                h = hh
            cols.append((penalty(up) - penalty(dn)) / (2 * h))
    fd = np.stack(cols, axis=1)
    scale = max(np.linalg.norm(fd), np.linalg.norm(jac), 1e-300)
    for j, l in enumerate(want_free):
        err = np.linalg.norm(fd[:, j] - jac[:, j])
        others = [np.linalg.norm(fd[:, j] - jac[:, k]) for k in range(n) if k != j]
        if err > 2e-2 * scale and others and min(others) < err / 5:
            return viol("jacobian-column-order", f"Jacobian column {j} is not the derivative w.r.t. {l!r} "
                        "(it matches another free parameter)")
    # standard errors recomputed from result.jacobian, per label
    rmse = result.root_mean_square_error
    _, sv, rsv = np.linalg.svd(jac, full_matrices=False)
    # pseudo-inverse of J^T J over the numerical range of J (rank decided relative to the largest singular value, the
    # convention of numpy.linalg.matrix_rank; C13 states and checks the Penrose conditions — here only ordering matters)
    m = sv > np.finfo(float).eps * max(jac.shape) * (sv.max() if sv.size else 0.0)
    cov2 = (rsv[m].T / sv[m] ** 2) @ rsv[m]
    if not np.allclose(cov, cov2, rtol=1e-6, atol=1e-12 * max(1.0, np.abs(cov2).max())):
        return viol("covariance", "covariance_matrix is not pinv(J^T J) of result.jacobian")
    se = rmse * np.sqrt(np.diag(cov2))
    distinct = n >= 2 and (max(se) > 1.01 * min(se))
    ck.count("opt:stderr-distinct" if distinct else "opt:stderr-indistinct")
    def transformed(label, e):
        """what an optimiser-space error `e` means for this parameter (non-negative: mapped back)"""
        s_, v = by[label], opt.get(label).value
        if not s_["nonneg"]:
            return e
        lv = math.log(v + 1e-10) if v == 1.0 else math.log(v) if v > 0 else -INF     # v == 0: the recorded underflow
        return v * (math.exp(e) - 1.0) if e < abs(lv) else abs(v)

    def near(a, b):
        return abs(a - b) <= 1e-6 * abs(b) + 1e-300

    for j, l in enumerate(want_free):
        got = opt.get(l).standard_error
        if near(got, transformed(l, se[j])):
            continue
        # not the error of its own column: a violation of C11 when it is the error of another column
        # (ordering); otherwise only the formula differs, which the correspondence reports
        other = [k for k in range(n) if k != j and near(got, transformed(l, se[k]))]
        if other:
            return viol("standard-error-placement", f"standard_error of {l} ({got!r}) is the error of column "
                        f"{other[0]} of the Jacobian ({want_free[other[0]]}), not of its own column {j} "
                        f"({transformed(l, se[j])!r})")
        ck.diagnostic("standard error differs from rmse*sqrt(diag(cov)) (mapped back) of every column",
                      {"label": l, "got": repr(got), "own_column": repr(transformed(l, se[j]))})
        ck.count("opt:stderr-formula-differs")
    for p in opt.all():
        if p.label not in want_free and not (p.standard_error != p.standard_error):
            return viol("standard-error-on-nonfree", f"non-free parameter {p.label} got a standard error")
    return result


# ------------------------------------------------------------------------------------------
def pick_route(rng, spec):
    r = rng.random()
    if r < 0.2:
        return "list"
    if r < 0.4 and dict_route_ok(spec):
        return "dict"
    if r < 0.7:          # specification with group defaults + sparse member options
        kind = rng.choice(["dict", "dict", "yml"]) if dict_route_ok(spec) and rng.random() < 0.6 else "list"
        return f"{kind}+defaults:{rng.randrange(10**6)}"
    return "dicts"


def nested_route(route):
    return route == "dict" or route.startswith(("dict+defaults", "yml+defaults"))


def expected_order(spec, route):
    return dict_route_order(spec) if nested_route(route) else [s["label"] for s in spec]


def reorder(spec, route):
    if not nested_route(route):
        return spec
    by = {s["label"]: s for s in spec}
    return [by[l] for l in dict_route_order(spec)]


FIXED_SPECS = [
    # every non-negative special case of _log_value at once
    [{"label": "b.1", "value": 1.0, "min": 1.0, "max": 1.0, "nonneg": True, "vary": True, "expr": None},
     {"label": "a.1", "value": 1e300, "min": 0.0, "max": INF, "nonneg": True, "vary": True, "expr": None},
     {"label": "a.2", "value": 1e-300, "min": -1.0, "max": 1e-299, "nonneg": True, "vary": True, "expr": None},
     {"label": "c.1", "value": 0.1, "min": 0.1, "max": 0.1, "nonneg": True, "vary": False, "expr": None},
     {"label": "c.2", "value": -2.5, "min": -3.0, "max": -2.5, "nonneg": False, "vary": True, "expr": None},
     {"label": "c.3", "value": 0.0, "min": -INF, "max": INF, "nonneg": False, "vary": True,
      "expr": ["mul", ["ref", "c.2"], ["c", 2.0]]}],
]


def _p(label, value, lo=-INF, hi=INF, nonneg=False, vary=True, expr=None):
    return {"label": label, "value": value, "min": lo, "max": hi, "nonneg": nonneg, "vary": vary, "expr": expr}


def fixed_opt_cases():
    """always-run optimisations: the corners of the statement"""
    out = []
    for method in ("trf", "dogbox"):
        # N5: non-negative, maximum exactly 1, optimum above it -> the value ends at the bound (1 + 1e-10 allowed)
        out.append({"method": method, "kinetic": ["k.2", "k.1"], "true": [fj(1.5), fj(0.05)],
                    "spec": spec_json([_p("k.2", 0.8, 0.0, 1.0, nonneg=True), _p("fix.1", 1.0, nonneg=True, vary=False),
                                       _p("k.1", 0.08, 0.01, 0.5)]),
                    "noise_seed": 1, "max_nfev": 15, "fail_at": 0})
        # start on the lower bound, optimum below the box; fixed rate; expression parameter after its source
        out.append({"method": method, "kinetic": ["b", "a", "c"], "true": [fj(0.5), fj(0.1), fj(0.02)],
                    "spec": spec_json([_p("b", 0.7, 0.7, 2.0, nonneg=True), _p("a", 0.1, vary=False),
                                       _p("c", 0.0, expr=["mul", ["ref", "b"], ["c", 0.04]], vary=True)]),
                    "noise_seed": 2, "max_nfev": 10, "fail_at": 0})
    # lm: unbounded, non-negative and plain, unsorted labels, failure after two evaluations
    out.append({"method": "lm", "kinetic": ["rates.b", "rates.a"], "true": [fj(0.4), fj(0.03)],
                "spec": spec_json([_p("rates.b", 0.6, nonneg=True), _p("fix.1", 0.1, nonneg=True, vary=False),
                                   _p("rates.a", 0.05)]),
                "noise_seed": 3, "max_nfev": 10, "fail_at": 0})
    out.append({**out[-1], "fail_at": 3})
    return out


def typed_bounds_probe(ck):
    """Bounds given as Python ints (what `min: 2` in a yml file gives) for EVERY free parameter, some non-negative: the
    optimiser's box must be the logarithms / the bounds themselves, as floats.  (Round-2 seeded change C11-6: arrays built
    from the raw attributes were int64 when every free bound was an int, and the in-place log truncated.)"""
    from glotaran.parameter import Parameters
    rng = ck.rng
    for n in range(ck.n(40, 400)):
        k = rng.randint(1, 4)
        items, want = [], []
        for i in range(k):
            nn = rng.random() < 0.6
            lo = rng.choice([2, 3, 4, 7]) if nn else rng.choice([-5, -1, 0, 2])
            hi = lo + rng.choice([1, 3, 10])
            v = lo + (hi - lo) * rng.choice([0.25, 0.5, 0.75])
            items.append([f"p{i}", float(v), {"min": lo, "max": hi, "non-negative": nn}])
            want.append((math.log(lo), math.log(hi)) if nn else (float(lo), float(hi)))
        route = rng.choice(["list", "yml"])
        case = {"op": "typed-bounds", "items": items, "route": route}
        if route == "list":
            ps = Parameters.from_list(items)
        else:
            from glotaran.io import load_parameters
            txt = "\n".join(f"- [{it[0]}, {it[1]!r}, {{min: {it[2]['min']}, max: {it[2]['max']}, non-negative: {str(it[2]['non-negative']).lower()}}}]" for it in items)
            ps = load_parameters(txt, format_name="yml_str")
        ck.oracle_evals += 1
        ck.count("probe:int-typed-bounds")
        ck.case(("typed-bounds", json.dumps(case, sort_keys=True)), True)
        _, _, flo, fhi = ps.get_label_value_and_bounds_arrays(exclude_non_vary=True)
        for i, (wl, wh) in enumerate(want):
            if not (abs(float(flo[i]) - wl) <= 4 * ULP * max(abs(wl), 1.0) and abs(float(fhi[i]) - wh) <= 4 * ULP * max(abs(wh), 1.0)):
                ck.violation("bound-not-transformed:int-typed-bounds", f"optimiser box of p{i} is [{float(flo[i])!r}, {float(fhi[i])!r}], "
                             f"the (log-)bounds are [{wl!r}, {wh!r}]", case)
                return


def expression_chain_probe(ck):
    """"parameters defined by an expression keep their definition": after the optimiser sets the free values, an expression
    parameter equals its expression on the current values — also when it is declared before the expression parameter it
    refers to and the step is as small as a finite-difference step or the values are tiny.  (The full property is C12's;
    this probe keeps the clause inside C11.  Round-2 seeded change C11-4: the re-evaluation loop stopped on np.isclose.)"""
    from glotaran.parameter import Parameters
    rng = ck.rng
    for n in range(ck.n(30, 300)):
        scale = rng.choice([1.0, 1.0, 2.0 ** -30, 2.0 ** 10])
        b0 = scale * rng.choice([0.5, 1.0, 3.0])
        fa, fm = rng.choice([2.0, 3.0, 0.5]), rng.choice([2.0, 4.0, 0.25])
        items = [["fast", 0.0, {"expr": f"{fa}*$mid"}], ["mid", 0.0, {"expr": f"$b*{fm}"}], ["b", b0]]
        if rng.random() < 0.5:
            items.insert(0, ["top", 0.0, {"expr": "$fast + $mid"}])
        ps = Parameters.from_list(items)
        step = rng.choice([1.0 + 2.0 ** -26, 1.0 + 2.0 ** -20, 2.0, 1.0 - 2.0 ** -27])
        seq = [b0 * step, b0 * step * step, b0]
        case = {"op": "expression-chain", "items": items, "values_of_b": seq}
        ck.oracle_evals += 1
        ck.count("probe:expression-chain")
        ck.case(("expression-chain", json.dumps(case, sort_keys=True)), True)
        for v in seq:
            ps.set_from_label_and_value_arrays(["b"], np.array([v]))
            mid = v * fm
            fast = fa * mid
            got = {l: ps.get(l).value for l in ("mid", "fast")}
            if got["mid"] != mid or got["fast"] != fast or ("top" in ps.labels and ps.get("top").value != fast + mid):
                ck.violation("expression-stale-after-set", f"after set b = {v!r}: mid = {got['mid']!r} (expression gives {mid!r}), "
                             f"fast = {got['fast']!r} (expression gives {fast!r})", case)
                return


def start_outside_box_probe(ck):
    """The constructor accepts a start value outside [minimum, maximum] (and a reversed box) — theorem
    start_value_handed_over_unvalidated.  What the statement needs: such a start is never *optimised* outside the box.  Observed:
    scipy refuses x0 (`x0 is infeasible`), no evaluation takes place and create_result raises InitialParameterError.  A result
    whose recorded iterates or optimum lie outside the box would be a violation."""
    from glotaran.optimization.optimize import optimize
    from glotaran.optimization.test.models import DecayModel
    from glotaran.parameter import Parameters
    from glotaran.project import Scheme
    from glotaran.simulation import simulate
    rng = ck.rng
    kin = ["k.1", "k.2"]
    mdl = {"megacomplex": {"m1": {"type": "simple-kinetic-test-mc", "is_index_dependent": False}},
           "dataset": {"dataset1": {"megacomplex": ["m1"], "kinetic": kin}}}
    sim = {"megacomplex": {"m1": {"type": "simple-kinetic-test-mc", "is_index_dependent": False},
                           "m2": {"type": "simple-spectral-test-mc"}},
           "dataset": {"dataset1": {"megacomplex": ["m1"], "global_megacomplex": ["m2"], "kinetic": kin}}}
    wanted = Parameters.from_parameter_dict_list([{"label": "k.1", "value": 0.5}, {"label": "k.2", "value": 0.05}])
    ds = simulate(DecayModel(**sim), "dataset1", wanted, {"global": np.asarray([1.0, 2.0, 3.0]), "model": np.linspace(0, 80, 40)})
    for _ in range(ck.n(12, 120)):
        method = rng.choice(["trf", "dogbox"])
        nn = rng.random() < 0.5
        kind = rng.choice(["above", "below", "reversed"])
        lo, hi = 0.1, 0.6
        v = {"above": hi * rng.uniform(1.01, 3), "below": lo * rng.uniform(0.1, 0.99), "reversed": rng.uniform(lo, hi)}[kind]
        if kind == "reversed":
            lo, hi = hi, lo
        case = {"op": "start-outside-box", "method": method, "nonneg": nn, "value": fj(v), "min": fj(lo), "max": fj(hi)}
        ck.case(("start-outside-box", json.dumps(case, sort_keys=True)), True)
        ck.oracle_evals += 1
        init = Parameters.from_parameter_dict_list([{"label": "k.1", "value": v, "minimum": lo, "maximum": hi, "non_negative": nn},
                                                    {"label": "k.2", "value": 0.06}])
        scheme = Scheme(model=DecayModel(**mdl), parameters=init, data={"dataset1": ds}, maximum_number_function_evaluations=5,
                        optimization_method=METHODS[method])
        try:
            result = optimize(scheme, verbose=False, raise_exception=False)
        except Exception as e:
            ck.count(f"start-outside-box:{kind}:refused:{type(e).__name__}")
            continue
        ck.count(f"start-outside-box:{kind}:result")
        vals = [result.optimized_parameters.get("k.1").value]
        idx = list(result.parameter_history.parameter_labels).index("k.1")
        vals += [(_exp(row[idx]) if nn else float(row[idx])) for row in result.parameter_history.parameters[1:]]
        bad = [x for x in vals if not (min(lo, hi) * (1 - 1e-12) <= x <= max(lo, hi) * (1 + 1e-12))]
        if kind == "reversed" or bad:
            ck.violation("start-outside-box-optimised", f"an optimisation started at {v!r} outside / with the reversed box [{lo!r}, {hi!r}] "
                         f"produced a result with k.1 values {vals[:4]}", case)
            return


def run(ck):
    te = TermEval()
    jobs_all = []
    with warnings.catch_warnings():
        warnings.simplefilter("ignore")
        typed_bounds_probe(ck)
        expression_chain_probe(ck)
        start_outside_box_probe(ck)
    specs = [(s, "dicts") for s in FIXED_SPECS]
    for c in core.load_corpus(PROP):
        if c.get("kind") == "opt":
            run_opt_case(ck, c)
        elif "spec" in c:
            specs.append((spec_unjson(c["spec"]), c.get("route", "dicts")))
    for _ in range(ck.n(700, 6000)):
        spec = gen_spec(ck.rng)
        route = pick_route(ck.rng, spec)
        specs.append((reorder(spec, route), route))
    specs_done = []
    for spec, route in specs:
        order = [s["label"] for s in spec]
        oracle_pset(ck, spec, route, order)
        jobs, ps, state = jobs_for(ck, spec, route)
        jobs_all += jobs
        if len(specs_done) < ck.n(200, 2500):        # look-up / copy / equality / history stream on the first sets
            specs_done.append(1)
            ex = extra_jobs(ck, spec, route)
            jobs_all += ex
            jobs += ex
        kinds = {("free" if s["vary"] and s["expr"] is None else "expr" if s["expr"] else "fixed") for s in spec}
        nontrivial = len(kinds) > 1 or any(s["nonneg"] for s in spec)
        for j in jobs:
            ck.case((j.line,), nontrivial)
        ck.count(f"route:{route.split(':')[0]}")
        ck.count(f"size:{len(spec)}")
        for s in spec:
            ck.count("param:" + ("expr" if s["expr"] else "free" if s["vary"] else "fixed")
                     + ("+nonneg" if s["nonneg"] else "")
                     + ("+bounded" if math.isfinite(s["min"]) or math.isfinite(s["max"]) else ""))
            if s["nonneg"] and s["value"] == 1.0:
                ck.count("branch:log_value-at-1")
            if not math.isfinite(s["value"]):
                ck.count("branch:nonfinite-value")
    compare_jobs(ck, jobs_all, te)
    ck.extra["term_evaluation"] = {"operations": te.ops, "max_rel_diff_numpy_vs_mpmath": te.max_rel,
                                   "note": "doubles compared for equality with the implementation; mpmath shadow "
                                           "evaluation of the same term (cancellation in exp(err)-1 included)"}
    # the largest difference (8e-8) is log(1 + 1e-10): the double 1 + 1e-10 is rounded, the shadow is not
    if te.max_rel > 1e-6:
        ck.diagnostic("numpy vs mpmath evaluation of model terms differ", {"max_rel": te.max_rel})
    # real optimisations
    for case in fixed_opt_cases():
        ck.case(("opt", repr(case)), True)
        if run_opt_case(ck, case) is None:
            ck.diagnostic("an always-run optimisation case produced no result", {"case": case})
    for _ in range(ck.n(300, 2500)):
        case = gen_opt_case(ck.rng)
        ck.case(("opt", repr(case)), True)
        run_opt_case(ck, case)
    underflow_witness(ck)
    note_negative_minimum(ck)
    ck.sample({"spec": spec_json(FIXED_SPECS[0]), "ops": "create, arrays(T/F), 3x set, objective+history, "
               "set_from_history, standard errors"})
    ck.sample({"optimisation": gen_opt_case(ck.rng)})


def underflow_witness(ck):
    """the counter-example of `fromOpt_pos_counterexample` on the real code: the optimiser's range for a
    non-negative parameter without positive minimum reaches down to -inf, and there the value is 0"""
    from glotaran.parameter import Parameters
    with warnings.catch_warnings():
        warnings.simplefilter("ignore")
        ps = Parameters.from_parameter_dict_list([{"label": "k", "value": 0.5, "non_negative": True, "minimum": 0.0}])
        _, _, lo, _ = ps.get_label_value_and_bounds_arrays(exclude_non_vary=True)
        for x in (-800.0, -INF):
            q = ps.copy()
            q.set_from_label_and_value_arrays(["k"], np.asarray([x]))
            ck.oracle_evals += 1
            if float(lo[0]) <= x and not q.get("k").value > 0:
                ck.violation("nonneg-underflow-to-zero", f"optimiser value {x!r} lies inside the box handed to scipy "
                             f"(lower bound {float(lo[0])!r}) and gives the non-negative parameter the value "
                             f"{q.get('k').value!r}", {"spec": spec_json([_p("k", 0.5, 0.0, INF, nonneg=True)]),
                                                        "route": "dicts", "op": "underflow-witness", "x": fj(x)})


def note_negative_minimum(ck):
    """recorded, not a violation of C11: non-negative + finite negative minimum -> nan lower bound"""
    from glotaran.parameter import Parameters
    with warnings.catch_warnings():
        warnings.simplefilter("ignore")
        ps = Parameters.from_parameter_dict_list([{"label": "k", "value": 0.5, "non_negative": True, "minimum": -1.0}])
        _, _, lo, _ = ps.get_label_value_and_bounds_arrays(exclude_non_vary=True)
    ck.extra["note_nonneg_negative_minimum"] = {
        "lower_bound_handed_to_scipy": repr(float(lo[0])),
        "meaning": "non_negative with a finite minimum < 0 yields log(min) = nan; least_squares answers "
                   "'x0 is infeasible' and no optimisation takes place (no iterate exists, so C11 is not "
                   "violated; theorems state 0 < lo). minimum = 0 yields -inf, which is correct.",
    }


def search(ck):
    """widened oracle-only sweep on the real code"""
    warnings.simplefilter("ignore")
    for i in range(ck.n(1500, 8000)):
        spec = gen_spec(ck.rng)
        route = pick_route(ck.rng, spec)
        spec = reorder(spec, route)
        oracle_pset(ck, spec, route, [s["label"] for s in spec])
        if i < ck.n(300, 3000):
            extra_jobs(ck, spec, route)          # look-up / copy / equality / history oracles (the jobs are not needed here)
        if ck.violations:
            return
    for i in range(ck.n(250, 1500)):
        run_opt_case(ck, gen_opt_case(ck.rng))
        if ck.violations:
            return


def replay(ck, case):
    warnings.simplefilter("ignore")
    te = TermEval()
    items = [d["case"] for d in case.get("disagreements", [])] or [case.get("case", case)]
    for c in items:
        if c.get("kind") == "opt":
            run_opt_case(ck, c)
            print("optimisation replayed:", "VIOLATION " + ck.violations[0]["what"] if ck.violations else
                  "known finding re-derived" if ck.known_hits else "property holds")
            continue
        if c.get("op") == "underflow-witness":
            underflow_witness(ck)
            continue
        if c.get("op") == "start-outside-box":
            ck.rng.seed(f"{PROP}:{case.get('seed', 0)}")
            typed_bounds_probe(ck)
            expression_chain_probe(ck)
            start_outside_box_probe(ck)
            continue
        if c.get("op") in ("typed-bounds", "expression-chain"):
            # the probes are self-contained streams: re-run them (the recorded input is among what they generate for this seed)
            ck.rng.seed(f"{PROP}:{case.get('seed', 0)}")
            typed_bounds_probe(ck)
            expression_chain_probe(ck)
            continue
        spec = spec_unjson(c["spec"])
        route = c.get("route", "dicts")
        oracle_pset(ck, spec, route, [s["label"] for s in spec])
        jobs, _, _ = jobs_for(ck, spec, route, ops_json=c.get("ops"))
        jobs += extra_jobs(ck, spec, route)
        compare_jobs(ck, jobs, te)
    for d in ck.disagreements:
        print("DISAGREEMENT", d["what"])
    for v in ck.violations:
        print("VIOLATION-DETAIL", v["what"])
