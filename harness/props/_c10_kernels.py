"""C10 helper: extractor of the `Kernels` table (DESIGN §5.2).

For every function of glotaran (tests excluded) that carries a numba jit decorator (`@nb.jit`, `@nb.njit`, `@jit`,
`@njit`, `@numba.jit`, … with or without arguments) the table holds: the `parallel=` flag, the parameter names, every
array access (`name[subscripts]`, load or store, augmented assignments give both) with its subscripts (bare name /
`:` / other expression) and the enclosing `for` loops (variable, is the iterator a `prange` call), every assignment
to a plain name inside a loop when that name lives across iterations (assigned outside the loop too, a parameter, a
loop variable, or the target of an augmented assignment) — recorded as a write access with no subscripts —, and every
call of another kernel with the views (`name` or `name[subscripts]`) it passes.

Pure `ast`; nothing is imported from glotaran.
"""
from __future__ import annotations

import ast
import hashlib
from pathlib import Path

JIT_NAMES = {"jit", "njit"}


def _decorator_info(dec):
    """returns None if not a numba jit decorator, else {'parallel': bool}"""
    call = dec if isinstance(dec, ast.Call) else None
    f = dec.func if call else dec
    name = f.attr if isinstance(f, ast.Attribute) else (f.id if isinstance(f, ast.Name) else None)
    if name not in JIT_NAMES:
        return None
    if isinstance(f, ast.Attribute):
        base = f.value
        if not (isinstance(base, ast.Name) and base.id in ("nb", "numba")):
            return None
    parallel = False
    if call:
        for kw in call.keywords:
            if kw.arg == "parallel":
                parallel = isinstance(kw.value, ast.Constant) and kw.value.value is True
                if not isinstance(kw.value, ast.Constant):
                    parallel = True      # not a literal: assume the worst
    return {"parallel": parallel}


def _is_prange(it):
    if not isinstance(it, ast.Call):
        return False
    f = it.func
    name = f.attr if isinstance(f, ast.Attribute) else (f.id if isinstance(f, ast.Name) else None)
    return name == "prange"


def _idx_list(sl):
    items = sl.elts if isinstance(sl, ast.Tuple) else [sl]
    out = []
    for it in items:
        if isinstance(it, ast.Name):
            out.append(("var", it.id))
        elif isinstance(it, ast.Slice) and it.lower is None and it.upper is None and it.step is None:
            out.append(("slice", ""))
        else:
            out.append(("other", ast.unparse(it)))
    return out


def _view(node):
    """`name` or `name[...]...` -> (name, subscripts) else None"""
    subs = []
    while isinstance(node, ast.Subscript):
        subs = _idx_list(node.slice) + subs
        node = node.value
    if isinstance(node, ast.Name):
        return node.id, subs
    return None


def _target_names(t):
    if isinstance(t, ast.Name):
        return [t.id]
    if isinstance(t, (ast.Tuple, ast.List)):
        return [n for e in t.elts for n in _target_names(e)]
    if isinstance(t, ast.Starred):
        return _target_names(t.value)
    return []


class _KernelVisitor:
    def __init__(self, fn: ast.FunctionDef, kernel_names: set[str]):
        self.fn = fn
        self.kernel_names = kernel_names
        self.params = [a.arg for a in fn.args.posonlyargs + fn.args.args + fn.args.kwonlyargs]
        self.accesses = []
        self.calls = []
        # names assigned outside every loop (function level), incl. parameters
        self.outer = set(self.params)
        for st in fn.body:
            self._collect_outer(st)
        self._block(fn.body, [])

    def _collect_outer(self, st):
        if isinstance(st, (ast.For, ast.While)):
            return
        if isinstance(st, ast.Assign):
            for t in st.targets:
                self.outer.update(_target_names(t))
        elif isinstance(st, (ast.AugAssign, ast.AnnAssign)):
            self.outer.update(_target_names(st.target))
        elif isinstance(st, (ast.If, ast.With)):
            for b in (st.body, getattr(st, "orelse", [])):
                for s in b:
                    self._collect_outer(s)

    # -- statements ---------------------------------------------------------------------
    def _block(self, body, loops):
        for st in body:
            self._stmt(st, loops)

    def _scalar_write(self, name, loops, aug):
        if not loops:
            return
        loopvars = {v for l in loops for v in l["var"].split(",")}
        if aug or name in self.outer or name in loopvars:
            self.accesses.append({"array": name, "idx": [], "write": True, "loops": list(loops)})

    def _store(self, target, loops, aug=False):
        if isinstance(target, ast.Subscript):
            v = _view(target)
            if v is not None:
                self.accesses.append({"array": v[0], "idx": v[1], "write": True, "loops": list(loops)})
                if aug:
                    self.accesses.append({"array": v[0], "idx": v[1], "write": False, "loops": list(loops)})
            self._expr(target.slice, loops)
        elif isinstance(target, ast.Name):
            self._scalar_write(target.id, loops, aug)
        elif isinstance(target, (ast.Tuple, ast.List)):
            for e in target.elts:
                self._store(e, loops, aug)
        elif isinstance(target, ast.Attribute):
            # attribute store on an object: an access to that object as a whole
            v = _view(target.value)
            if v is not None:
                self.accesses.append({"array": v[0], "idx": [("other", "." + target.attr)], "write": True, "loops": list(loops)})

    def _stmt(self, st, loops):
        if isinstance(st, ast.For):
            names = _target_names(st.target)
            for n in names:
                self._scalar_write(n, loops, False)
            self._expr(st.iter, loops)
            loop = {"var": ",".join(names), "prange": _is_prange(st.iter)}
            self._block(st.body, loops + [loop])
            self._block(st.orelse, loops)
        elif isinstance(st, ast.While):
            self._expr(st.test, loops)
            self._block(st.body, loops + [{"var": "<while>", "prange": False}])
        elif isinstance(st, ast.If):
            self._expr(st.test, loops)
            self._block(st.body, loops)
            self._block(st.orelse, loops)
        elif isinstance(st, ast.Assign):
            self._expr(st.value, loops)
            for t in st.targets:
                self._store(t, loops)
        elif isinstance(st, ast.AugAssign):
            self._expr(st.value, loops)
            self._store(st.target, loops, aug=True)
        elif isinstance(st, ast.AnnAssign):
            if st.value is not None:
                self._expr(st.value, loops)
                self._store(st.target, loops)
        elif isinstance(st, (ast.Expr, ast.Return)):
            if st.value is not None:
                self._expr(st.value, loops)
        elif isinstance(st, ast.With):
            for it in st.items:
                self._expr(it.context_expr, loops)
            self._block(st.body, loops)
        else:
            for ch in ast.iter_child_nodes(st):
                if isinstance(ch, ast.expr):
                    self._expr(ch, loops)
                elif isinstance(ch, ast.stmt):
                    self._stmt(ch, loops)

    # -- expressions --------------------------------------------------------------------
    def _expr(self, e, loops):
        if e is None:
            return
        if isinstance(e, ast.Subscript):
            v = _view(e)
            if v is not None:
                self.accesses.append({"array": v[0], "idx": v[1], "write": False, "loops": list(loops)})
            node = e
            while isinstance(node, ast.Subscript):
                self._expr(node.slice, loops)
                node = node.value
            if not isinstance(node, ast.Name):
                self._expr(node, loops)
            return
        if isinstance(e, ast.Call):
            f = e.func
            fname = f.id if isinstance(f, ast.Name) else None
            if fname in self.kernel_names:
                args = []
                for a in e.args:
                    v = _view(a)
                    args.append(None if v is None else {"array": v[0], "pre": v[1]})
                self.calls.append({"callee": fname, "args": args, "loops": list(loops),
                                   "keywords": {kw.arg: _view(kw.value) for kw in e.keywords if kw.arg}})
            else:
                self._expr(f, loops)
            for a in e.args:
                self._expr(a, loops)
            for kw in e.keywords:
                self._expr(kw.value, loops)
            return
        for ch in ast.iter_child_nodes(e):
            if isinstance(ch, ast.expr):
                self._expr(ch, loops)
            elif isinstance(ch, ast.comprehension):
                self._expr(ch.iter, loops)
                for c in ch.ifs:
                    self._expr(c, loops)


def extract(repo: Path):
    """returns (kernels, sources) ; kernels sorted by (file, name)"""
    root = repo / "glotaran"
    found = []
    for f in sorted(root.rglob("*.py")):
        rel = f.relative_to(repo)
        if "test" in rel.parts or "tests" in rel.parts or rel.name.startswith("test_"):
            continue
        src = f.read_text()
        if "jit" not in src:
            continue
        tree = ast.parse(src)
        funcs = {n.name: n for n in ast.walk(tree) if isinstance(n, (ast.FunctionDef, ast.AsyncFunctionDef))}
        for node in ast.walk(tree):
            if isinstance(node, (ast.FunctionDef, ast.AsyncFunctionDef)):
                infos = [i for i in map(_decorator_info, node.decorator_list) if i is not None]
                if infos:
                    found.append((str(rel), node, infos[0], hashlib.sha1(ast.dump(node).encode()).hexdigest()))
            # call form: `name = nb.jit(...)(plain_function)` compiles `plain_function` under the name `name`
            if isinstance(node, ast.Assign) and isinstance(node.value, ast.Call) and len(node.value.args) == 1 \
                    and isinstance(node.value.args[0], ast.Name) and node.value.args[0].id in funcs:
                info = _decorator_info(node.value.func)
                if info is not None:
                    import copy as _copy
                    for tgt in node.targets:
                        if isinstance(tgt, ast.Name):
                            clone = _copy.deepcopy(funcs[node.value.args[0].id])
                            clone.name = tgt.id
                            clone.lineno = node.lineno
                            found.append((str(rel), clone, info, hashlib.sha1(ast.dump(clone).encode()).hexdigest()))
    names = {n.name for _, n, _, _ in found}
    kernels = []
    for rel, node, info, h in found:
        v = _KernelVisitor(node, names)
        kernels.append({"name": node.name, "file": rel, "parallel": info["parallel"], "params": v.params,
                        "accesses": v.accesses, "calls": v.calls, "ast_sha1": h, "lineno": node.lineno})
    # keyword arguments of kernel calls -> positions of the callee's parameters
    by_name = {k["name"]: k for k in kernels}
    for k in kernels:
        for c in k["calls"]:
            callee = by_name.get(c["callee"])
            kws = c.pop("keywords")
            if callee is not None and kws:
                args = list(c["args"]) + [None] * (len(callee["params"]) - len(c["args"]))
                for name, view in kws.items():
                    if name in callee["params"]:
                        args[callee["params"].index(name)] = None if view is None else {"array": view[0], "pre": view[1]}
                c["args"] = args
    kernels.sort(key=lambda k: (k["file"], k["name"]))
    return kernels


# ---------------------------------------------------------------------------------------------------
# Lean rendering
# ---------------------------------------------------------------------------------------------------
def _s(x: str) -> str:
    return '"' + x.replace("\\", "\\\\").replace('"', '\\"').replace("\n", "\\n") + '"'


def _idx(i):
    kind, v = i
    if kind == "var":
        return f".var {_s(v)}"
    if kind == "slice":
        return ".slice"
    return f".other {_s(v)}"


def _loops(ls):
    return "[" + ", ".join(f"⟨{_s(l['var'])}, {'true' if l['prange'] else 'false'}⟩" for l in ls) + "]"


def _idxs(xs):
    return "[" + ", ".join(_idx(i) for i in xs) + "]"


def render_lean(kernels) -> str:
    out = [
        "/-",
        "GENERATED by harness/props/c10.py (generate) from the source of VERIF_REPO — do not edit.",
        "Kernels table of C10: every function with a numba jit decorator; loop nests, array accesses, calls.",
        "-/",
        "import GlotaranModel.C10Kernels",
        "namespace Glotaran.C10.Generated",
        "",
    ]
    names = []
    for k in kernels:
        ident = "k_" + k["name"]
        names.append(ident)
        out.append(f"/-- {k['file']}:{k['lineno']} -/")
        out.append(f"def {ident} : Kernel where")
        out.append(f"  name := {_s(k['name'])}")
        out.append(f"  file := {_s(k['file'])}")
        out.append(f"  parallel := {'true' if k['parallel'] else 'false'}")
        out.append("  params := [" + ", ".join(_s(p) for p in k["params"]) + "]")
        out.append("  accesses := [")
        rows = [f"    ⟨{_s(a['array'])}, {_idxs(a['idx'])}, {'true' if a['write'] else 'false'}, {_loops(a['loops'])}⟩"
                for a in k["accesses"]]
        out.append(",\n".join(rows))
        out.append("  ]")
        out.append("  calls := [")
        rows = []
        for c in k["calls"]:
            args = ", ".join("none" if a is None else f"some ⟨{_s(a['array'])}, {_idxs(a['pre'])}⟩" for a in c["args"])
            rows.append(f"    ⟨{_s(c['callee'])}, [{args}], {_loops(c['loops'])}⟩")
        out.append(",\n".join(rows))
        out.append("  ]")
        out.append("")
    out.append("/-- all kernels, sorted by file and name -/")
    out.append("def kernels : List Kernel := [" + ", ".join(names) + "]")
    out.append("")
    out.append("end Glotaran.C10.Generated")
    return "\n".join(out) + "\n"



def live_dispatchers():
    """every numba dispatcher object reachable as a module attribute of glotaran (whatever syntax created it):
    [(module, attribute name, python function name, parallel flag)] — the cross-check of the source extractor"""
    import importlib
    import pkgutil
    import glotaran
    out = []
    try:
        from numba.core.dispatcher import Dispatcher
    except Exception:  # noqa: BLE001
        return out
    for m in pkgutil.walk_packages(glotaran.__path__, "glotaran."):
        if ".test" in m.name or m.name.endswith(".conftest") or m.name.startswith(("glotaran.cli", "glotaran.deprecation")):
            continue
        try:
            mod = importlib.import_module(m.name)
        except Exception:  # noqa: BLE001
            continue
        for attr, obj in vars(mod).items():
            if isinstance(obj, Dispatcher) and getattr(obj.py_func, "__module__", None) == mod.__name__:
                out.append((mod.__name__, attr, obj.py_func.__name__, bool(obj.targetoptions.get("parallel", False))))
    return sorted(set(out))
