"""C01 — the linear sub-problem is solved optimally (variable projection and NNLS).

Real code (in-process, from VERIF_REPO):
    glotaran.optimization.variable_projection.residual_variable_projection(matrix, data)
    glotaran.optimization.nnls.residual_nnls(matrix, data)
    glotaran.optimization.estimation_provider.SUPPORTED_RESIUDAL_FUNCTIONS / EstimationProvider
    glotaran.optimization.optimize.optimize on one-dataset schemes (Result.data[label].clp / .residual)

Model (lean/GlotaranModel/C01.lean, exact rationals): the steps of residual_variable_projection on LAPACK's
compact Householder factorisation (qr, tau) — a parameter; residual_nnls (normalisation by data / column
magnitudes, solver as a parameter, scaling back, residual); the dispatch table regenerated from the source.  Three ties:
  E  exact regime: matrices with an exactly representable (dyadic) Householder factorisation built here;
     the driver checks `isQRof`/`diagNonzero` exactly, so the theorems apply literally to its answer, which
     is compared with what the real code returns for the same matrix;
  R  tolerance regime: arbitrary matrices (condition numbers up to 1e10, scales 1e-150..1e150); the driver
     runs the modelled steps exactly on the (qr, tau) LAPACK returns, solves the normal equations / the KKT
     system exactly, and evaluates the optimality certificates of the implementation's *float outputs* in
     exact arithmetic; tolerances are fixed multiples of machine epsilon (below);
  D  dispatch: table, EstimationProvider, optimize();
  G  translator: the statements of both kernels are regenerated from their source text on every run
     (harness/props/_c01_steps.py -> lean/GlotaranModel/Generated/C01Steps.lean); the interpreter of that table
     (lean/GlotaranModel/C01Steps.lean) is proved equal to the hand-written model (generated_*_eq_model) and is also run by the
     driver (`gen-vp`, `gen-nnls-on`, `gen-nnls`) next to the hand model and the real kernels;
  P  provider glue (harness/props/_c01_provider.py): weights, index-dependent matrices, constraint reduction, labels, default key.
Oracle (independent of the model, numpy long double): residual == data - matrix @ clp, orthogonality / KKT,
and a competitor search (SVD least squares, all 2^n support solutions, coordinate and random perturbations).
"""
from __future__ import annotations

import ast
import hashlib
import inspect
import json
import math
import warnings
from fractions import Fraction
from types import SimpleNamespace

import numpy as np

from harness import core
from harness.props import _c01_steps

PROP = "C01"
REQUIRED_THEOREMS = [
    "ls_optimal_of_orthogonal", "ls_orthogonal_of_optimal", "ls_unique_of_full_rank",
    "nnls_optimal_of_kkt", "nnls_kkt_of_optimal", "nnls_unique_of_full_rank", "ls_near_optimal",
    "isNormalSol_optimal", "isKKT_optimal", "isKKT_nonneg",
    "vp_residual_eq", "vp_orthogonal", "vp_optimal",
    "nnls_residual_eq", "nnls_optimal_partial", "nnls_optimal_counterexample",
    "lsExact_optimal", "nnlsExact_optimal",
    "cert_near_optimal", "cert_defect_zero_iff",
    "dispatch_table", "dispatch_table_modelled", "dispatch_unsupported", "dispatched_kernel_optimal",
    "full_rank_of_qr", "normal_solution_unique", "kkt_point_unique", "vp_factorisation_independent", "vp_eq_lsExact",
    # --- provider glue (goal 3)
    "retrieve_length", "retrieve_kept", "retrieve_removed", "retrieve_unconstrained", "reduce_labels", "reduce_labels_columns",
    "estimate_optimal", "default_key_dispatch",
    # --- end provider glue
    "trtrs_singular",
    "generated_vp_eq_model", "generated_nnls_eq_model", "generated_vp_optimal", "generated_nnls_optimal_partial",
    "isQRof_is_compact_qr", "householder_step_spec", "exists_compact_qr", "diagNonzero_iff_full_rank", "exists_admissible_qr",
    "no_admissible_qr_of_rank_deficient", "vp_optimal_of_compact_qr", "vp_optimal_real",
    "exists_admissible_qr_of_fullRank", "vp_real_eq_lsExact",
]
TRUSTED = [
    "hand-written model lean/GlotaranModel/C01.lean (+LinAlg.lean) of variable_projection.py, nnls.py and the dispatch in "
    "estimation_provider.py, tied to the code by differential execution only",
    # --- provider glue (goal 3)
    "hand-written model lean/GlotaranModel/C01Provider.lean of the per-index glue (apply_constraints column reduction, apply_weight, "
    "`data *= weight`, retrieve_clps without relations, default residual_function), tied to the code by differential execution of "
    "optimize() on one-dataset schemes; the harness' own reading of zero/only constraint intervals (closed intervals, only = complement)",
    "LAPACK dgeqrf/dormqr/dtrtrs and scipy.optimize.nnls are parameters of the model: the theorems assume an exact "
    "Householder factorisation / a KKT point; their floating-point behaviour is observed on samples (regime R), not proved",
    "numpy long double (80-bit) arithmetic and numpy.linalg.svd/lstsq in the oracle; CPython fractions in the tolerance tests",
    "the extractor of SUPPORTED_RESIUDAL_FUNCTIONS (ast + live introspection, cross-checked against each other)",
    "the translator of the kernels' statements (harness/props/_c01_steps.py, pure ast on the source text; names resolved through the "
    "modules' imports) and the interpreter's reading of numpy broadcasting and of LAPACK's argument conventions "
    "(lean/GlotaranModel/C01Steps.lean) - cross-checked on every run by executing the regenerated programs against the real kernels",
]
ASSUMPTIONS = [
    "theorems are over exact arithmetic (ℚ for the executable definitions, any ordered field for the abstract ones); "
    "rounding enters only through the stated tolerances",
    "tolerances (eps = 2^-52; m rows, n columns; |.| Euclidean / Frobenius): residual defect |r-(y-Ac)| <= 8(m+n+10)eps(|y|+|A||c|); "
    "VP gradient |A^T(y-Ac)| <= 8(m+n+10)eps|A|(|y|+|A||c|); NNLS: c>=0 exactly, (A^T(y-Ac))_j <= 64(m+n+10)eps|A|(|y|+|A||c|) "
    "for all j and |.| <= the same on the support (scipy's own absolute test is 10 max(m,n) eps in normalised units); "
    "model vs implementation: |r_impl-r_model| and |A(c_impl-c_model)| <= 8(m+n+10)eps(|y|+|A||c|) on LAPACK's own (qr,tau), "
    "|A(c_impl-c_exact)| <= 8(m+n+10)eps(|y|+|A||c|+cond|r_exact|) against the exact normal-equation solution, "
    # --- provider glue (goal 3)
    "provider glue: one dataset per group, no clp relations, no dataset scale; weights are powers of two and matrices / data small dyadic "
    "numbers, so the weighted reduced problem is formed exactly; `weighted_residual` is the residual that enters the fit",
    "<= 64(m+n+10)eps cond (|y|+|A||c|) for NNLS (scipy solves the normal equations of the support)",
    "the property quantifies over full column rank; rank-deficient inputs are generated only to record what happens "
    "(dtrtrs info is ignored by the code) and never decide a verdict",
    "optimize(): max_nfev = 1 and a parameter that scales all columns alike, so the reported matrix is the generated one",
    "generated_vp_eq_model assumes that dgeqrf returns an array with as many columns as its argument (implied by isQRof); the "
    "existence theorems (exists_compact_qr, exists_admissible_qr, vp_optimal_real, vp_real_eq_lsExact) are over exact real arithmetic: "
    "they show that the hypotheses of vp_optimal are satisfiable for every full-rank input and what an exact LAPACK returns, not how "
    "the floating-point LAPACK rounds",
]
RULE = (
    "instances (A, y, layout): families gauss / small-integer / prescribed singular values (cond 1..1e10) / sums of nearly "
    "collinear exponentials / damped oscillations / column- and globally rescaled (1e-150..1e150) / exact dyadic Householder "
    "products; sizes n=0..8, m=n..300 with boundaries m=n, n=1, m=1, n=0, 300x8; y in the column space (signed / non-negative "
    "coefficients), orthogonal to it, generic, zero, unit vector, near the column space, scaled 1e+-150/1e+-20; matrix C-, F-ordered or "
    "a strided view or single precision (float32) storage when exact, data contiguous or a column slice of a 2-D array (as the providers pass it). Each instance goes through "
    "both real kernels, the long-double oracle, the exact model on LAPACK's (qr,tau), exact certificates of the float "
    "outputs, exact normal-equation / KKT references (sizes permitting). Dispatch: every key of the regenerated table, the "
    "default, misspelt keys, through EstimationProvider and through optimize() on one-dataset schemes with 1-3 global "
    "indices. non-trivial = n >= 1 and y != 0; distinct = distinct (A, y, layout, kernel). "
    # --- provider glue (goal 3)
    "Provider glue: one-dataset specs (6 fixed + seeded) cycling over key in {unset, variable_projection, non_negative_least_squares} x "
    "link_clp in {False, True, None} x weighted (powers of two varying over both axes) x index-dependent matrix x constraints in {none, zero, "
    "zero on the first label, zero with interval, only, two interval constraints}; 2-4 labels, 2-4 global indices; data = combination with a "
    "negative and pairwise distinct coefficients + dyadic noise; per global index: clp by label, weighted_residual, residual against the "
    "long-double oracle of the reduced weighted problem and against the model's estimateAt; distinct = distinct spec"
)

EPS = 2.0 ** -52
LD = np.longdouble
LEAN_GEN = core.LEAN / "GlotaranModel" / "Generated" / "C01.lean"
LEAN_GEN_STEPS = core.LEAN / "GlotaranModel" / "Generated" / "C01Steps.lean"
STEP_SOURCES = [("vpProgram", "glotaran/optimization/variable_projection.py", "residual_variable_projection"),
                ("nnlsProgram", "glotaran/optimization/nnls.py", "residual_nnls")]
KERNELS = ("vp", "nnls")
KEY_OF = {"vp": "variable_projection", "nnls": "non_negative_least_squares"}


def gamma(m, n):
    return 8.0 * (m + n + 10) * EPS


def gamma_nnls(m, n):
    return 64.0 * (m + n + 10) * EPS


def track(ck, name, value, bound):
    """largest observed value/bound per test (1.0 = at the tolerance): headroom of the tolerances, in the evidence"""
    try:
        ratio = float(value / bound) if bound > 0 else (0.0 if value == 0 else math.inf)
    except (OverflowError, ZeroDivisionError):
        ratio = math.inf
    if not math.isfinite(ratio):          # unrepresentable clp (see clp-not-representable): not a number to record
        ck.count("track:non-finite-ratio-skipped")
        return
    d = ck.extra.setdefault("max_observed_over_tolerance", {})
    if ratio > d.get(name, 0.0):
        d[name] = ratio


# ------------------------------------------------------------------------------------------
# regenerated table
# ------------------------------------------------------------------------------------------
def _lean_str(s: str) -> str:
    return '"' + s.replace("\\", "\\\\").replace('"', '\\"') + '"'


def extract_table():
    """[(key, module, function name)] of SUPPORTED_RESIUDAL_FUNCTIONS, from the source text (ast) resolved through the
    module's imports, cross-checked with the live dict; + the default of DatasetGroupModel.residual_function"""
    core.import_glotaran()
    from glotaran.model import dataset_group as dg
    from glotaran.optimization import estimation_provider as ep

    tree = ast.parse(inspect.getsource(ep))
    imports = {}
    for node in tree.body:
        if isinstance(node, ast.ImportFrom) and node.module:
            for al in node.names:
                imports[al.asname or al.name] = (node.module, al.name)
    table = None
    for node in ast.walk(tree):
        if isinstance(node, (ast.Assign, ast.AnnAssign)):
            targets = node.targets if isinstance(node, ast.Assign) else [node.target]
            if any(isinstance(t, ast.Name) and t.id == "SUPPORTED_RESIUDAL_FUNCTIONS" for t in targets) and isinstance(node.value, ast.Dict):
                table = []
                for k, v in zip(node.value.keys, node.value.values):
                    key = k.value if isinstance(k, ast.Constant) else ast.unparse(k)
                    if isinstance(v, ast.Name) and v.id in imports:
                        table.append((str(key), imports[v.id][0], imports[v.id][1]))
                    else:
                        table.append((str(key), "?", ast.unparse(v)))
    live = [(k, getattr(f, "__module__", "?"), getattr(f, "__name__", "?")) for k, f in ep.SUPPORTED_RESIUDAL_FUNCTIONS.items()]
    if table is None:
        table = live          # not a dict literal any more: the live object is the table
    mismatch = [(a, b) for a, b in zip(table, live) if a != b] or (len(table) != len(live))
    default = None
    try:
        import attrs
        for f in attrs.fields(dg.DatasetGroupModel):
            if f.name == "residual_function":
                default = f.default
    except Exception:
        default = None
    if not isinstance(default, str):
        default = "?"
    return table, live, mismatch, default


def generate(ck):
    table, live, mismatch, default = extract_table()
    use = live if mismatch else table      # the live dict is what the code dispatches on
    entries = ", ".join(f"({_lean_str(k)}, {_lean_str(m)}, {_lean_str(f)})" for k, m, f in use)
    text = (
        "/- GENERATED by harness/props/c01.py from glotaran/optimization/estimation_provider.py\n"
        "   (SUPPORTED_RESIUDAL_FUNCTIONS) and glotaran/model/dataset_group.py (DatasetGroupModel). Do not edit. -/\n"
        "namespace Glotaran.C01.Generated\n\n"
        "/-- `SUPPORTED_RESIUDAL_FUNCTIONS`: key ↦ (module, name) of the function object, in source order -/\n"
        f"def residualFunctions : List (String × String × String) := [{entries}]\n\n"
        "/-- default of `DatasetGroupModel.residual_function` -/\n"
        f"def defaultResidualFunction : String := {_lean_str(default)}\n\n"
        "end Glotaran.C01.Generated\n"
    )
    if not LEAN_GEN.exists() or LEAN_GEN.read_text() != text:
        LEAN_GEN.parent.mkdir(parents=True, exist_ok=True)
        LEAN_GEN.write_text(text)
    ck.extra["dispatch_table"] = {"ast": table, "live": live, "ast_vs_live_mismatch": bool(mismatch), "default": default}
    return [generate_steps(ck), {"table": "Consts(C01): SUPPORTED_RESIUDAL_FUNCTIONS key -> (module, function), DatasetGroupModel.residual_function default",
             "source": "glotaran/optimization/estimation_provider.py, glotaran/model/dataset_group.py",
             "sha1": hashlib.sha1(text.encode()).hexdigest()}]


def steps_text(repo=None):
    """Lean source of Generated/C01Steps.lean: the two kernels' statements translated from the source TEXT of the repo's
    working tree (harness/props/_c01_steps.py; nothing is executed).  Never raises: what cannot be read or translated becomes an
    `untranslatable` node, which makes `generated_*_eq_model` fail to build."""
    import os
    from pathlib import Path
    repo = Path(repo or os.environ.get("VERIF_REPO", "/repo"))
    defs, untranslatable = [], []
    for name, rel, fn in STEP_SOURCES:
        try:
            src = (repo / rel).read_text()
        except Exception as e_:
            src = None
            term = '{ params := [], body := [.untranslatable ' + _c01_steps.lean_str(f"cannot read {rel}: {type(e_).__name__}") + "] }"
        if src is not None:
            term = _c01_steps.translate(src, fn)
        if ".untranslatable" in term:
            untranslatable.append(name)
        defs.append(f"/-- `{fn}` ({rel}), statement by statement -/\ndef {name} : Program :=\n  {term}\n")
    text = (
        "/- GENERATED by harness/props/c01.py (harness/props/_c01_steps.py) from the source text of\n"
        "   glotaran/optimization/variable_projection.py and glotaran/optimization/nnls.py. Do not edit. -/\n"
        "import GlotaranModel.C01Steps\n"
        "namespace Glotaran.C01.Generated\n"
        "open Glotaran.C01.Steps\n\n" + "\n".join(defs) + "\nend Glotaran.C01.Generated\n"
    )
    return text, untranslatable


def generate_steps(ck):
    text, untranslatable = steps_text()
    if not LEAN_GEN_STEPS.exists() or LEAN_GEN_STEPS.read_text() != text:
        LEAN_GEN_STEPS.parent.mkdir(parents=True, exist_ok=True)
        LEAN_GEN_STEPS.write_text(text)
    ck.extra["step_tables"] = {"untranslatable": untranslatable, "statements": sum(1 for l in text.splitlines() if l.startswith("      ."))}
    return {"table": "Steps(C01): residual_variable_projection / residual_nnls as statement lists (LAPACK / scipy calls with operands "
                     "and flags, zeroed block, normalisation steps with axis arguments, returned expressions in order)",
            "source": ", ".join(rel for _, rel, _ in STEP_SOURCES), "sha1": hashlib.sha1(text.encode()).hexdigest()}


# ------------------------------------------------------------------------------------------
# floats <-> json / protocol
# ------------------------------------------------------------------------------------------
def hx(a):
    a = np.asarray(a, dtype=np.float64)
    if a.ndim == 1:
        return [float(v).hex() for v in a]
    return [[float(v).hex() for v in row] for row in a]


def unhx(l, ndim):
    if ndim == 1:
        return np.array([float.fromhex(v) for v in l], dtype=np.float64)
    rows = [[float.fromhex(v) for v in row] for row in l]
    if not rows:
        return np.zeros((0, 0))
    return np.array(rows, dtype=np.float64).reshape(len(rows), len(rows[0]))


def pmat(a):
    return core.lst(core.rats(r) for r in np.asarray(a))


def fr(s):
    return Fraction(s)


def frs(t):
    return [Fraction(x) for x in t]


def to_float(q: Fraction) -> float:
    try:
        return float(q)
    except OverflowError:
        return math.inf if q > 0 else -math.inf


# ------------------------------------------------------------------------------------------
# generators
# ------------------------------------------------------------------------------------------
def np_rng(rng):
    return np.random.default_rng(rng.getrandbits(64))


def cond_of(A):
    m, n = A.shape
    if n == 0:
        return 1.0
    with np.errstate(all="ignore"):
        nrm = np.abs(A).max()
        if nrm == 0 or not np.isfinite(nrm):
            return math.inf
        s = np.linalg.svd(A / nrm, compute_uv=False)
    if len(s) < n or s[-1] == 0:
        return math.inf
    return float(s[0] / s[-1])


def pick_size(rng, nmax=8):
    r = rng.random()
    if r < 0.04:
        n = 0
    elif r < 0.16:
        n = 1
    else:
        n = rng.randint(1, nmax)
    r = rng.random()
    if r < 0.12:
        m = max(n, 1)                              # square (or 1 x 0)
    elif r < 0.2:
        m = n + 1
    elif r < 0.78:
        m = rng.randint(max(n, 1), 40)
    elif r < 0.94:
        m = rng.randint(40, 120)
    else:
        m = rng.choice([150, 200, 256, 300])
    return max(m, n, 1), n


def gen_matrix(rng, g, family, m, n):
    """m x n float64 matrix of the family (full column rank with condition <= 1e10, checked by the caller)"""
    if n == 0:
        return np.zeros((m, 0))
    if family == "gauss":
        return g.normal(size=(m, n))
    if family == "int":
        return g.integers(-4, 6, size=(m, n)).astype(float)
    if family == "svd":
        logk = rng.choice([0, 1, 3, 6, 8, 9, 10]) if rng.random() < 0.5 else rng.uniform(0, 10)
        U, _ = np.linalg.qr(g.normal(size=(m, n)))
        V, _ = np.linalg.qr(g.normal(size=(n, n)))
        s = 10.0 ** (-logk * np.linspace(0, 1, n)) if n > 1 else np.ones(1)
        return (U * s) @ V.T * (0.9999 if logk >= 9.9 else 1.0)
    if family == "exp":
        t = np.linspace(0, rng.uniform(1, 30), m) if rng.random() < 0.7 else np.sort(g.uniform(0, 20, size=m))
        k0 = rng.uniform(0.05, 3)
        d = 10.0 ** (-rng.uniform(0, 5))
        ks = k0 * (1 + d * np.arange(n)) if rng.random() < 0.6 else np.sort(g.uniform(0.05, 5, size=n))
        A = np.exp(-np.outer(t, ks))
        if rng.random() < 0.3 and n >= 2:            # a baseline column and a sum of two decays
            A[:, -1] = 1.0
        return A
    if family == "osc":
        t = np.linspace(0, rng.uniform(2, 20), m)
        cols = []
        w0 = rng.uniform(0.5, 6)
        dw = 10.0 ** (-rng.uniform(0, 4))
        for j in range(n):
            w = w0 * (1 + dw * (j // 2))
            gam = rng.uniform(0, 0.5)
            cols.append((np.cos if j % 2 == 0 else np.sin)(w * t) * np.exp(-gam * t))
        return np.stack(cols, axis=1)
    if family == "colscaled":
        A = g.normal(size=(m, n))
        return A * (10.0 ** g.uniform(-6, 6, size=n))
    raise ValueError(family)


FAMILIES = ["gauss", "int", "svd", "svd", "exp", "exp", "osc", "colscaled"]
YKINDS = ["col", "colpos", "colpos", "colzero", "gen", "gen", "orth", "zero", "unit", "nearcol", "negcol"]
SCALES = [1.0, 1.0, 1.0, 1.0, 1e-150, 1e-20, 1e-8, 1e8, 1e20, 1e150]


def gen_y(rng, g, A, kind):
    m, n = A.shape
    if kind == "zero":
        return np.zeros(m)
    if kind == "unit":
        y = np.zeros(m)
        y[rng.randrange(m)] = rng.choice([1.0, -1.0, 3.0])
        return y
    if kind == "gen" or n == 0:
        return g.normal(size=m)
    nrm = np.abs(A).max() or 1.0
    An = A / nrm
    if kind == "col":
        return An @ g.normal(size=n)
    if kind == "colpos":
        return An @ g.uniform(0, 2, size=n)
    if kind == "colzero":           # consistent data whose non-negative solution lies on the boundary (a zero clp)
        c0 = g.integers(0, 4, size=n).astype(float)
        c0[rng.randrange(n)] = 0.0
        return A @ c0 if np.all(np.isfinite(A @ c0)) else An @ c0
    if kind == "negcol":
        return -(An @ g.uniform(0, 2, size=n))
    if kind == "nearcol":
        return An @ g.uniform(-1, 2, size=n) + 1e-9 * g.normal(size=m)
    if kind == "orth":
        y = g.normal(size=m)
        for _ in range(2):
            y = y - An @ np.linalg.lstsq(An, y, rcond=None)[0]
        return y
    raise ValueError(kind)


def rand_instance(rng, kernel=None, small=False):
    g = np_rng(rng)
    for _ in range(60):
        m, n = pick_size(rng, nmax=5 if small else 8)
        if small:
            m = min(m, 24)
        family = rng.choice(FAMILIES)
        if family == "int" and m > 40:
            family = "gauss"
        A = gen_matrix(rng, g, family, m, n)
        k = cond_of(A)
        if not (k <= 1e10):
            continue
        ascale = rng.choice(SCALES) if rng.random() < 0.25 else 1.0
        A = A * ascale
        ykind = rng.choice(YKINDS)
        y = gen_y(rng, g, A, ykind)
        yscale = rng.choice(SCALES) if rng.random() < 0.3 else 1.0
        y = y * yscale
        if not (np.all(np.isfinite(A)) and np.all(np.isfinite(y))):
            continue
        if n and np.any(y != 0):
            # the clp themselves must be representable: |clp| is between |y|/|A| and cond * |y|/|A|
            ratio = float(np.abs(y).max()) / float(np.abs(A).max())
            if not (1e-250 <= ratio and ratio * k <= 1e250):
                continue
        return {"family": family, "ykind": ykind, "A": hx(A), "y": hx(y), "m": m, "n": n,
                "layout": _layout(rng, A), "ylayout": rng.choice(["contig", "colslice"]),
                "kernels": [kernel] if kernel else list(KERNELS), "ascale": ascale, "yscale": yscale}
    raise core.HarnessError("generator could not produce a matrix with condition <= 1e10")


# ---- exact dyadic Householder products (regime E) ------------------------------------------------
def exact_instance(rng):
    """matrix with an exactly representable Householder factorisation: v_i in {0,+-1} with |v_i|^2 in {1,2,4,8}
    (tau = 2/|v|^2 dyadic, or tau = 0), R small integers with non-zero diagonal; A = H_1..H_n [R;0] exactly"""
    n = rng.choice([0, 1, 1, 2, 2, 3, 3, 4, 5])
    m = max(1, n + rng.choice([0, 0, 1, 2, 3, 5, 8]))
    qr = [[Fraction(0)] * n for _ in range(m)]
    tau = []
    for i in range(n):
        below = m - i - 1
        choices = [c for c in (0, 1, 3, 7) if c <= below]
        cnt = rng.choice(choices)
        pos = rng.sample(range(i + 1, m), cnt)
        for p in pos:
            qr[p][i] = Fraction(rng.choice([1, -1]))
        vv = 1 + cnt
        tau.append(Fraction(0) if (rng.random() < 0.2) else Fraction(2, vv))
        for j in range(i, n):
            qr[i][j] = Fraction(rng.randint(-4, 4))
        if qr[i][i] == 0:
            qr[i][i] = Fraction(rng.choice([1, 2, -1, 3, -3]))
        if rng.random() < 0.15:
            qr[i][i] = qr[i][i] / 4        # dyadic, smaller pivot

    def hvec(i):
        return [Fraction(0) if k < i else Fraction(1) if k == i else qr[k][i] for k in range(m)]

    def refl(i, x):
        v = hvec(i)
        d = sum(a * b for a, b in zip(v, x))
        return [xi - tau[i] * d * vi for xi, vi in zip(x, v)]

    def apply_q(x):
        for i in reversed(range(n)):
            x = refl(i, x)
        return x

    cols = []
    for j in range(n):
        x = [qr[i][j] if (i <= j) else Fraction(0) for i in range(m)]
        cols.append(apply_q(x))
    A = [[cols[j][i] for j in range(n)] for i in range(m)]
    kind = rng.choice(["col", "colpos", "orth", "gen", "gen", "zero"])
    if kind == "zero":
        y = [Fraction(0)] * m
    elif kind in ("col", "colpos") and n > 0:
        c0 = [Fraction(rng.randint(0 if kind == "colpos" else -3, 4), rng.choice([1, 2, 4])) for _ in range(n)]
        y = [sum(A[i][j] * c0[j] for j in range(n)) for i in range(m)]
    elif kind == "orth" and m > n:
        z = [Fraction(0)] * n + [Fraction(rng.randint(-4, 4)) for _ in range(m - n)]
        y = apply_q(z)
    else:
        y = [Fraction(rng.randint(-8, 8), rng.choice([1, 1, 2, 8])) for _ in range(m)]
    for row in A:
        for v in row:
            assert Fraction(float(v)) == v
    for v in y:
        assert Fraction(float(v)) == v
    Af = np.array([[float(v) for v in row] for row in A], dtype=np.float64).reshape(m, n)
    return {"family": "exact-qr", "ykind": kind, "A": hx(Af), "y": hx([float(v) for v in y]), "m": m, "n": n,
            "layout": _layout(rng, Af), "ylayout": rng.choice(["contig", "colslice"]),
            "kernels": list(KERNELS), "ascale": 1.0, "yscale": 1.0,
            "qr": [[str(v) for v in row] for row in qr], "tau": [str(v) for v in tau]}


def boundary_instances(rng):
    """fixed shapes every run: 1x1, 1x0, n=1 tall, square 8x8, 300x8, in-space data, huge/tiny scale, near-collinear decays"""
    g = np_rng(rng)
    out = []

    def inst(A, y, family, ykind, **kw):
        A = np.asarray(A, dtype=float)
        d = {"family": family, "ykind": ykind, "A": hx(A), "y": hx(y), "m": A.shape[0], "n": A.shape[1], "layout": "C",
             "ylayout": "colslice", "kernels": list(KERNELS), "ascale": 1.0, "yscale": 1.0}
        d.update(kw)
        out.append(d)

    inst([[2.0]], [3.0], "boundary:1x1", "gen")
    inst([[-2.0]], [3.0], "boundary:1x1-neg", "gen")
    inst(np.zeros((3, 0)), [1.0, -2.0, 3.0], "boundary:n=0", "gen")
    inst(np.zeros((1, 0)), [5.0], "boundary:1x0", "gen")
    inst(g.normal(size=(7, 1)), g.normal(size=7), "boundary:n=1", "gen")
    A = g.normal(size=(8, 8))
    inst(A, g.normal(size=8), "boundary:square8", "gen", layout="F")
    A = g.normal(size=(300, 8))
    inst(A, A @ g.uniform(0, 1, size=8) + 0.01 * g.normal(size=300), "boundary:300x8", "nearcol", layout="strided")
    A = g.normal(size=(12, 3))
    y = A @ np.array([1.0, 2.0, 0.5]) + 0.01 * g.normal(size=12)
    for s in (1e-16, 1e-150, 1e150):
        inst(A, y * s, "boundary:data-scale", "scaled", yscale=s)
        inst(A * s, y, "boundary:matrix-scale", "scaled", ascale=s)
    inst(A * np.array([1e-4, 1.0, 1e4]), y, "boundary:column-scales", "gen")
    t = np.linspace(0, 10, 50)
    for d in (1e-2, 1e-4, 1e-6):
        E = np.stack([np.exp(-t), np.exp(-t * (1 + d)), np.exp(-0.1 * t)], axis=1)
        if cond_of(E) <= 1e10:
            inst(E, E @ np.array([1.0, 1.0, 1.0]) + 1e-3 * g.normal(size=50), "boundary:collinear-decays", "nearcol")
    # least-squares solution with a negative component: distinguishes the two kernels
    inst([[1.0, 1.0], [1.0, 2.0], [1.0, 3.0]], [3.0, 2.0, 1.0], "boundary:negative-ls-solution", "gen")
    # duplicate data rows / repeated values
    inst([[1.0, 0.0], [1.0, 0.0], [0.0, 1.0], [0.0, 1.0]], [1.0, 3.0, -1.0, -3.0], "boundary:repeated-rows", "gen")
    return out


def _layout(rng, A):
    """memory layout / storage dtype of the matrix: C, Fortran, a strided view, or — when every entry is exactly
    representable — single precision storage (the kernels must still solve in double precision)"""
    lay = rng.choice(["C", "F", "strided"])
    A = np.asarray(A, dtype=np.float64)
    if A.size and rng.random() < 0.35 and np.array_equal(A.astype(np.float32).astype(np.float64), A):
        lay = "f32"
    return lay


def realize(inst):
    """numpy arrays with the requested memory layout; returns (A_view, y_view, A0, y0)"""
    A0 = unhx(inst["A"], 2).reshape(inst["m"], inst["n"])
    y0 = unhx(inst["y"], 1)
    m, n = A0.shape
    lay = inst.get("layout", "C")
    if lay == "F":
        a = np.asfortranarray(A0.copy())
    elif lay == "f32":
        # the same numbers stored in single precision (a megacomplex may return float32 matrices); only chosen when exact
        a = A0.astype(np.float32)
    elif lay == "strided":
        big = np.full((2 * m + 1, 3 * n + 2), 7.25)
        a = big[1:2 * m + 1:2, 1:3 * n + 1:3]
        a[...] = A0
    else:
        a = np.ascontiguousarray(A0.copy())
    if inst.get("ylayout", "contig") == "colslice":
        Y = np.full((m, 3), -3.5)
        Y[:, 1] = y0
        yv = Y[:, 1]
    else:
        yv = y0.copy()
    assert a.shape == (m, n) and np.array_equal(a, A0) and np.array_equal(yv, y0)
    return a, yv, A0, y0


# ------------------------------------------------------------------------------------------
# real code
# ------------------------------------------------------------------------------------------
def kernels():
    from glotaran.optimization.nnls import residual_nnls
    from glotaran.optimization.variable_projection import residual_variable_projection
    return {"vp": residual_variable_projection, "nnls": residual_nnls}


def call(f, a, y):
    try:
        with warnings.catch_warnings(), np.errstate(all="ignore"):
            warnings.simplefilter("ignore")
            out = f(a, y)
    except Exception as e:
        return {"error": type(e).__name__, "message": str(e)[:160]}
    try:
        c, r = out
        return {"error": None, "clp": np.array(c, dtype=np.float64), "residual": np.array(r, dtype=np.float64),
                "clp_shape": tuple(np.shape(c)), "residual_shape": tuple(np.shape(r))}
    except Exception as e:
        return {"error": "bad-return:" + type(e).__name__, "message": repr(out)[:160]}


# ------------------------------------------------------------------------------------------
# the oracle: the statement of C01 on the implementation's outputs, long double, independent of the model
# ------------------------------------------------------------------------------------------
def l2(v):
    v = np.asarray(v, dtype=LD)
    if v.size == 0:
        return LD(0)
    s = np.abs(v).max()
    if s == 0:
        return LD(0)
    return s * np.sqrt(((v / s) ** 2).sum())


def sup_any(c):
    return bool((np.asarray(c) > 0).any())


def support_solutions(A, y, nmax=6):
    """float least-squares solutions on every support (NNLS competitors); [] when n is too large"""
    m, n = A.shape
    if n > nmax:
        return []
    sols = []
    nrm = np.abs(A).max() or 1.0
    ys = np.abs(y).max() or 1.0
    for mask in range(1 << n):
        idx = [j for j in range(n) if mask >> j & 1]
        c = np.zeros(n)
        if idx:
            with np.errstate(all="ignore"):
                sol = np.linalg.lstsq(A[:, idx] / nrm, y / ys, rcond=None)[0] * (ys / nrm)
            if not np.all(np.isfinite(sol)) or np.any(sol < 0):
                continue
            c[idx] = sol
        sols.append(c)
    return sols


def oracle(ck, kernel, inst, A, y, out, kappa):
    """returns list of (key, what, observed) — the caller turns them into violations"""
    bad = []
    m, n = A.shape
    ck.oracle_evals += 1
    if out["error"]:
        if kernel == "nnls" and out["error"] == "RuntimeError" and "iterations" in out.get("message", "") and kappa > 1e4:
            bad.append(("nnls-maxiter-illconditioned", f"residual_nnls raised RuntimeError({out['message']!r}) on a full-rank "
                        f"{m}x{n} matrix with condition {kappa:.3g}: no clp are returned", {"error": out}))
        else:
            bad.append((f"{kernel}-raises:{out['error']}", f"{kernel} kernel raised {out['error']}: {out.get('message')}", {"error": out}))
        return bad
    c, r = out["clp"], out["residual"]
    if out["clp_shape"] != (n,) or out["residual_shape"] != (m,):
        bad.append((f"shape:{kernel}", f"clp shape {out['clp_shape']} / residual shape {out['residual_shape']} for a {m}x{n} matrix", {}))
        return bad
    if not (np.all(np.isfinite(c)) and np.all(np.isfinite(r))):
        amax = float(np.abs(A).max()) if A.size else 0.0
        if amax > 0 and float(np.abs(y).max()) / amax * kappa > 1e290:
            ck.count(f"clp-not-representable:{kernel}")     # |clp| up to cond*|y|/|A| exceeds the double range: not a defect
            return bad
        bad.append((f"nonfinite:{kernel}", "non-finite clp or residual for finite full-rank input", {"clp": hx(c), "residual": hx(r)}))
        return bad
    Al, yl, cl, rl = A.astype(LD), y.astype(LD), c.astype(LD), r.astype(LD)
    ny, nc = l2(yl), l2(cl)
    nA = l2(Al.ravel())
    rt = yl - Al @ cl if n else yl.copy()
    den = ny + nA * nc
    G = LD(gamma(m, n))
    GN = LD(gamma_nnls(m, n))
    obs = {}
    # (1) the residual that enters the fit is data - matrix @ clp
    e1 = l2(rl - rt)
    obs["residual_defect_rel"] = float(e1 / den) if den > 0 else float(e1)
    track(ck, f"oracle:residual-defect:{kernel}", e1, G * den)
    if e1 > G * den:
        bad.append((f"residual-ne-data-minus-matrix-clp:{kernel}", f"|residual - (data - matrix@clp)| = {float(e1):.3g} > "
                    f"{float(G * den):.3g}", dict(obs)))
    if n == 0:
        return bad
    g = Al.T @ rt
    tau_g = (G if kernel == "vp" else GN) * nA * den
    obs["gradient_rel"] = float(l2(g) / (nA * den)) if nA * den > 0 else float(l2(g))
    if kernel == "vp":
        # (2) orthogonal to every column
        track(ck, "oracle:gradient:vp", l2(g), tau_g)
        if l2(g) > tau_g:
            bad.append(("vp-not-orthogonal", f"|matrix^T (data - matrix@clp)| = {float(l2(g)):.3g} > {float(tau_g):.3g}: the "
                        "residual is not orthogonal to the matrix columns", dict(obs)))
    else:
        if np.any(c < 0):
            bad.append(("nnls-negative-clp", f"NNLS returned a negative clp {float(c.min())!r}", dict(obs)))
        track(ck, "oracle:kkt-dual:nnls", max(g.max(), LD(0)), tau_g)
        if sup_any(c):
            track(ck, "oracle:kkt-support:nnls", np.abs(g[c > 0]).max(), tau_g)
        if g.max() > tau_g:
            j = int(np.argmax(g))
            bad.append(("nnls-kkt-dual", f"KKT violated: gradient component {j} is {float(g[j]):.3g} > {float(tau_g):.3g} "
                        "(the objective decreases when this clp is increased)", dict(obs)))
        sup = c > 0
        if sup.any() and np.abs(g[sup]).max() > tau_g:
            bad.append(("nnls-kkt-complementarity", f"KKT violated: gradient on the support is {float(np.abs(g[sup]).max()):.3g} > "
                        f"{float(tau_g):.3g}", dict(obs)))
    # (3) competitor search: nobody is better by more than the tolerated gradient allows (theorem ls_near_optimal)
    f0 = rt @ rt
    comps = []
    nrm = np.abs(A).max() or 1.0
    ys = np.abs(y).max() or 1.0
    with np.errstate(all="ignore"):
        if kernel == "vp":
            sol = np.linalg.lstsq(A / nrm, y / ys, rcond=None)[0] * (ys / nrm)
            if np.all(np.isfinite(sol)):
                comps.append(("svd-lstsq", sol))
        else:
            for s in support_solutions(A, y):
                comps.append(("support", s))
    cs = float(nc) if nc > 0 else (float(ny / nA) if nA > 0 else 1.0)
    for j in range(n):
        for rel in (1e-2, 1e-6):
            for sgn in (1.0, -1.0):
                d = c.copy()
                d[j] += sgn * rel * cs
                comps.append(("coordinate", d))
    gg = np_rng(ck.rng)
    for _ in range(4):
        comps.append(("random", c + 1e-3 * cs * gg.normal(size=n)))
    worst = None
    for name, d in comps:
        if kernel == "nnls":
            d = np.maximum(d, 0.0)
        dl = d.astype(LD)
        rd = yl - Al @ dl
        fd = rd @ rd
        slack = 2 * np.abs(dl - cl).sum() * tau_g + LD(1e-17) * (ny + nA * l2(dl)) ** 2 + LD(1e-17) * den ** 2
        if f0 > fd + slack:
            gap = float((f0 - fd) / (den ** 2)) if den > 0 else float(f0 - fd)
            if worst is None or gap > worst[0]:
                worst = (gap, name, d)
    if worst is not None:
        bad.append((f"{kernel}-not-optimal", f"a competitor ({worst[1]}) has a smaller |data - matrix@clp'|: relative gain "
                    f"{worst[0]:.3g} beyond the tolerance", {**obs, "competitor": hx(worst[2]), "via": worst[1]}))
    return bad


# ------------------------------------------------------------------------------------------
# one instance: real code now, model lines queued
# ------------------------------------------------------------------------------------------
def light(inst, **kw):
    d = {k: inst[k] for k in ("family", "ykind", "A", "y", "m", "n", "layout", "ylayout", "kernels") if k in inst}
    for k in ("qr", "tau"):
        if k in inst:
            d[k] = inst[k]
    d.update(kw)
    return d


def check_instance(ck, inst, batch, deep=True):
    a, yv, A0, y0 = realize(inst)
    m, n = A0.shape
    kappa = cond_of(A0)
    full_rank = kappa <= 1e10
    ks = kernels()
    entry = {"inst": inst, "outs": {}, "lines": [], "slots": {}, "kappa": kappa, "A": A0, "y": y0, "oracle_bad": {}}
    nontrivial = n >= 1 and bool(np.any(y0 != 0))
    for kernel in inst["kernels"]:
        out = call(ks[kernel], a, yv)
        entry["outs"][kernel] = out
        ck.case((inst["A"], inst["y"], inst.get("layout"), inst.get("ylayout"), kernel), nontrivial)
        ck.count(f"kernel:{kernel}")
        if not (np.array_equal(a, A0) and np.array_equal(yv, y0)):
            ck.count(f"input-mutated:{kernel}")
            ck.diagnostic("the kernel modified its input arrays", {"kernel": kernel, "family": inst["family"]})
            a, yv, _, _ = realize(inst)
        if full_rank:
            bad = oracle(ck, kernel, inst, A0, y0, out, kappa)
            entry["oracle_bad"][kernel] = bad
            for key, what, obs in bad:
                ck.violation(key, what, light(inst, kernel=kernel, observed=obs, condition=kappa))
        else:
            ck.count(f"rank-deficient:{kernel}:" + (out["error"] or "returns"))
    ck.count("family:" + inst["family"].split(":")[0])
    ck.count("ykind:" + inst["ykind"])
    ck.count("layout:" + inst.get("layout", "C") + "/" + inst.get("ylayout", "contig"))
    ck.count("n=" + str(n))
    ck.count("m:" + ("1" if m == 1 else "2-10" if m <= 10 else "11-40" if m <= 40 else "41-120" if m <= 120 else "121-300"))
    ck.count("shape:" + ("square" if m == n else "tall"))
    ck.count("cond:1e%02d" % (int(math.floor(math.log10(kappa))) if (kappa >= 1 and math.isfinite(kappa)) else 99))
    if inst.get("ascale", 1.0) != 1.0 or inst.get("yscale", 1.0) != 1.0:
        ck.count("scaled:A=%g,y=%g" % (inst.get("ascale", 1.0), inst.get("yscale", 1.0)))
    if not deep or not full_rank:
        return entry
    # ---- model lines ------------------------------------------------------------------------
    L, S = entry["lines"], entry["slots"]

    def add(name, line):
        S[name] = len(L)
        L.append(line)

    add("set", f"set {pmat(A0)} {core.rats(y0)}")
    if "vp" in inst["kernels"] and n > 0:
        from scipy.linalg import lapack
        qr, tau, _, info = lapack.dgeqrf(A0)
        if info == 0 and np.all(np.isfinite(qr)) and np.all(np.isfinite(tau)):
            add("vp", f"vp {pmat(qr)} {core.rats(tau)}")
            if m <= 40:      # the program regenerated from the source text, on the same factorisation
                add("gen:vp", f"gen-vp {pmat(qr)} {core.rats(tau)}")
        if "qr" in inst:
            add("vpx", "vp " + core.lst(core.lst(row) for row in inst["qr"]) + " " + core.lst(inst["tau"]))
            add("gen:vpx", "gen-vp " + core.lst(core.lst(row) for row in inst["qr"]) + " " + core.lst(inst["tau"]))
    elif "vp" in inst["kernels"]:
        add("vp", "vp [] []")
        add("gen:vp", "gen-vp [] []")
    small = (m <= 40 and n <= 5) or (m <= 120 and n <= 3)
    if small or "qr" in inst:
        add("ls", "ls")
    for kernel in inst["kernels"]:
        out = entry["outs"][kernel]
        if out["error"] is None and out["clp_shape"] == (n,) and out["residual_shape"] == (m,) and \
                np.all(np.isfinite(out["clp"])) and np.all(np.isfinite(out["residual"])):
            add("cert:" + kernel, f"cert {core.rats(out['clp'])} {core.rats(out['residual'])}")
            if kernel == "nnls":
                sup = [j for j in range(n) if out["clp"][j] > 0]
                if small or len(sup) <= 4:
                    add("nnls-on", "nnls-on " + core.lst(str(j) for j in sup))
                    if m <= 40:
                        add("gen:nnls-on", "gen-nnls-on " + core.lst(str(j) for j in sup))
                if (m <= 24 and n <= 4) or "qr" in inst:
                    add("nnls", "nnls")
                    if m <= 12 and n <= 3:
                        add("gen:nnls", "gen-nnls")
    batch.append(entry)
    return entry


def flush(ck, batch):
    if not batch:
        return
    lines = []
    for e in batch:
        lines += e["lines"]
    answers = core.lean_driver(PROP, lines)
    pos = 0
    for e in batch:
        k = len(e["lines"])
        judge(ck, e, answers[pos:pos + k])
        pos += k
    batch.clear()


def parse_pair(tree, i=1):
    return np.array([to_float(Fraction(x)) for x in tree[i]], dtype=np.float64), \
        np.array([to_float(Fraction(x)) for x in tree[i + 1]], dtype=np.float64), frs(tree[i]), frs(tree[i + 1])


def disagree(ck, e, key, what, kernel, **obs):
    d = {"key": key, "what": what, "case": light(e["inst"], kernel=kernel, observed=obs, condition=e["kappa"])}
    if e["oracle_bad"].get(kernel):
        d["explained"] = True           # the oracle already reports this input as a violation
    ck.disagreements.append(d)


def judge_instance(ck, e, ans):
    inst, A, y, kappa = e["inst"], e["A"], e["y"], e["kappa"]
    m, n = A.shape
    S = e["slots"]
    for a_, l_ in zip(ans, e["lines"]):
        if a_ in ("bad-op", "bad-line"):
            raise core.HarnessError(f"model rejected a protocol line: {l_[:120]}")
    Al, yl = A.astype(LD), y.astype(LD)
    nA, ny = l2(Al.ravel()), l2(yl)
    G, GN = LD(gamma(m, n)), LD(gamma_nnls(m, n))

    def aw(c1, c2):
        return l2(Al @ (np.asarray(c1, dtype=LD) - np.asarray(c2, dtype=LD))) if n else LD(0)

    ls_c = ls_r = None
    if "ls" in S:
        t = core.parse_tree(ans[S["ls"]])
        if t[1] == "none":
            ck.count("model:ls-rank-deficient")
        else:
            ls_c, ls_r, _, _ = parse_pair(t)
            ck.count("model:ls-exact")
    # ---- variable projection ----------------------------------------------------------------
    out = e["outs"].get("vp")
    if out is not None and out["error"] is None and out["clp_shape"] == (n,) and out["residual_shape"] == (m,):
        c, r = out["clp"], out["residual"]
        den = ny + nA * l2(c)
        for slot in ("vp", "vpx"):
            if slot not in S:
                continue
            t = core.parse_tree(ans[S[slot]])
            cm, rm, cq, rq = parse_pair(t)
            flags = t[3:6]
            ck.count(f"model:{slot}:isQRof={flags[0]},diag={flags[1]},normal={flags[2]}")
            if slot == "vpx" and flags != ["T", "T", "T"]:
                raise core.HarnessError(f"exact-qr instance is not an exact factorisation for the model: {flags}")
            if len(cm) != n or len(rm) != m:
                disagree(ck, e, "vp-shape", f"model returns {len(cm)} clp / {len(rm)} residual entries, implementation {n} / {m}", "vp")
                continue
            # same factorisation, same steps: only the rounding of three LAPACK calls separates the two (tight);
            # any other backward-stable least-squares algorithm stays within the condition-aware bound (wide)
            tight = G * den
            tol = G * (den + LD(min(kappa, 1e12)) * l2(rm))
            dr = l2(r.astype(LD) - rm.astype(LD))
            dc = aw(c, cm)
            track(ck, f"model:{slot}:residual", dr, tight if slot == "vp" else tol)
            track(ck, f"model:{slot}:clp", dc, tight if slot == "vp" else tol)
            if dr > tol:
                disagree(ck, e, f"vp-residual:{slot}", f"residual differs from the model ({slot}): {float(dr):.3g} > {float(tol):.3g}",
                         "vp", impl=hx(r), model=hx(rm))
            if dc > tol:
                disagree(ck, e, f"vp-clp:{slot}", f"clp differ from the model ({slot}): |A(c_impl-c_model)| = {float(dc):.3g} > {float(tol):.3g}",
                         "vp", impl=hx(c), model=hx(cm))
            if slot == "vp" and max(dr, dc) > tight and max(dr, dc) <= tol:
                ck.count("internal:vp-not-bitwise-on-lapack-factorisation")
                ck.diagnostic("variable projection output is within the condition-aware bound of the model but not within the "
                              "rounding of LAPACK's own factorisation (different algorithm?)", {"family": inst["family"], "m": m, "n": n})
            if slot == "vpx" and ls_c is not None and (list(ls_c) != list(cm)):
                ck.diagnostic("model: exact VP result differs from lsExact (contradicts theorem vp_eq_lsExact)", light(inst))
        if ls_c is not None:
            tol = G * (den + LD(min(kappa, 1e12)) * l2(ls_r))
            track(ck, "model:exact-ls:clp", aw(c, ls_c), tol)
            track(ck, "model:exact-ls:residual", l2(r.astype(LD) - ls_r.astype(LD)), tol)
            if aw(c, ls_c) > tol:
                disagree(ck, e, "vp-clp:exact-ls", f"clp differ from the exact least-squares solution: |A(c_impl-c*)| = "
                         f"{float(aw(c, ls_c)):.3g} > {float(tol):.3g}", "vp", impl=hx(c), exact=hx(ls_c))
            if l2(r.astype(LD) - ls_r.astype(LD)) > tol:
                disagree(ck, e, "vp-residual:exact-ls", "residual differs from the exact least-squares residual", "vp",
                         impl=hx(r), exact=hx(ls_r))
    elif out is not None and out["error"] is not None and "vp" in S:
        disagree(ck, e, "vp-raises", f"implementation raised {out['error']}, the model returns a result", "vp")
    # ---- the programs regenerated from the source text ------------------------------------------
    judge_generated(ck, e, ans)
    # ---- exact certificates of the float outputs ---------------------------------------------
    for kernel in inst["kernels"]:
        slot = "cert:" + kernel
        if slot not in S:
            continue
        t = core.parse_tree(ans[S[slot]])
        defect, grad, atr = fr(t[1]), frs(t[2]), frs(t[3])
        ySq, aSq, cSq = fr(t[4]), fr(t[5]), fr(t[6])
        nonneg, shapes = t[7] == "T", t[8] == "T"
        D2 = 2 * (ySq + aSq * cSq)
        g1 = Fraction(gamma(m, n)) ** 2
        g2 = Fraction(gamma_nnls(m, n)) ** 2
        if not shapes:
            disagree(ck, e, f"cert-shapes:{kernel}", "output lengths do not fit the matrix", kernel)
            continue
        track(ck, f"cert:residual-defect-sq:{kernel}", defect, g1 * D2)
        if defect > g1 * D2:
            disagree(ck, e, f"cert-residual:{kernel}", "exact certificate: |r - (y - A c)|^2 exceeds the tolerance", kernel,
                     defect_sq=to_float(defect), bound=to_float(g1 * D2))
        gsq = sum(x * x for x in grad)
        if kernel == "vp":
            track(ck, "cert:gradient-sq:vp", gsq, g1 * aSq * D2)
            if gsq > g1 * aSq * D2:
                disagree(ck, e, "cert-gradient:vp", "exact certificate: |A^T(y - A c)|^2 exceeds the tolerance", kernel,
                         grad_sq=to_float(gsq), bound=to_float(g1 * aSq * D2))
            asq = sum(x * x for x in atr)
            if asq > g1 * aSq * D2:
                disagree(ck, e, "cert-orthogonal:vp", "exact certificate: |A^T r|^2 of the returned residual exceeds the tolerance", kernel,
                         atr_sq=to_float(asq), bound=to_float(g1 * aSq * D2))
            ck.count("cert:vp")
        else:
            bound = g2 * aSq * D2
            c = e["outs"]["nnls"]["clp"]
            track(ck, "cert:kkt-dual-sq:nnls", max([x * x for x in grad if x > 0] + [Fraction(0)]), bound)
            track(ck, "cert:kkt-support-sq:nnls", max([grad[j] * grad[j] for j in range(n) if c[j] > 0] + [Fraction(0)]), bound)
            if not nonneg:
                disagree(ck, e, "cert-nonneg:nnls", "exact certificate: a clp is negative", kernel)
            if any(x > 0 and x * x > bound for x in grad):
                disagree(ck, e, "cert-kkt-dual:nnls", "exact certificate: a gradient component is positive beyond the tolerance", kernel,
                         grad=[to_float(x) for x in grad])
            if any(c[j] > 0 and grad[j] * grad[j] > bound for j in range(n)):
                disagree(ck, e, "cert-kkt-comp:nnls", "exact certificate: gradient on the support beyond the tolerance", kernel,
                         grad=[to_float(x) for x in grad])
            ck.count("cert:nnls")
    # ---- NNLS against the exact KKT point ---------------------------------------------------
    out = e["outs"].get("nnls")
    if out is not None and out["error"] is None and out["clp_shape"] == (n,) and out["residual_shape"] == (m,):
        c, r = out["clp"], out["residual"]
        den = ny + nA * l2(c)
        exact = None
        if "nnls-on" in S:
            t = core.parse_tree(ans[S["nnls-on"]])
            if t[1] != "none" and t[3] == "T":
                exact = parse_pair(t)
                ck.count("model:nnls-support-is-exact-kkt")
            else:
                ck.count("model:nnls-support-not-kkt")
        if exact is None and "nnls" in S:
            t = core.parse_tree(ans[S["nnls"]])
            if t[1] != "none":
                exact = parse_pair(t)
                ck.count("model:nnls-by-enumeration")
            else:
                ck.count("model:nnls-none")
        if exact is not None:
            cm, rm = exact[0], exact[1]
            tol = GN * LD(max(1.0, min(kappa, 1e12))) * den
            track(ck, "model:exact-nnls:clp", aw(c, cm), tol)
            track(ck, "model:exact-nnls:residual", l2(r.astype(LD) - rm.astype(LD)), tol)
            if aw(c, cm) > tol:
                disagree(ck, e, "nnls-clp:exact", f"clp differ from the exact KKT point: |A(c_impl-c*)| = {float(aw(c, cm)):.3g} > "
                         f"{float(tol):.3g}", "nnls", impl=hx(c), exact=hx(cm))
            if l2(r.astype(LD) - rm.astype(LD)) > tol:
                disagree(ck, e, "nnls-residual:exact", "residual differs from the exact NNLS residual", "nnls", impl=hx(r), exact=hx(rm))
            ck.count("nnls:active=%d/%d" % (int((c > 0).sum()), n))


GEN_SLOTS = [("gen:vp", "vp", "vp"), ("gen:vpx", "vpx", "vp"), ("gen:nnls-on", "nnls-on", "nnls"), ("gen:nnls", "nnls", "nnls")]


def judge_generated(ck, e, ans):
    """`gen-*` lines run the interpreter of Generated/C01Steps.lean (the statements translated from the source text) on the
    same inputs as the hand-written model.  With `generated_*_eq_model` proved the two answers are the same text; if they are
    not, the source says something else than the model (and the theorem is broken, too): a disagreement.  The generated
    program is also compared with the implementation's output, which cross-checks translator + interpreter."""
    inst, A, kappa = e["inst"], e["A"], e["kappa"]
    m, n = A.shape
    S = e["slots"]
    Al = A.astype(LD)
    for gslot, mslot, kernel in GEN_SLOTS:
        if gslot not in S or mslot not in S:
            continue
        g, h = ans[S[gslot]], ans[S[mslot]]
        ck.count("generated:" + gslot.split(":")[1])
        gt = core.parse_tree(g)
        if len(gt) >= 2 and gt[1] == "stuck":
            ck.count("generated:stuck")
            disagree(ck, e, "generated-program-stuck:" + kernel, f"the interpreter has no meaning for the program regenerated from the "
                     f"source of the {kernel} kernel: {core.dec(gt[2]) if len(gt) > 2 else '?'}", kernel)
            continue
        ht = core.parse_tree(h)
        g_none = len(gt) >= 2 and gt[1] in ("raised", "none")
        h_none = len(ht) >= 2 and ht[1] == "none"
        same = (g_none and h_none) or (not g_none and not h_none and gt[1] == ht[1] and gt[2] == ht[2])
        if not same:
            disagree(ck, e, "generated-program-vs-model:" + kernel, f"the statements regenerated from the source of the {kernel} kernel "
                     f"compute something else than the hand-written model ({gslot})", kernel, generated=g[:300], model=h[:300])
        out = e["outs"].get(kernel)
        if g_none or out is None or out["error"] is not None or out["clp_shape"] != (n,) or out["residual_shape"] != (m,):
            continue
        cg, rg, _, _ = parse_pair(gt)
        if len(cg) != n or len(rg) != m:
            disagree(ck, e, "generated-program-shape:" + kernel, f"regenerated program returns {len(cg)} clp / {len(rg)} residual entries, "
                     f"implementation {n} / {m}", kernel)
            continue
        c, r = out["clp"], out["residual"]
        den = l2(e["y"].astype(LD)) + l2(Al.ravel()) * l2(c)
        tol = (LD(gamma(m, n)) * (den + LD(min(kappa, 1e12)) * l2(rg)) if kernel == "vp"
               else LD(gamma_nnls(m, n)) * LD(max(1.0, min(kappa, 1e12))) * den)
        dr = l2(r.astype(LD) - rg.astype(LD))
        dc = l2(Al @ (c.astype(LD) - cg.astype(LD))) if n else LD(0)
        track(ck, f"generated:{gslot.split(':')[1]}", max(dr, dc), tol)
        if max(dr, dc) > tol and gslot != "gen:nnls-on":
            # (gen:nnls-on runs on the support the implementation chose, which need not be the optimal one)
            disagree(ck, e, "generated-program-vs-implementation:" + kernel, f"the interpreter of the regenerated {kernel} program and the "
                     f"implementation differ: {float(max(dr, dc)):.3g} > {float(tol):.3g}", kernel, generated=g[:300])


# ------------------------------------------------------------------------------------------
# dispatch: table, EstimationProvider, optimize()
# ------------------------------------------------------------------------------------------
DISPATCH_A = np.array([[1.0, 1.0], [1.0, 2.0], [1.0, 3.0], [1.0, 4.5]])
DISPATCH_Y = np.array([3.0, 2.0, 1.0, 0.25])       # LS solution has a negative slope: the kernels differ


def classify_output(A, y, c, r):
    """which kernel produced (c, r)?  by the property, not by identity: 'vp' = orthogonal, 'nnls' = KKT with c >= 0"""
    Al, yl, cl = A.astype(LD), y.astype(LD), np.asarray(c, dtype=LD)
    g = Al.T @ (yl - Al @ cl)
    den = l2(Al.ravel()) * (l2(yl) + l2(Al.ravel()) * l2(cl))
    tol = LD(gamma_nnls(*A.shape)) * den
    kinds = []
    if l2(g) <= tol:
        kinds.append("vp")
    if np.all(np.asarray(c) >= 0) and g.max() <= tol and (not (np.asarray(c) > 0).any() or np.abs(g[np.asarray(c) > 0]).max() <= tol):
        kinds.append("nnls")
    return kinds


def dispatch_stream(ck):
    from glotaran.optimization import estimation_provider as ep
    table, live, mismatch, default = extract_table()
    if mismatch:
        ck.diagnostic("SUPPORTED_RESIUDAL_FUNCTIONS: source text and live dict differ", {"ast": table, "live": live})
    keys = [k for k, _, _ in live]
    probes = keys + [default, "nnls", "vp", "", "Variable_Projection", "variable_projection ", "non_negative_least_square",
                     "variable-projection", "non_negative_least_squares\n"]
    lines = [f"set {pmat(DISPATCH_A)} {core.rats(DISPATCH_Y)}"] + [f"dispatch {core.enc(k)}" for k in probes] + ["default-key"]
    ans = core.lean_driver(PROP, lines)
    if core.dec(ans[-1].split(" ", 1)[1]) != default:
        ck.disagree("default-key", "model default residual function differs", {"model": ans[-1], "real": default})
    for k, a in zip(probes, ans[1:-1]):
        ck.case(("dispatch", k), True)
        ck.count("dispatch:" + a.replace(" ", "-"))
        case = {"residual_function": k}
        # real: EstimationProvider.__init__ + calculate_residual
        try:
            prov = ep.EstimationProvider(SimpleNamespace(residual_function=k))
            real = "ok"
        except ep.UnsupportedResidualFunctionError:
            real = "unsupported"
        except Exception as e_:
            real = "raises:" + type(e_).__name__
        if real != "ok":
            if k in ("variable_projection", "non_negative_least_squares"):
                ck.violation("dispatch-rejects-documented-key", f"EstimationProvider rejects residual_function={k!r} ({real})", case)
            if a != "unsupported" or real != "unsupported":
                ck.disagree("dispatch-error", f"key {k!r}: implementation {real}, model {a}", case)
            continue
        out = call(prov.calculate_residual, DISPATCH_A.copy(), DISPATCH_Y.copy())
        ck.oracle_evals += 1
        if out["error"]:
            ck.violation("dispatch-raises:" + out["error"], f"calculate_residual raised for key {k!r}", case)
            continue
        if out["clp_shape"] != (DISPATCH_A.shape[1],) or out["residual_shape"] != (DISPATCH_A.shape[0],):
            ck.violation("dispatch-shape", f"calculate_residual for key {k!r} returns clp of shape {out['clp_shape']} and residual of shape "
                         f"{out['residual_shape']} for a {DISPATCH_A.shape[0]}x{DISPATCH_A.shape[1]} matrix", case)
            continue
        kinds = classify_output(DISPATCH_A, DISPATCH_Y, out["clp"], out["residual"])
        want = {"variable_projection": "vp", "non_negative_least_squares": "nnls"}.get(k)
        if want is not None and want not in kinds:
            ck.violation(f"dispatch-wrong-kernel:{k}", f"dataset group with residual_function={k!r}: the clp {out['clp'].tolist()} are not "
                         f"the {'unconstrained' if want == 'vp' else 'non-negative'} least-squares solution", {**case, "clp": hx(out["clp"])})
        model_kind = a.split(" ")[1] if a.startswith("kernel ") else a
        if model_kind not in kinds:
            ck.disagree("dispatch-kernel", f"key {k!r}: model dispatches to {a!r}, the implementation's output is {kinds}", case)


def optimize_stream(ck, batch, count):
    """one-dataset schemes through optimize(): Result.data[label].clp / .residual against the property and the model"""
    from harness import gen_scheme
    from glotaran.optimization.optimize import optimize
    gen_scheme.model_class()
    rng = ck.rng
    for i in range(count):
        g = np_rng(rng)
        rf = ("variable_projection", "non_negative_least_squares")[i % 2]
        n = rng.randint(1, 4)
        m = rng.randint(n + 2, 14)          # degrees of freedom > 0 (statistics of the Result divide by them)
        G = rng.choice([1, 2, 2, 3])
        fam = rng.choice(["gauss", "exp", "int"])
        A = gen_matrix(rng, g, fam, m, n)
        if not cond_of(A) <= 1e8:
            A = g.normal(size=(m, n))
        Y = np.stack([gen_y(rng, g, A, rng.choice(["gen", "colpos", "col", "nearcol"])) for _ in range(G)], axis=1)
        if i == 0:
            A, Y = DISPATCH_A.copy(), np.stack([DISPATCH_Y, -DISPATCH_Y], axis=1)
            m, n, G = 4, 2, 2
        elif i in (1, 3, 5):
            # a single clp whose unconstrained best value is negative: NNLS has to report clp 0 AND the residual of that
            # clp, i.e. the data themselves (round-2 seeded change C01-5: a one-column fast path in the estimation provider
            # computed the residual before clamping the clp)
            n = 1
            A = np.abs(gen_matrix(rng, g, "gauss", m, 1)) + 0.5
            Y = np.stack([-(k + 1.0) * A[:, 0] + 0.125 * g.normal(size=m) for k in range(G)], axis=1)
        labels = [f"s{j+1}" for j in range(n)]
        link = (False, None, True, False)[(i // 2) % 4]      # unlinked and linked estimation providers
        spec = {"groups": {"default": {"link_clp": link, "residual_function": rf}}, "parameters": {"p.1": 1.0},
                "datasets": [{"label": "d1", "group": "default", "global_axis": [float(x) for x in range(G)],
                              "model_axis": [float(x) for x in range(m)], "data": Y.tolist(), "weight": None, "scale": None,
                              "mcs": [{"labels": labels, "index_dependent": False, "base": A.tolist(), "pars": ["p.1"] * n, "scale": None}],
                              "gmcs": []}]}
        case = {"spec": spec}
        ck.case(("optimize", json.dumps(spec, sort_keys=True)), True)
        ck.count("optimize:" + rf)
        ck.count(f"optimize:global-indices={G}")
        ck.count(f"optimize:link_clp={link}")
        try:
            scheme, _, _, _ = gen_scheme.build(spec)
            with warnings.catch_warnings():
                warnings.simplefilter("ignore")
                res = optimize(scheme, verbose=False, raise_exception=True)
            ds = res.data["d1"]
            M = np.asarray(ds.matrix.transpose("model", "clp_label").values, dtype=float)
            C = np.asarray(ds.clp.transpose("global", "clp_label").values, dtype=float)
            R = np.asarray(ds.residual.transpose("model", "global").values, dtype=float)
            D = np.asarray(ds.data.transpose("model", "global").values, dtype=float)
        except Exception as e_:
            ck.violation("optimize-raises:" + type(e_).__name__, f"optimize raised {type(e_).__name__}: {str(e_)[:120]}", case)
            continue
        if not np.array_equal(D, Y) or M.shape != A.shape:
            ck.violation("optimize-data-or-matrix-changed", "result data / matrix differ from the inputs", case)
            continue
        kernel = "vp" if rf == "variable_projection" else "nnls"
        direct = kernels()[kernel]
        for gi in range(G):
            out = {"error": None, "clp": C[gi].copy(), "residual": R[:, gi].copy(), "clp_shape": C[gi].shape, "residual_shape": R[:, gi].shape}
            inst = {"family": "optimize", "ykind": "gen", "A": hx(M), "y": hx(D[:, gi]), "m": m, "n": n, "layout": "C",
                    "ylayout": "colslice", "kernels": [kernel]}
            bad = oracle(ck, kernel, inst, M, D[:, gi], out, cond_of(M))
            for key, what, obs in bad:
                ck.violation("optimize:" + key, f"Result.data['d1'] at global index {gi} ({rf}): " + what, {**case, "index": gi, "observed": obs})
            # same numbers as the kernel called directly on (matrix, data[:, index])
            d = call(direct, M.copy(), D[:, gi])
            if d["error"] is None and not (np.allclose(d["clp"], C[gi], rtol=1e-12, atol=0) and np.allclose(d["residual"], R[:, gi], rtol=1e-9, atol=1e-300)):
                ck.diagnostic("Result clp/residual differ from the kernel called directly", {**case, "index": gi})
            # model: dispatch + kernel on LAPACK's factorisation
            from scipy.linalg import lapack
            qr, tau, _, _ = lapack.dgeqrf(M)
            e = {"inst": inst, "outs": {kernel: out}, "lines": [f"set {pmat(M)} {core.rats(D[:, gi])}",
                                                                 f"calc {core.enc(rf)} {pmat(qr)} {core.rats(tau)}"],
                 "slots": {}, "kappa": cond_of(M), "A": M, "y": D[:, gi], "oracle_bad": {kernel: bad}, "calc": (rf, case, gi)}
            batch.append(e)


def judge_calc(ck, e, ans):
    rf, case, gi = e["calc"]
    A, y = e["A"], e["y"]
    m, n = A.shape
    kernel = "vp" if rf == "variable_projection" else "nnls"
    out = e["outs"][kernel]
    a = ans[1]
    if not a.startswith("calc ["):
        ck.disagree("optimize-model", f"model answered {a!r} for residual_function={rf!r}", case)
        return
    t = core.parse_tree(a)
    cm, rm, _, _ = parse_pair(t)
    Al = A.astype(LD)
    den = l2(y.astype(LD)) + l2(Al.ravel()) * l2(out["clp"])
    tol = LD(gamma_nnls(m, n)) * LD(max(1.0, min(e["kappa"], 1e12))) * den
    if len(cm) != n or l2(Al @ (out["clp"].astype(LD) - cm.astype(LD))) > tol or l2(out["residual"].astype(LD) - rm.astype(LD)) > tol:
        d = {"key": "optimize-vs-model", "what": f"Result clp/residual at index {gi} differ from dispatch+kernel of the model ({rf})",
             "case": {**case, "index": gi, "impl_clp": hx(out["clp"]), "model_clp": hx(cm)}}
        if e["oracle_bad"].get(kernel):
            d["explained"] = True
        ck.disagreements.append(d)


def judge(ck, e, ans):
    """entries queued by optimize_stream carry a `calc` line and have their own judge"""
    if "calc" in e:
        return judge_calc(ck, e, ans)
    return judge_instance(ck, e, ans)


# ------------------------------------------------------------------------------------------
# small integer grids (exhaustive in the thorough tier) and the rank-deficient branch
# ------------------------------------------------------------------------------------------
def grid_instance(m, n, vals, yvals, ia, iy, k):
    A = np.zeros((m, n))
    x = ia
    for i in range(m):
        for j in range(n):
            A[i, j] = vals[x % len(vals)]
            x //= len(vals)
    y = np.zeros(m)
    x = iy
    for i in range(m):
        y[i] = yvals[x % len(yvals)]
        x //= len(yvals)
    return {"family": f"grid:{m}x{n}", "ykind": "grid", "A": hx(A), "y": hx(y), "m": m, "n": n,
            "layout": ("C", "F", "strided")[k % 3], "ylayout": ("contig", "colslice")[k % 2], "kernels": list(KERNELS)}


GRIDS = [(2, 1, (-1, 0, 1, 2), (-1, 0, 1, 2)), (2, 2, (-1, 0, 1, 2), (-1, 0, 1, 2)), (3, 2, (-1, 0, 1), (-1, 0, 1))]


def grid_stream(ck, batch):
    """every m x n matrix over a small integer alphabet with every data vector over another one (full rank only).
    thorough: the whole grid (all of it through the oracle, the 2 x k grids and every 4th 3 x 2 case also through the
    exact model); quick: a seeded sample"""
    total = done = 0
    for m, n, vals, yvals in GRIDS:
        na, ny = len(vals) ** (m * n), len(yvals) ** m
        total += na * ny
        if ck.quick:
            picks = [(ck.rng.randrange(na), ck.rng.randrange(ny)) for _ in range(25)]
        else:
            picks = ((ia, iy) for ia in range(na) for iy in range(ny))
        for k, (ia, iy) in enumerate(picks):
            inst = grid_instance(m, n, vals, yvals, ia, iy, k)
            A = unhx(inst["A"], 2).reshape(m, n)
            if np.linalg.matrix_rank(A) < n:
                ck.count("grid:rank-deficient-skipped")
                continue
            deep = ck.quick or m * n <= 4 or k % 4 == 0
            check_instance(ck, inst, batch, deep=deep)
            ck.count("stream:grid" + ("" if deep else "-oracle-only"))
            done += 1
            if len(batch) >= 400:
                flush(ck, batch)
    flush(ck, batch)
    ck.extra["integer_grids"] = {"grids": [f"{m}x{n} entries {list(v)} data {list(w)}" for m, n, v, w in GRIDS],
                                 "points_in_grids": total, "full_rank_points_run": done, "complete": not ck.quick}


def rankdef_stream(ck):
    """outside the property (rank deficient): an exactly zero column gives an exactly zero diagonal entry of R, LAPACK's
    dtrtrs then returns its right-hand side untouched (info > 0, dropped by the code).  The model has this branch; compare
    it as an internal observable only (never a verdict)."""
    from scipy.linalg import lapack
    g = np_rng(ck.rng)
    lines, metas = [], []
    for _ in range(6):
        n = ck.rng.randint(1, 4)
        m = n + ck.rng.randint(0, 4)
        A = g.integers(-3, 4, size=(m, n)).astype(float)
        A[:, ck.rng.randrange(n)] = 0.0
        y = g.integers(-4, 5, size=m).astype(float)
        out = call(kernels()["vp"], A.copy(), y.copy())
        qr, tau, _, _ = lapack.dgeqrf(A)
        ck.count("rank-deficient:zero-column:" + (out["error"] or "returns"))
        if out["error"] is None:
            lines += [f"set {pmat(A)} {core.rats(y)}", f"vp {pmat(qr)} {core.rats(tau)}"]
            metas.append((A, y, out))
    if not lines:
        return
    ans = core.lean_driver(PROP, lines)
    for i, (A, y, out) in enumerate(metas):
        t = core.parse_tree(ans[2 * i + 1])
        cm, rm, _, _ = parse_pair(t)
        ok = len(cm) == len(out["clp"]) and np.allclose(cm, out["clp"], rtol=1e-9, atol=1e-12) and \
            np.allclose(rm, out["residual"], rtol=1e-9, atol=1e-12)
        ck.count("rank-deficient:model-" + ("agrees" if ok else "differs") + ":diag=" + t[4])
        if not ok:
            ck.diagnostic("rank-deficient input (outside the property): model and implementation differ",
                          {"A": A.tolist(), "y": y.tolist(), "impl_clp": out["clp"].tolist(), "model_clp": cm.tolist()})


# ------------------------------------------------------------------------------------------
# corpus / run / search / replay
# ------------------------------------------------------------------------------------------
def buffer_reuse_stream(ck, count):
    """The kernels are functions of the *contents* of their arguments: the same array objects refilled in place between
    calls (a preallocated matrix buffer, `matrix[:, 0] *= 10`) must give the answer for the new contents.  (Seeded change
    C01-3: a QR cache keyed on the identity of the matrix object returned the clp / residual of the old contents.)"""
    ks = kernels()
    rng = ck.rng
    for _ in range(count):
        insts = [rand_instance(rng, small=True) for _ in range(3)]
        if insts[0]["n"] == 0:
            continue
        m, n = insts[0]["m"], insts[0]["n"]
        same = [realize(i) for i in insts if (i["m"], i["n"]) == (m, n)]
        base = realize(insts[0])
        A_buf = np.array(base[2], dtype=np.float64, order="F")
        y_buf = np.array(base[3], dtype=np.float64)
        steps = []
        # step 0: the buffer as it is; step 1: one column scaled in place; step 2: refilled with another matrix of the
        # same shape (when one was drawn) or with the transposed-order copy of itself perturbed
        steps.append(("as-is", None))
        steps.append(("column-scaled-in-place", lambda: A_buf.__setitem__((slice(None), 0), A_buf[:, 0] * (-3.0 if n > 1 else 2.0))))
        if len(same) > 1:
            other = same[1][2]
            steps.append(("refilled-in-place", lambda other=other: np.copyto(A_buf, other)))
        steps.append(("data-refilled-in-place", lambda: np.copyto(y_buf, y_buf[::-1] * 2.0 + 1.0)))
        for kernel in ("vp", "nnls"):
            A_buf[...] = base[2]
            y_buf[...] = base[3]
            for name, mutate in steps:
                if mutate is not None:
                    mutate()
                A_now, y_now = A_buf.copy(), y_buf.copy()
                kappa = cond_of(A_now)
                if not kappa <= 1e8:
                    break
                out = call(ks[kernel], A_buf, y_buf)
                ck.case(("buffer-reuse", kernel, name, A_now.tobytes(), y_now.tobytes()), bool(np.any(y_now != 0)))
                ck.count(f"stream:buffer-reuse:{name}")
                inst = {"family": "buffer-reuse:" + name, "ykind": "generic", "m": m, "n": n,
                        "A": [[float(x).hex() for x in row] for row in A_now], "y": [float(x).hex() for x in y_now]}
                for key, what, obs in oracle(ck, kernel, inst, A_now, y_now, out, kappa):
                    ck.violation(key + ":buffer-reused", what + f" — same array objects as in the previous call, {name}",
                                 {"kernel": kernel, "step": name, "A_hex": inst["A"], "y_hex": inst["y"], "observed": obs,
                                  "history": "the kernel was called before on the same array objects with other contents"})


def corpus_instances():
    out = []
    for c in core.load_corpus(PROP):
        if "instance" in c:
            out.append(c["instance"])
    return out


def run(ck):
    batch = []
    for inst in corpus_instances():
        check_instance(ck, inst, batch)
        ck.count("stream:corpus")
    flush(ck, batch)
    dispatch_stream(ck)
    for inst in boundary_instances(ck.rng):
        check_instance(ck, inst, batch)
        ck.count("stream:boundary")
    flush(ck, batch)
    rankdef_stream(ck)
    grid_stream(ck, batch)
    for i in range(ck.n(100, 1500)):
        inst = exact_instance(ck.rng)
        check_instance(ck, inst, batch)
        ck.count("stream:exact-qr")
        if i < 2:
            ck.sample({k: inst[k] for k in ("family", "ykind", "m", "n", "layout", "ylayout", "qr", "tau", "A", "y")})
        if len(batch) >= 80:
            flush(ck, batch)
    flush(ck, batch)
    for i in range(ck.n(320, 6000)):
        inst = rand_instance(ck.rng)
        check_instance(ck, inst, batch)
        ck.count("stream:random")
        if i < 3 and inst["m"] <= 12:
            ck.sample({k: inst[k] for k in ("family", "ykind", "m", "n", "layout", "ylayout", "A", "y")})
        if len(batch) >= 40:
            flush(ck, batch)
    flush(ck, batch)
    optimize_stream(ck, batch, ck.n(12, 60))
    flush(ck, batch)
    # --- provider glue (goal 3)
    from harness.props import _c01_provider
    _c01_provider.provider_stream(ck, batch, ck.n(120, 1200))
    # --- end provider glue
    buffer_reuse_stream(ck, ck.n(25, 400))
    if not ck.quick:
        # oracle-only sweep (no Lean): many more matrices through both kernels
        for i in range(20000):
            check_instance(ck, rand_instance(ck.rng), batch, deep=False)
            ck.count("stream:oracle-only")
    ck.extra["tolerances"] = {"eps": EPS, "gamma(m,n)": "8(m+n+10)eps", "gamma_nnls(m,n)": "64(m+n+10)eps"}


def search(ck):
    """widened failing-input search on the real code (oracle only)"""
    batch = []
    try:
        dispatch_stream(ck)
    except core.HarnessError:
        pass
    if ck.violations:
        return
    for inst in boundary_instances(ck.rng):
        check_instance(ck, inst, batch, deep=False)
    for i in range(ck.n(1500, 20000)):
        if ck.violations:
            break
        check_instance(ck, rand_instance(ck.rng, small=(i % 2 == 0)), batch, deep=False)
    if not ck.violations:
        optimize_stream(ck, [], 6)
    # --- provider glue (goal 3)
    if not ck.violations:
        from harness.props import _c01_provider
        _c01_provider.provider_stream(ck, None, ck.n(60, 400))
    # --- end provider glue


def replay(ck, case):
    warnings.simplefilter("ignore")
    np.seterr(all="ignore")
    batch = []
    insts = []
    if "instance" in case:
        insts.append(case["instance"])
    c = case.get("case", {})
    if "A" in c:
        insts.append({**c, "kernels": [c["kernel"]] if "kernel" in c else c.get("kernels", list(KERNELS))})
    for d in case.get("disagreements", []):
        if "A" in d.get("case", {}):
            dc = d["case"]
            insts.append({**dc, "kernels": [dc["kernel"]] if "kernel" in dc else dc.get("kernels", list(KERNELS))})
    for inst in insts:
        e = check_instance(ck, inst, batch)
        for k, o in e["outs"].items():
            print("REAL", k, {kk: (vv.tolist() if isinstance(vv, np.ndarray) else vv) for kk, vv in o.items()})
    flush(ck, batch)
    if "A_hex" in c:
        # buffer-reuse case: first a call on the same array objects holding other contents, then the recorded contents
        A = np.array([[float.fromhex(x) for x in row] for row in c["A_hex"]], dtype=np.float64)
        y = np.array([float.fromhex(x) for x in c["y_hex"]], dtype=np.float64)
        A_buf = np.asfortranarray(np.eye(A.shape[0], A.shape[1]) + 1.0)
        y_buf = np.ones_like(y)
        f = kernels()[c["kernel"]]
        call(f, A_buf, y_buf)
        np.copyto(A_buf, A)
        np.copyto(y_buf, y)
        out = call(f, A_buf, y_buf)
        inst = {"family": "buffer-reuse:replay", "ykind": "generic", "m": A.shape[0], "n": A.shape[1], "A": c["A_hex"], "y": c["y_hex"]}
        for key, what, obs in oracle(ck, c["kernel"], inst, A, y, out, cond_of(A)):
            ck.violation(key + ":buffer-reused", what, c)
    if "residual_function" in c or case.get("key", "").startswith("dispatch"):
        dispatch_stream(ck)
    if "spec" in c:
        optimize_replay(ck, c["spec"])
    # --- provider glue (goal 3)
    for pc in [c] + [d.get("case", {}) for d in case.get("disagreements", [])]:
        if "provider_spec" in pc:
            from harness.props import _c01_provider
            _c01_provider.replay_provider(ck, pc)
    # --- end provider glue
    for d in ck.disagreements:
        print("DISAGREEMENT", d["key"], d["what"])
    for v in ck.violations:
        print("VIOLATION-DETAIL", v["key"], v["what"])


def optimize_replay(ck, spec):
    from harness import gen_scheme
    from glotaran.optimization.optimize import optimize
    gen_scheme.model_class()
    scheme, _, _, _ = gen_scheme.build(spec)
    res = optimize(scheme, verbose=False, raise_exception=True)
    ds = res.data["d1"]
    M = np.asarray(ds.matrix.transpose("model", "clp_label").values, dtype=float)
    C = np.asarray(ds.clp.transpose("global", "clp_label").values, dtype=float)
    R = np.asarray(ds.residual.transpose("model", "global").values, dtype=float)
    D = np.asarray(ds.data.transpose("model", "global").values, dtype=float)
    rf = spec["groups"]["default"]["residual_function"]
    kernel = "vp" if rf == "variable_projection" else "nnls"
    for gi in range(D.shape[1]):
        out = {"error": None, "clp": C[gi].copy(), "residual": R[:, gi].copy(), "clp_shape": C[gi].shape, "residual_shape": R[:, gi].shape}
        inst = {"family": "optimize", "ykind": "gen", "A": hx(M), "y": hx(D[:, gi]), "m": M.shape[0], "n": M.shape[1]}
        for key, what, obs in oracle(ck, kernel, inst, M, D[:, gi], out, cond_of(M)):
            ck.violation("optimize:" + key, what, {"spec": spec, "index": gi})
