"""C18 — extractor of the `SaveFns` / `CallSites` / constants tables (DESIGN §5.2).

Reads the *source text* of VERIF_REPO with Python's `ast` (nothing of glotaran is imported here except
for the two compiled regular expressions) and renders `lean/GlotaranModel/Generated/C18.lean`.

For every top-level `save_*` function of `glotaran/plugin_system/project_io_registration.py` and
`data_io_registration.py` the table holds the ordered list of *effects* of its body in evaluation
order (arguments before the call, left operand of `or` before the right one), each with the condition
under which it runs.  Classification of a call:

  protect_from_overwrite(p, allow_overwrite=a)   -> protect  (only if the name is imported from io_plugin_utils)
  infer_file_format(p, needs_to_exist=, allow_folder=) -> infer (literal keywords only)
  get_project_io(..) / get_data_io(..)            -> getplugin (must be defined in the same module)
  <var bound to a getplugin result>.<method>(..)  -> plugin
  Path / PurePath / isinstance / str / cast / len / bool, <expr>.as_posix() -> pure
  anything else                                   -> unknown (the model treats it as an arbitrary effect)

Statements: assignment / deletion of an attribute or item -> mutate; re-binding of a parameter ->
mutate("rebind:<name>") (so that `allow_overwrite = True` in front of the check is not invisible);
`raise` -> raise; anything inside if / try / with / for / while / the right operand of and/or / a
conditional expression is conditional.
"""
from __future__ import annotations

import ast
import hashlib
from pathlib import Path

SAVE_MODULES = [
    "glotaran/plugin_system/project_io_registration.py",
    "glotaran/plugin_system/data_io_registration.py",
]
PURE_NAMES = {"Path", "PurePath", "isinstance", "str", "cast", "len", "bool"}
PURE_METHODS = {"as_posix"}
GETPLUGIN = {"get_project_io", "get_data_io"}
SAVE_NAMES = {"save_model", "save_parameters", "save_scheme", "save_result", "save_dataset"}


def lean_str(s: str) -> str:
    out = ['"']
    for ch in s:
        if ch == "\\":
            out.append("\\\\")
        elif ch == '"':
            out.append('\\"')
        elif ch == "\n":
            out.append("\\n")
        elif ch == "\t":
            out.append("\\t")
        elif ord(ch) < 32 or ord(ch) > 126:
            out.append("\\u{%x}" % ord(ch))
        else:
            out.append(ch)
    out.append('"')
    return "".join(out)


def dotted(node) -> str:
    if isinstance(node, ast.Name):
        return node.id
    if isinstance(node, ast.Attribute):
        return dotted(node.value) + "." + node.attr
    if isinstance(node, ast.Call):
        return dotted(node.func) + "()"
    if isinstance(node, ast.Subscript):
        return dotted(node.value) + "[]"
    return type(node).__name__


def argref(node, params) -> tuple:
    """('param', name) | ('lit', bool) | ('absent',) | ('other', src)"""
    if node is None:
        return ("absent",)
    if isinstance(node, ast.Name) and node.id in params:
        return ("param", node.id)
    if isinstance(node, ast.Constant) and isinstance(node.value, bool):
        return ("lit", node.value)
    return ("other", ast.unparse(node))


class FnExtractor:
    def __init__(self, fn: ast.FunctionDef, imported_from: dict, module_defs: set):
        self.fn = fn
        self.imported_from = imported_from
        self.module_defs = module_defs
        a = fn.args
        self.params = [x.arg for x in a.posonlyargs + a.args + a.kwonlyargs]
        if a.vararg:
            self.params.append(a.vararg.arg)
        if a.kwarg:
            self.params.append(a.kwarg.arg)
        self.plugin_vars: set[str] = set()
        self.steps: list[dict] = []
        self.next_maybe = 0

    # -- conditions -------------------------------------------------------------------------
    def maybe(self):
        c = ("maybe", self.next_maybe)
        self.next_maybe += 1
        return c

    def emit(self, eff, cond):
        self.steps.append({"eff": eff, "cond": cond})

    # -- expressions (evaluation order) -------------------------------------------------------
    def expr(self, node, cond):
        if node is None:
            return
        if isinstance(node, ast.BoolOp):
            self.expr(node.values[0], cond)
            first = node.values[0]
            for v in node.values[1:]:
                if isinstance(node.op, ast.Or) and isinstance(first, ast.Name) and first.id in self.params and cond == ("always",) \
                        and len(node.values) == 2:
                    c = ("unless", first.id)
                else:
                    c = self.maybe()
                self.expr(v, c)
            return
        if isinstance(node, ast.IfExp):
            self.expr(node.test, cond)
            self.expr(node.body, self.maybe())
            self.expr(node.orelse, self.maybe())
            return
        if isinstance(node, (ast.Lambda, ast.ListComp, ast.SetComp, ast.DictComp, ast.GeneratorExp)):
            c = self.maybe()
            for ch in ast.iter_child_nodes(node):
                if isinstance(ch, ast.comprehension):
                    self.expr(ch.iter, c)
                    for i in ch.ifs:
                        self.expr(i, c)
                elif isinstance(ch, ast.expr):
                    self.expr(ch, c)
            return
        if isinstance(node, ast.Call):
            if isinstance(node.func, ast.Attribute):
                self.expr(node.func.value, cond)
            elif not isinstance(node.func, ast.Name):
                self.expr(node.func, cond)
            for a in node.args:
                self.expr(a.value if isinstance(a, ast.Starred) else a, cond)
            for k in node.keywords:
                self.expr(k.value, cond)
            self.emit(self.classify(node), cond)
            return
        for ch in ast.iter_child_nodes(node):
            if isinstance(ch, ast.expr):
                self.expr(ch, cond)

    def classify(self, call: ast.Call):
        f = call.func
        kws = {k.arg: k.value for k in call.keywords if k.arg is not None}
        if isinstance(f, ast.Name):
            n = f.id
            if n == "protect_from_overwrite" and self.imported_from.get(n) == "glotaran.plugin_system.io_plugin_utils":
                path = call.args[0] if call.args else kws.get("path")
                allow = kws.get("allow_overwrite", call.args[1] if len(call.args) > 1 else None)
                return ("protect", argref(path, self.params), argref(allow, self.params))
            if n == "infer_file_format" and self.imported_from.get(n) == "glotaran.plugin_system.io_plugin_utils":
                path = call.args[0] if call.args else kws.get("file_path")
                nte, af = kws.get("needs_to_exist"), kws.get("allow_folder")
                ok = all(v is None or (isinstance(v, ast.Constant) and isinstance(v.value, bool)) for v in (nte, af))
                if ok and len(call.args) <= 1:
                    return ("infer", argref(path, self.params), True if nte is None else nte.value,
                            False if af is None else af.value)
                return ("unknown", "infer_file_format(non-literal options)")
            if n in GETPLUGIN and n in self.module_defs:
                return ("getplugin", n)
            if n in PURE_NAMES:
                return ("pure", n)
            return ("unknown", n)
        if isinstance(f, ast.Attribute):
            if isinstance(f.value, ast.Name) and f.value.id in self.plugin_vars:
                return ("plugin", f.attr)
            if f.attr in PURE_METHODS:
                return ("pure", "." + f.attr)
            return ("unknown", dotted(f))
        return ("unknown", dotted(f))

    # -- statements ----------------------------------------------------------------------------
    def target(self, t, cond):
        if isinstance(t, (ast.Attribute, ast.Subscript)):
            self.expr(t.value, cond)
            if isinstance(t, ast.Subscript):
                self.expr(t.slice, cond)
            self.emit(("mutate", dotted(t)), cond)
        elif isinstance(t, ast.Name):
            if t.id in self.params:
                self.emit(("mutate", "rebind:" + t.id), cond)
        elif isinstance(t, (ast.Tuple, ast.List)):
            for e in t.elts:
                self.target(e, cond)
        elif isinstance(t, ast.Starred):
            self.target(t.value, cond)

    def stmts(self, body, cond):
        for i, s in enumerate(body):
            if i == 0 and body is self.fn.body and isinstance(s, ast.Expr) and isinstance(s.value, ast.Constant) \
                    and isinstance(s.value.value, str):
                continue  # docstring
            self.stmt(s, cond)

    def stmt(self, s, cond):
        if isinstance(s, ast.Expr):
            self.expr(s.value, cond)
        elif isinstance(s, ast.Assign):
            self.expr(s.value, cond)
            if self.binds_plugin(s.value):
                for t in s.targets:
                    if isinstance(t, ast.Name):
                        self.plugin_vars.add(t.id)
            for t in s.targets:
                self.target(t, cond)
        elif isinstance(s, ast.AnnAssign):
            self.expr(s.value, cond)
            if s.value is not None:
                if self.binds_plugin(s.value) and isinstance(s.target, ast.Name):
                    self.plugin_vars.add(s.target.id)
                self.target(s.target, cond)
        elif isinstance(s, ast.AugAssign):
            self.expr(s.value, cond)
            self.target(s.target, cond)
        elif isinstance(s, ast.Delete):
            for t in s.targets:
                self.target(t, cond)
        elif isinstance(s, ast.Return):
            self.expr(s.value, cond)
        elif isinstance(s, ast.Raise):
            self.expr(s.exc, cond)
            self.emit(("raise", dotted(s.exc.func) if isinstance(s.exc, ast.Call) else (dotted(s.exc) if s.exc else "")), cond)
        elif isinstance(s, ast.If):
            self.expr(s.test, cond)
            self.stmts(s.body, self.maybe())
            if s.orelse:
                self.stmts(s.orelse, self.maybe())
        elif isinstance(s, (ast.For, ast.AsyncFor)):
            self.expr(s.iter, cond)
            c = self.maybe()
            self.stmts(s.body, c)
            self.stmts(s.orelse, c)
        elif isinstance(s, ast.While):
            c = self.maybe()
            self.expr(s.test, c)
            self.stmts(s.body, c)
            self.stmts(s.orelse, c)
        elif isinstance(s, (ast.With, ast.AsyncWith)):
            for it in s.items:
                self.expr(it.context_expr, cond)
                self.emit(("unknown", "with:" + dotted(it.context_expr)), cond)
            self.stmts(s.body, self.maybe())
        elif isinstance(s, ast.Try) or type(s).__name__ == "TryStar":
            c = self.maybe()
            self.stmts(s.body, c)
            for h in s.handlers:
                self.stmts(h.body, self.maybe())
            self.stmts(s.orelse, self.maybe())
            self.stmts(s.finalbody, self.maybe())
        elif isinstance(s, (ast.Pass, ast.Import, ast.ImportFrom, ast.Global, ast.Nonlocal)):
            pass
        elif isinstance(s, ast.Assert):
            self.expr(s.test, cond)
            self.emit(("raise", "AssertionError"), self.maybe())
        else:
            self.emit(("unknown", "stmt:" + type(s).__name__), cond)

    def binds_plugin(self, value) -> bool:
        return isinstance(value, ast.Call) and isinstance(value.func, ast.Name) and value.func.id in GETPLUGIN \
            and value.func.id in self.module_defs

    def run(self):
        self.stmts(self.fn.body, ("always",))
        return self.steps


def module_name(rel: str) -> str:
    return rel[:-3].replace("/", ".")


def extract_save_fns(repo: Path) -> list[dict]:
    out = []
    for rel in SAVE_MODULES:
        tree = ast.parse((repo / rel).read_text())
        imported_from = {}
        for n in tree.body:
            if isinstance(n, ast.ImportFrom) and n.module:
                for al in n.names:
                    imported_from[al.asname or al.name] = n.module if al.asname is None else "alias:" + n.module
        module_defs = {n.name for n in tree.body if isinstance(n, ast.FunctionDef)}
        for fn in tree.body:
            if isinstance(fn, ast.FunctionDef) and fn.name.startswith("save_"):
                a = fn.args
                pos = [x.arg for x in a.posonlyargs + a.args]
                kwdefaults = {x.arg: d for x, d in zip(a.kwonlyargs, a.kw_defaults)}
                posdefaults = dict(zip(reversed(pos), reversed(a.defaults)))
                allow_param = "allow_overwrite" if "allow_overwrite" in kwdefaults or "allow_overwrite" in pos else ""
                d = kwdefaults.get("allow_overwrite", posdefaults.get("allow_overwrite"))
                allow_default = True if d is None else (d.value if isinstance(d, ast.Constant) and isinstance(d.value, bool) else True)
                ex = FnExtractor(fn, imported_from, module_defs)
                out.append({
                    "name": fn.name, "module": module_name(rel),
                    "path_param": pos[1] if len(pos) > 1 else "",
                    "allow_param": allow_param,
                    "format_param": "format_name" if "format_name" in pos or "format_name" in kwdefaults else "",
                    "allow_default": bool(allow_default),
                    "decorators": [dotted(x) for x in fn.decorator_list],
                    "steps": ex.run(),
                })
    return out


def is_test_path(p: Path) -> bool:
    parts = p.parts
    return any(x in ("test", "tests") for x in parts) or p.name.startswith("test_") or p.name == "conftest.py"


def extract_call_sites(repo: Path) -> list[dict]:
    """every direct call `save_*( … )` in non-test glotaran code with the way `allow_overwrite` is passed"""
    sites = []
    for f in sorted((repo / "glotaran").rglob("*.py")):
        rel = f.relative_to(repo)
        if is_test_path(rel):
            continue
        try:
            tree = ast.parse(f.read_text())
        except SyntaxError:
            continue

        def walk(node, qual, params):
            for ch in ast.iter_child_nodes(node):
                if isinstance(ch, (ast.FunctionDef, ast.AsyncFunctionDef)):
                    a = ch.args
                    ps = [x.arg for x in a.posonlyargs + a.args + a.kwonlyargs]
                    walk(ch, (qual + "." if qual else "") + ch.name, ps)
                elif isinstance(ch, ast.ClassDef):
                    walk(ch, (qual + "." if qual else "") + ch.name, params)
                else:
                    if isinstance(ch, ast.Call) and isinstance(ch.func, ast.Name) and ch.func.id in SAVE_NAMES:
                        kws = {k.arg: k.value for k in ch.keywords if k.arg is not None}
                        star = any(k.arg is None for k in ch.keywords)
                        ref = argref(kws.get("allow_overwrite"), params)
                        if ref == ("absent",) and star:
                            ref = ("other", "**kwargs")
                        sites.append({"file": rel.as_posix(), "caller": qual or "<module>", "callee": ch.func.id,
                                      "allow": ref, "line": ch.lineno})
                    walk(ch, qual, params)

        walk(tree, "", [])
    return sites


def extract_constants(repo: Path) -> dict:
    """regular expressions and run-name f-strings of project_result_registry.py / project.py (source text)"""
    rel = "glotaran/project/project_result_registry.py"
    tree = ast.parse((repo / rel).read_text())
    consts = {"class_patterns": [], "run_name_formats": [], "previous_filter": [], "latest_sub_patterns": []}
    for cls in tree.body:
        if isinstance(cls, ast.ClassDef) and cls.name == "ProjectResultRegistry":
            for n in cls.body:
                if isinstance(n, ast.Assign) and isinstance(n.value, ast.Call) and dotted(n.value.func) == "re.compile" \
                        and n.value.args and isinstance(n.value.args[0], ast.Constant):
                    consts["class_patterns"].append((n.targets[0].id, n.value.args[0].value))
                if isinstance(n, ast.FunctionDef) and n.name == "create_result_run_name":
                    for r in ast.walk(n):
                        if isinstance(r, ast.Return) and isinstance(r.value, ast.JoinedStr):
                            consts["run_name_formats"].append(joined_parts(r.value))
                if isinstance(n, ast.FunctionDef) and n.name == "previous_result_paths":
                    for r in ast.walk(n):
                        if isinstance(r, ast.JoinedStr):
                            consts["previous_filter"].append(joined_parts(r))
    tree = ast.parse((repo / "glotaran/project/project.py").read_text())
    for cls in tree.body:
        if isinstance(cls, ast.ClassDef) and cls.name == "Project":
            for n in cls.body:
                if isinstance(n, ast.FunctionDef) and n.name in ("get_latest_result_path", "load_latest_result"):
                    for c in ast.walk(n):
                        if isinstance(c, ast.Call) and dotted(c.func) == "re.sub" and c.args:
                            consts["latest_sub_patterns"].append((n.name, ast.unparse(c.args[0]).split(".")[-1]))
    return consts


def joined_parts(js: ast.JoinedStr) -> list[str]:
    parts = []
    for v in js.values:
        if isinstance(v, ast.Constant):
            parts.append(str(v.value))
        elif isinstance(v, ast.FormattedValue):
            spec = ""
            if v.format_spec is not None:
                spec = ":" + "".join(str(x.value) for x in v.format_spec.values if isinstance(x, ast.Constant))
            # only what the text of the name depends on: a wrapping call (re.escape) and the format spec;
            # the names of locals are free to change
            inner = dotted(v.value.func) + "()" if isinstance(v.value, ast.Call) else ""
            parts.append("{" + inner + spec + "}")
    return parts



# ------------------------------------------------------------------------------------------------
# builtin result plugins: which files YmlProjectIo.save_result / FolderProjectIo.save_result write
# ------------------------------------------------------------------------------------------------
RESULT_PLUGINS = [
    ("glotaran/builtin/io/yml/yml.py", "YmlProjectIo"),
    ("glotaran/builtin/io/folder/folder_plugin.py", "FolderProjectIo"),
]
PLUGIN_PURE_NAMES = PURE_NAMES | {"replace", "asdict", "relative_posix_path", "warn", "UserWarning", "warn_deprecated"}
PLUGIN_PURE_METHODS = {"as_posix", "append", "extend", "markdown", "items", "keys", "values", "is_file", "is_dir", "exists", "get"}
FILE_WRITER_METHODS = {"write_text": None, "write_bytes": None,          # target = the receiver
                       "to_csv": 0, "to_netcdf": 0, "to_excel": 0}       # target = that positional argument


class PluginExtractor:
    """symbolic walk over one `save_result` method of a result plugin.

    Path values: ('param',) the raw `result_path`; ('folder',); ('file',); ('in', parts) = folder / name;
    ('name', parts) a bare file name; ('other', src).  Name parts: ('text', s) | ('label',) | ('paramFormat',) |
    ('dataFormat',) | ('other', src)."""

    def __init__(self, fn: ast.FunctionDef):
        self.fn = fn
        a = fn.args
        self.params = [x.arg for x in a.posonlyargs + a.args + a.kwonlyargs]
        self.path_param = self.params[2] if len(self.params) > 2 else ""
        self.vars: dict[str, tuple] = {self.path_param: ("param",)}
        self.label_vars: set[str] = set()
        self.steps: list[dict] = []
        self.suffixes: list[str] = []
        self.default_file = ""
        self.next_maybe = 0

    def maybe(self):
        c = ("maybe", self.next_maybe)
        self.next_maybe += 1
        return c

    def emit(self, eff, cond):
        self.steps.append({"eff": eff, "cond": cond})

    # -- symbolic values ---------------------------------------------------------------------
    def name_parts(self, node):
        if isinstance(node, ast.Constant) and isinstance(node.value, str):
            return [("text", node.value)]
        if isinstance(node, ast.JoinedStr):
            parts = []
            for v in node.values:
                if isinstance(v, ast.Constant):
                    parts.append(("text", str(v.value)))
                elif isinstance(v, ast.FormattedValue) and v.format_spec is None and v.conversion == -1:
                    src = ast.unparse(v.value)
                    if isinstance(v.value, ast.Name) and v.value.id in self.label_vars:
                        parts.append(("label",))
                    elif src == "saving_options.parameter_format":
                        parts.append(("paramFormat",))
                    elif src == "saving_options.data_format":
                        parts.append(("dataFormat",))
                    else:
                        parts.append(("other", src))
                else:
                    parts.append(("other", ast.unparse(v)))
            return parts
        if isinstance(node, ast.Name) and self.vars.get(node.id, ("",))[0] == "name":
            return self.vars[node.id][1]
        return None

    def sym(self, node):
        if node is None:
            return ("other", "<absent>")
        if isinstance(node, ast.Name):
            return self.vars.get(node.id, ("other", node.id))
        if isinstance(node, ast.Call) and isinstance(node.func, ast.Name) and node.func.id in ("Path", "str") and len(node.args) == 1 \
                and not node.keywords:
            return self.sym(node.args[0])
        if isinstance(node, ast.BinOp) and isinstance(node.op, ast.Div):
            left, parts = self.sym(node.left), self.name_parts(node.right)
            if parts is not None and left in (("folder",), ("param",)):
                return ("in", parts) if left == ("folder",) else ("inparam", parts)
            return ("other", ast.unparse(node))
        if isinstance(node, ast.Attribute) and node.attr == "parent" and self.sym(node.value) == ("file",):
            return ("folder",)
        parts = self.name_parts(node)
        if parts is not None:
            return ("name", parts)
        return ("other", ast.unparse(node))

    # -- calls -----------------------------------------------------------------------------
    def expr(self, node, cond):
        if node is None:
            return
        if isinstance(node, (ast.BoolOp, ast.IfExp, ast.Lambda, ast.ListComp, ast.SetComp, ast.DictComp, ast.GeneratorExp)):
            c = self.maybe()
            for ch in ast.walk(node):
                if isinstance(ch, ast.Call):
                    self.emit(self.classify(ch), c)
            return
        if isinstance(node, ast.Call):
            if isinstance(node.func, ast.Attribute):
                self.expr(node.func.value, cond)
            for a in node.args:
                self.expr(a.value if isinstance(a, ast.Starred) else a, cond)
            for k in node.keywords:
                self.expr(k.value, cond)
            eff = self.classify(node)
            if eff is not None:
                self.emit(eff, cond)
            return
        for ch in ast.iter_child_nodes(node):
            if isinstance(ch, ast.expr):
                self.expr(ch, cond)

    def classify(self, call: ast.Call):
        f = call.func
        kws = {k.arg: k.value for k in call.keywords if k.arg is not None}
        if isinstance(f, ast.Name):
            n = f.id
            if n in SAVE_NAMES:
                path = call.args[1] if len(call.args) > 1 else kws.get("result_path", kws.get("file_name"))
                allow = argref(kws.get("allow_overwrite"), self.params)
                if n == "save_result":
                    fmt = kws.get("format_name")
                    fmt = fmt.value if isinstance(fmt, ast.Constant) and isinstance(fmt.value, str) else ""
                    return ("delegate", fmt, self.sym(path), allow)
                return ("write", n, self.sym(path), allow)
            if n == "write_dict":
                path = kws.get("file_name", call.args[1] if len(call.args) > 1 else None)
                if path is None:
                    return None
                return ("write", n, self.sym(path), ("absent",))
            if n in PLUGIN_PURE_NAMES:
                return None
            return ("unknown", n)
        if isinstance(f, ast.Attribute):
            if f.attr in FILE_WRITER_METHODS:
                i = FILE_WRITER_METHODS[f.attr]
                if i is None:
                    return ("write", "." + f.attr, self.sym(f.value), ("absent",))
                path = call.args[i] if len(call.args) > i else kws.get("path_or_buf", kws.get("path"))
                if path is None:
                    return None     # returns a string
                return ("write", "." + f.attr, self.sym(path), ("absent",))
            if f.attr == "mkdir":
                return ("mkdir", self.sym(f.value))
            if f.attr in PLUGIN_PURE_METHODS:
                return None
            return ("unknown", dotted(f))
        return ("unknown", dotted(f))

    # -- statements --------------------------------------------------------------------------
    def stmts(self, body, cond):
        for i, s in enumerate(body):
            if i == 0 and body is self.fn.body and isinstance(s, ast.Expr) and isinstance(s.value, ast.Constant) \
                    and isinstance(s.value.value, str):
                continue
            self.stmt(s, cond)

    def suffix_idiom(self, s: ast.If):
        """`if v.suffix not in [".yml", …]: v = v / "result.yml"` with v bound to the raw path parameter"""
        t = s.test
        if not (isinstance(t, ast.Compare) and len(t.ops) == 1 and isinstance(t.ops[0], ast.NotIn) and not s.orelse
                and isinstance(t.left, ast.Attribute) and t.left.attr == "suffix" and isinstance(t.left.value, ast.Name)):
            return False
        v = t.left.value.id
        lst_ = t.comparators[0]
        if self.vars.get(v) != ("param",) or not isinstance(lst_, (ast.List, ast.Tuple)) \
                or not all(isinstance(e, ast.Constant) and isinstance(e.value, str) and e.value.startswith(".") for e in lst_.elts):
            return False
        if len(s.body) != 1 or not isinstance(s.body[0], ast.Assign) or len(s.body[0].targets) != 1:
            return False
        tgt, val = s.body[0].targets[0], s.body[0].value
        if not (isinstance(tgt, ast.Name) and tgt.id == v and isinstance(val, ast.BinOp) and isinstance(val.op, ast.Div)
                and isinstance(val.left, ast.Name) and val.left.id == v and isinstance(val.right, ast.Constant)
                and isinstance(val.right.value, str)):
            return False
        self.suffixes = [e.value[1:] for e in lst_.elts]
        self.default_file = val.right.value
        for k, sv in list(self.vars.items()):
            if sv == ("param",):
                self.vars[k] = ("other", "raw path parameter") if k != v else ("file",)
        return True

    def stmt(self, s, cond):
        if isinstance(s, ast.Expr):
            self.expr(s.value, cond)
        elif isinstance(s, (ast.Assign, ast.AnnAssign)):
            value = s.value
            self.expr(value, cond)
            targets = s.targets if isinstance(s, ast.Assign) else [s.target]
            for t in targets:
                if isinstance(t, ast.Name):
                    if value is not None and not isinstance(value, ast.Call) or (
                            isinstance(value, ast.Call) and isinstance(value.func, ast.Name) and value.func.id in ("Path", "str")):
                        sv = self.sym(value)
                        self.vars[t.id] = sv if cond == ("always",) or sv[0] != "other" else ("other", "conditional " + t.id)
                    else:
                        self.vars[t.id] = ("other", t.id)
        elif isinstance(s, ast.AugAssign):
            self.expr(s.value, cond)
        elif isinstance(s, ast.Return):
            self.expr(s.value, cond)
        elif isinstance(s, ast.If):
            if cond == ("always",) and self.suffix_idiom(s):
                return
            t = s.test
            # `if X.is_file(): raise …`
            if isinstance(t, ast.Call) and isinstance(t.func, ast.Attribute) and t.func.attr == "is_file" and not s.orelse \
                    and len(s.body) == 1 and isinstance(s.body[0], ast.Raise):
                exc = s.body[0].exc
                self.emit(("refuse", self.sym(t.func.value), dotted(exc.func) if isinstance(exc, ast.Call) else dotted(exc)), cond)
                return
            self.expr(t, cond)
            if ast.unparse(t) in ("saving_options.report", "saving_options.report is True") and cond == ("always",) and not s.orelse:
                self.stmts(s.body, ("ifReport",))
                return
            self.stmts(s.body, self.maybe())
            if s.orelse:
                self.stmts(s.orelse, self.maybe())
        elif isinstance(s, ast.For):
            self.expr(s.iter, cond)
            it, tg = ast.unparse(s.iter), s.target
            if cond == ("always",) and it in ("result.data.items()", "result.data") and not s.orelse:
                lv = tg.elts[0] if isinstance(tg, ast.Tuple) and len(tg.elts) == 2 else tg
                if isinstance(lv, ast.Name):
                    self.label_vars.add(lv.id)
                    self.stmts(s.body, ("forEachLabel",))
                    self.label_vars.discard(lv.id)
                    return
            c = self.maybe()
            self.stmts(s.body, c)
            self.stmts(s.orelse, c)
        elif isinstance(s, ast.Raise):
            self.expr(s.exc, cond)
            self.emit(("unknown", "raise"), cond)
        elif isinstance(s, (ast.Pass, ast.Import, ast.ImportFrom)):
            pass
        else:
            for ch in ast.walk(s):
                if isinstance(ch, ast.Call):
                    eff = self.classify(ch)
                    if eff is not None:
                        self.emit(eff, self.maybe())
            self.emit(("unknown", "stmt:" + type(s).__name__), cond)

    def run(self):
        self.stmts(self.fn.body, ("always",))
        is_folder = not self.suffixes

        def place(sv):
            if sv == ("param",):
                return ("folder",) if is_folder else ("other", "raw path parameter")
            if sv[0] == "inparam":
                return ("in", sv[1]) if is_folder else ("other", "raw path parameter / name")
            if sv[0] == "name":
                return ("other", "bare file name")
            return sv

        out = []
        for st in self.steps:
            e = st["eff"]
            if e[0] in ("write", "delegate"):
                e = (e[0], e[1], place(e[2]), e[3])
            elif e[0] in ("mkdir", "refuse"):
                e = (e[0], place(e[1])) + tuple(e[2:])
            out.append({"eff": e, "cond": st["cond"]})
        return out


def extract_result_plugins(repo: Path) -> list[dict]:
    out = []
    for rel, cls_name in RESULT_PLUGINS:
        tree = ast.parse((repo / rel).read_text())
        for cls in tree.body:
            if isinstance(cls, ast.ClassDef) and cls.name == cls_name:
                formats = []
                for d in cls.decorator_list:
                    if isinstance(d, ast.Call) and dotted(d.func) == "register_project_io" and d.args:
                        a0 = d.args[0]
                        formats = [e.value for e in a0.elts] if isinstance(a0, (ast.List, ast.Tuple)) else [a0.value]
                for fn in cls.body:
                    if isinstance(fn, ast.FunctionDef) and fn.name == "save_result":
                        pe = PluginExtractor(fn)
                        steps = pe.run()
                        out.append({"formats": formats, "cls": cls_name, "file": rel, "suffixes": pe.suffixes,
                                    "default_file": pe.default_file, "steps": steps})
    return out


# rendering of the plugin table comes after lean_argref/lean_list below

def lean_namepart(x) -> str:
    if x[0] == "text":
        return f"(.text {lean_str(x[1])})"
    if x[0] == "other":
        return f"(.other {lean_str(x[1])})"
    return "." + x[0]


def lean_target(t) -> str:
    if t[0] == "folder":
        return ".folder"
    if t[0] == "file":
        return ".resultFile"
    if t[0] == "in":
        return "(.inFolder [" + ", ".join(lean_namepart(x) for x in t[1]) + "])"
    return f"(.other {lean_str(t[1] if len(t) > 1 and isinstance(t[1], str) else repr(t))})"


def lean_pcond(c) -> str:
    return {"always": ".always", "ifReport": ".ifReport", "forEachLabel": ".forEachLabel"}.get(c[0]) or f"(.maybe {c[1]})"


def lean_peffect(e) -> str:
    k = e[0]
    if k == "refuse":
        return f"(.refuseIfFile {lean_target(e[1])})" if e[2] == "ValueError" else f"(.unknownCall {lean_str('raise ' + e[2])})"
    if k == "mkdir":
        return f"(.mkdir {lean_target(e[1])})"
    if k == "write":
        return f"(.write {lean_str(e[1])} {lean_target(e[2])} {lean_argref(e[3])})"
    if k == "delegate":
        return f"(.delegate {lean_str(e[1])} {lean_target(e[2])} {lean_argref(e[3])})"
    return f"(.unknownCall {lean_str(e[1])})"


def render_plugins(plugins) -> str:
    items = []
    for pl in plugins:
        steps = lean_list((f"⟨{lean_peffect(s['eff'])}, {lean_pcond(s['cond'])}⟩" for s in pl["steps"]), "      ")
        items.append(
            "{ formats := [%s], cls := %s, file := %s,\n    fileSuffixes := [%s], defaultFile := %s,\n    steps := %s }"
            % (", ".join(lean_str(f) for f in pl["formats"]), lean_str(pl["cls"]), lean_str(pl["file"]),
               ", ".join(lean_str(x) for x in pl["suffixes"]), lean_str(pl["default_file"]), steps))
    return (
        "/-- step lists of the builtin result plugins (`save_result` of the yml and the folder plugin): which files\n"
        "    they write, relative to the result folder -/\n"
        "def resultPlugins : List ResultPlugin := " + lean_list(items, "  ") + "\n\n")


def proto_plugins(plugins, enc, strs, lst) -> str:
    """the canonical text the Lean driver prints for `plugins`"""
    def part(x):
        return x[0] + (":" + enc(x[1]) if x[0] in ("text", "other") else "")

    def target(t):
        if t[0] == "folder":
            return "folder"
        if t[0] == "file":
            return "file"
        if t[0] == "in":
            return "in:" + lst(part(x) for x in t[1])
        return "other:" + enc(t[1] if len(t) > 1 and isinstance(t[1], str) else repr(t))

    def cond(c):
        return c[0] if c[0] != "maybe" else f"maybe:{c[1]}"

    def eff(e):
        k = e[0]
        if k == "refuse":
            return f"refuse,{target(e[1])}" if e[2] == "ValueError" else f"unknown,{enc('raise ' + e[2])}"
        if k == "mkdir":
            return f"mkdir,{target(e[1])}"
        if k in ("write", "delegate"):
            return f"{k},{enc(e[1])},{target(e[2])},{proto_argref(e[3], enc)}"
        return f"unknown,{enc(e[1])}"

    return lst(
        f"[{strs(pl['formats'])},{enc(pl['cls'])},{strs(pl['suffixes'])},{enc(pl['default_file'])},"
        + lst(f"[{eff(s['eff'])},{cond(s['cond'])}]" for s in pl["steps"]) + "]"
        for pl in plugins)


# ------------------------------------------------------------------------------------------------
# rendering
# ------------------------------------------------------------------------------------------------
def lean_argref(r) -> str:
    if r[0] == "param":
        return f"(.param {lean_str(r[1])})"
    if r[0] == "lit":
        return f"(.lit {'true' if r[1] else 'false'})"
    if r[0] == "absent":
        return ".absent"
    return f"(.other {lean_str(r[1])})"


def lean_cond(c) -> str:
    if c[0] == "always":
        return ".always"
    if c[0] == "unless":
        return f"(.unlessTruthy {lean_str(c[1])})"
    return f"(.maybe {c[1]})"


def lean_bool(b) -> str:
    return "true" if b else "false"


def lean_effect(e) -> str:
    k = e[0]
    if k == "protect":
        return f"(.protect {lean_argref(e[1])} {lean_argref(e[2])})"
    if k == "infer":
        return f"(.inferFormat {lean_argref(e[1])} {lean_bool(e[2])} {lean_bool(e[3])})"
    name = {"getplugin": "getPlugin", "plugin": "pluginCall", "mutate": "mutateArg", "pure": "pureCall",
            "raise": "raises", "unknown": "unknownCall"}[k]
    return f"(.{name} {lean_str(e[1])})"


def lean_list(items, indent="    ") -> str:
    items = list(items)
    if not items:
        return "[]"
    return "[\n" + ",\n".join(indent + x for x in items) + "]"


def render(save_fns, call_sites, consts, plugins=()) -> str:
    fns = []
    for f in save_fns:
        steps = lean_list((f"⟨{lean_effect(s['eff'])}, {lean_cond(s['cond'])}⟩" for s in f["steps"]), "      ")
        fns.append(
            "{ name := %s, module := %s,\n    pathParam := %s, allowParam := %s, formatParam := %s,\n"
            "    allowDefault := %s, decorators := [%s],\n    steps := %s }"
            % (lean_str(f["name"]), lean_str(f["module"]), lean_str(f["path_param"]), lean_str(f["allow_param"]),
               lean_str(f["format_param"]), lean_bool(f["allow_default"]),
               ", ".join(lean_str(d) for d in f["decorators"]), steps))
    sites = [
        "{ file := %s, caller := %s, callee := %s, allow := %s }"
        % (lean_str(s["file"]), lean_str(s["caller"]), lean_str(s["callee"]), lean_argref(s["allow"]))
        for s in call_sites
    ]
    pats = ", ".join(f"({lean_str(n)}, {lean_str(p)})" for n, p in consts["class_patterns"])
    fmts = ", ".join("[" + ", ".join(lean_str(x) for x in parts) + "]" for parts in consts["run_name_formats"])
    prev = ", ".join("[" + ", ".join(lean_str(x) for x in parts) + "]" for parts in consts["previous_filter"])
    subs = ", ".join(f"({lean_str(n)}, {lean_str(p)})" for n, p in consts["latest_sub_patterns"])
    return (
        "/- GENERATED by harness/props/c18.py (generate) from the source text of VERIF_REPO — do not edit.\n"
        "   SaveFns: effect lists of the save_* functions of glotaran/plugin_system/project_io_registration.py and\n"
        "   data_io_registration.py; CallSites: every direct save_*(…) call in non-test glotaran code;\n"
        "   constants of glotaran/project/project_result_registry.py and project.py. -/\n"
        "import GlotaranModel.C18\n"
        "namespace Glotaran.C18.Generated\n"
        "open Glotaran.C18\n\n"
        "def saveFns : List SaveFn := " + lean_list(fns, "  ") + "\n\n"
        "def callSites : List CallSite := " + lean_list(sites, "  ") + "\n\n"
        "/-- `re.compile` class attributes of ProjectResultRegistry: (name, pattern) -/\n"
        f"def classPatterns : List (String × String) := [{pats}]\n\n"
        "/-- the f-strings returned by create_result_run_name, split into their parts -/\n"
        f"def runNameFormats : List (List String) := [{fmts}]\n\n"
        "/-- the f-strings inside previous_result_paths (the filter for runs of a name) -/\n"
        f"def previousFilter : List (List String) := [{prev}]\n\n"
        "/-- which class pattern `re.sub` removes in get_latest_result_path / load_latest_result -/\n"
        f"def latestSubPatterns : List (String × String) := [{subs}]\n\n"
        + render_plugins(plugins) +
        "end Glotaran.C18.Generated\n"
    )


def source_sha1(repo: Path, files) -> str:
    h = hashlib.sha1()
    for f in files:
        h.update((repo / f).read_bytes())
    return h.hexdigest()


def proto_argref(r, enc) -> str:
    if r[0] == "param":
        return "param:" + enc(r[1])
    if r[0] == "lit":
        return "lit:" + ("T" if r[1] else "F")
    if r[0] == "absent":
        return "absent"
    return "other:" + enc(r[1])


def proto_table(save_fns, enc, strs, lst) -> str:
    """the canonical text the Lean driver prints for `table` (cross-check of the rendering)"""
    def cond(c):
        return "always" if c[0] == "always" else (f"unless:{enc(c[1])}" if c[0] == "unless" else f"maybe:{c[1]}")

    def eff(e):
        k = e[0]
        b = lambda x: "T" if x else "F"
        if k == "protect":
            return f"protect,{proto_argref(e[1], enc)},{proto_argref(e[2], enc)}"
        if k == "infer":
            return f"infer,{proto_argref(e[1], enc)},{b(e[2])},{b(e[3])}"
        return f"{k},{enc(e[1])}"

    return lst(
        f"[{enc(f['name'])},{enc(f['module'])},{enc(f['path_param'])},{enc(f['allow_param'])},{enc(f['format_param'])},"
        f"{'T' if f['allow_default'] else 'F'},{strs(f['decorators'])},"
        + lst(f"[{eff(s['eff'])},{cond(s['cond'])}]" for s in f["steps"]) + "]"
        for f in save_fns)
