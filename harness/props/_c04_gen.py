"""C04 helpers: case specifications, generators, the harness' own (independent) construction of K and j.

A *spec* is plain JSON:
  {"kind": "decay", "ic_comps": [...], "ic_params": [...], "excl": [...],
   "kms": [[[to, from, value], ...], ...], "km_labels": [...], "times": [...], "tag": "..."}
  {"kind": "par" | "seq", "comps": [...], "rates": [...], "times": [...], "tag": "..."}
Numbers are Python floats (json round-trips doubles exactly).
"""
from __future__ import annotations

import itertools
import math
from fractions import Fraction

import numpy as np

NAMES = ["s1", "s2", "s3", "s4", "s5", "s6"]
ODD_NAMES = ["a", "ab", "b", "a b", "é", "s1", "s10", "S1", "x.y", "1"]


# ------------------------------------------------------------------------------------------
# independent construction of the rate-equation system from a spec (the documented semantics:
# entry (to, from) = rate constant of the transfer from -> to; (c, c) = loss channel of c;
# later K-matrices override earlier ones; compartments in the order of the initial concentration)
# ------------------------------------------------------------------------------------------
def merged_entries(spec) -> dict:
    d = {}
    for km in spec["kms"]:
        for to, fr, v in km:
            d[(to, fr)] = v
    return d


def system_of(spec, exact=False):
    """-> (compartments, K, j_normalised, j_raw); numpy doubles, or Fractions when exact"""
    num = (lambda x: Fraction(x)) if exact else float
    kind = spec["kind"]
    if kind == "decay":
        d = merged_entries(spec)
        used = set()
        for (to, fr) in d:
            used.add(to)
            used.add(fr)
        ic = spec["ic_comps"]
        comps = [c for c in ic if c in used]
        raw_all = [num(v) for v in spec["ic_params"]]
        incl = [c not in spec.get("excl", []) for c in ic]
        tot = sum((v for v, b in zip(raw_all, incl) if b), num(0))
        norm_all = [(v / tot if b else v) for v, b in zip(raw_all, incl)]
        pos = {}
        for i, c in enumerate(ic):
            pos.setdefault(c, i)
        j = [norm_all[i] for i, c in enumerate(ic) if c in used]
        jraw = [raw_all[i] for i, c in enumerate(ic) if c in used]
        edges = [(to, fr, num(v)) for (to, fr), v in d.items()]
    elif kind == "par":
        comps = list(spec["comps"])
        n = len(comps)
        j = [num(1) / num(n)] * n
        jraw = [num(1)] * n
        edges = [(c, c, num(r)) for c, r in zip(comps, spec["rates"])]
    else:
        comps = list(spec["comps"])
        n = len(comps)
        j = [num(1)] + [num(0)] * (n - 1)
        jraw = list(j)
        rates = spec["rates"]
        edges = [(comps[i + 1], comps[i], num(rates[i])) for i in range(n - 1)]
        edges.append((comps[-1], comps[-1], num(rates[n - 1])))
    n = len(comps)
    K = [[num(0)] * n for _ in range(n)]
    for to, fr, v in edges:
        a, b = comps.index(to), comps.index(fr)
        if a == b:
            K[a][a] -= v
        else:
            K[a][b] += v
            K[b][b] -= v
    if not exact:
        return comps, np.array(K, dtype=float).reshape(n, n), np.array(j, dtype=float), np.array(jraw, dtype=float)
    return comps, K, j, jraw


def has_loss(spec) -> bool:
    if spec["kind"] != "decay":
        return True
    return any(to == fr and v != 0 for (to, fr), v in merged_entries(spec).items())


def spectrum_ok(K: np.ndarray, min_gap=0.03):
    """real, pairwise distinct eigenvalues (relative gap), none positive"""
    if K.size == 0:
        return False, None
    ev = np.linalg.eigvals(K)
    scale = max(1e-300, float(np.max(np.abs(ev))))
    if float(np.max(np.abs(ev.imag))) > 1e-9 * scale:
        return False, ev
    re = np.sort(ev.real)
    for a, b in zip(re[:-1], re[1:]):
        if abs(b - a) <= min_gap * max(abs(a), abs(b), 1e-300):
            return False, ev
    if re[-1] > 1e-9 * scale:
        return False, ev
    return True, ev


# ------------------------------------------------------------------------------------------
# exact helpers (Fractions)
# ------------------------------------------------------------------------------------------
def det_frac(M):
    n = len(M)
    A = [row[:] for row in M]
    det = Fraction(1)
    for c in range(n):
        p = next((r for r in range(c, n) if A[r][c] != 0), None)
        if p is None:
            return Fraction(0)
        if p != c:
            A[c], A[p] = A[p], A[c]
            det = -det
        det *= A[c][c]
        inv = 1 / A[c][c]
        for r in range(c + 1, n):
            f = A[r][c] * inv
            if f:
                A[r] = [x - f * y for x, y in zip(A[r], A[c])]
    return det


def exact_spectrum(Kf, approx):
    """exact rational eigenvalues of the Fraction matrix Kf, listed in the order of the doubles `approx`
    (None if some eigenvalue is not a verifiable rational)"""
    n = len(Kf)
    out, used = [], []
    diag = [Kf[i][i] for i in range(n)]
    for lam in approx:
        cands = sorted(set(diag), key=lambda d: abs(float(d) - lam))[:3]
        f = Fraction(float(lam))
        for D in (1, 2 ** 12, 10 ** 6, 2 ** 40):
            cands.append(f.limit_denominator(D))
        hit = None
        for c in cands:
            if abs(float(c) - lam) > 1e-6 * max(1.0, abs(lam)):
                continue
            if c in used:
                continue
            M = [[Kf[i][k] - (c if i == k else 0) for k in range(n)] for i in range(n)]
            if det_frac(M) == 0:
                hit = c
                break
        if hit is None:
            return None
        used.append(hit)
        out.append(hit)
    return out


# ------------------------------------------------------------------------------------------
# numbers
# ------------------------------------------------------------------------------------------
def dyadic_rate(rng):
    return rng.choice([0.25, 0.5, 0.75, 1.0, 1.5, 2.0, 3.0, 4.0, 5.0, 6.0, 8.0, 0.125, 12.0, 16.0])


def wide_rate(rng):
    """log-uniform over six decades, a few significant digits or full doubles"""
    x = 10 ** rng.uniform(-3, 3)
    if rng.random() < 0.5:
        return float(f"{x:.{rng.randint(1, 4)}e}")
    return x


def rand_times(rng):
    k = rng.choice([0, 1, 2, 3, 5, 7])
    ts = [0.0] if rng.random() < 0.6 else []
    for _ in range(k):
        r = rng.random()
        if r < 0.5:
            ts.append(10 ** rng.uniform(-4, 3))
        elif r < 0.8:
            ts.append(rng.choice([0.25, 0.5, 1.0, 2.0, 3.0, 0.125, 10.0]))
        else:
            ts.append(float(rng.randint(0, 50)))
    mode = rng.random()
    if mode < 0.4:
        ts.sort()
    elif mode < 0.5:
        ts.sort(reverse=True)
    if ts and rng.random() < 0.15:
        ts.append(ts[0])           # duplicate point
    return ts


# ------------------------------------------------------------------------------------------
# measured-looking time axes in arbitrary units of time
# ------------------------------------------------------------------------------------------
AXIS_SHAPES = ["equidistant", "equidistant-offset", "pump-probe", "two-blocks", "log", "jittered", "one-gap", "drifting-step"]
# unit of time relative to the "natural" one (rates of order 1e-3 .. 1e3 per natural unit): the same experiment written
# in ps / ns / us / ms / s ... or in a finer unit; powers of two for the exact regime (dyadic rates stay dyadic)
TIME_UNITS = [1.0, 1e-3, 1e-6, 1e-9, 1e-12, 1e-12, 1e-15, 1e3]
TIME_UNITS_DYADIC = [1.0, 2.0 ** -10, 2.0 ** -20, 2.0 ** -30, 2.0 ** -40, 2.0 ** -40, 2.0 ** -50, 2.0 ** 10]


def structured_axis(rng, shape=None, npoints=None):
    """ascending axis with t >= 0 and >= 3 points, in natural units (values up to a few thousand)"""
    shape = shape or rng.choice(AXIS_SHAPES)
    n = npoints or rng.choice([3, 4, 5, 8, 13, 21, 34])
    step = rng.choice([0.25, 0.5, 1.0, 0.1, 0.01, 1.5, 10 ** rng.uniform(-2, 1)])
    if shape in ("equidistant", "equidistant-offset"):
        t0 = 0.0 if shape == "equidistant" else rng.choice([step, 3 * step, 10 ** rng.uniform(-1, 1)])
        ts = [t0 + i * step for i in range(n)]
    elif shape in ("pump-probe", "two-blocks"):
        # fine steps first, coarse steps afterwards (two-blocks: with a gap in between)
        n1 = max(2, n // 2 if shape == "two-blocks" else n // 3)
        coarse = step * rng.choice([2.0, 3.0, 10.0, 50.0, 7.3])
        ts = [i * step for i in range(n1)]
        start = ts[-1] + (coarse if shape == "pump-probe" else coarse * rng.choice([2.0, 5.0]))
        ts += [start + k * coarse for k in range(n - n1)]
    elif shape == "log":
        lo, hi = 10 ** rng.uniform(-3, -1), 10 ** rng.uniform(0.5, 3)
        ts = ([0.0] if rng.random() < 0.6 else []) + [lo * (hi / lo) ** (k / max(1, n - 2)) for k in range(n - 1)]
    elif shape == "jittered":
        ts = sorted(i * step + step * 0.4 * (rng.random() - 0.5) * (i > 0) for i in range(n))
    elif shape == "one-gap":
        gap_at = rng.randrange(1, n)
        extra = step * rng.choice([1.0, 4.0, 0.5, 20.0])
        ts = [i * step + (extra if i >= gap_at else 0.0) for i in range(n)]
    else:   # drifting-step: every step a little longer than the one before
        g = rng.choice([1.01, 1.05, 1.2, 1.5])
        ts, t, d = [], 0.0, step
        for _ in range(n):
            ts.append(t)
            t += d
            d *= g
    return [float(t) for t in ts], shape


def rescale_time_unit(spec, unit):
    """the same experiment written in another unit of time: times * unit, every rate constant / unit"""
    out = dict(spec)
    out["times"] = [float(t) * unit for t in spec["times"]]
    if spec["kind"] == "decay":
        out["kms"] = [[[to, fr, float(v) / unit] for to, fr, v in km] for km in spec["kms"]]
    else:
        out["rates"] = [float(v) / unit for v in spec["rates"]]
    return out


def rand_time_unit_spec(rng, kind=None, shape=None, unit=None):
    """decay / parallel / sequential case on a structured time axis, written in a random unit of time"""
    kind = kind or rng.choice(["decay", "decay", "decay", "par", "seq"])
    base = rand_decay_spec(rng) if kind == "decay" else rand_simple_spec(rng, kind)
    if base is None:
        return None
    base = dict(base)
    base["times"], shape = structured_axis(rng, shape)
    if unit is None:
        unit = rng.choice(TIME_UNITS_DYADIC if base.get("exact") else TIME_UNITS)
    spec = rescale_time_unit(base, unit)
    spec["tag"] = f"time-unit/{shape}/{unit:.0e}/" + str(base.get("tag", ""))
    # the spectrum condition is scale invariant; re-check because of the rounding of the division
    if not spectrum_ok(system_of(spec)[1])[0]:
        return None
    return spec


# ------------------------------------------------------------------------------------------
# topologies
# ------------------------------------------------------------------------------------------
TOPOLOGIES =["chain", "chain-noloss", "chain-backlast", "branch", "dag", "reversible", "parallel", "star",
              "chain+loss", "closed-dag", "closed-reversible"]


def topology_edges(rng, topo, names, rate):
    n = len(names)
    e = []
    if topo in ("chain", "chain-noloss", "chain-backlast", "chain+loss"):
        for i in range(n - 1):
            e.append([names[i + 1], names[i], rate()])
        if topo == "chain":
            e.append([names[-1], names[-1], rate()])
        elif topo == "chain-backlast" and n >= 2:
            e.append([names[rng.randrange(0, n - 1)], names[-1], rate()])
        elif topo == "chain+loss":
            e.append([names[-1], names[-1], rate()])
            for i in range(n - 1):
                if rng.random() < 0.5:
                    e.append([names[i], names[i], rate()])
    elif topo == "parallel":
        for c in names:
            e.append([c, c, rate()])
    elif topo == "star":
        for c in names[1:]:
            e.append([c, names[0], rate()])
            if rng.random() < 0.7:
                e.append([c, c, rate()])
    elif topo in ("branch", "dag", "closed-dag"):
        for i in range(n):
            for k in range(i + 1, n):
                if rng.random() < (0.35 if topo == "branch" else 0.6):
                    e.append([names[k], names[i], rate()])
            if topo != "closed-dag" and rng.random() < 0.5:
                e.append([names[i], names[i], rate()])
    elif topo in ("reversible", "closed-reversible"):
        for i in range(n - 1):
            e.append([names[i + 1], names[i], rate()])
            if rng.random() < 0.7:
                e.append([names[i], names[i + 1], rate()])
        if topo == "reversible":
            for i in range(n):
                if rng.random() < 0.4:
                    e.append([names[i], names[i], rate()])
    if not e:
        e.append([names[0], names[0], rate()])
    return e


J_KINDS = ["first", "first", "single", "all", "some", "half-half", "skewed", "ones", "second"]


def rand_j(rng, n, kind):
    if kind == "first":
        return [float(rng.choice([1, 1, 1, 2, 5]))] + [0.0] * (n - 1)
    if kind == "second":
        v = [0.0] * n
        v[min(1, n - 1)] = 1.0
        return v
    if kind == "single":
        v = [0.0] * n
        v[rng.randrange(n)] = float(rng.choice([1, 3]))
        return v
    if kind == "all":
        return [float(rng.randint(1, 5)) for _ in range(n)]
    if kind == "ones":
        return [1.0] * n
    if kind == "half-half":
        return ([0.5, 0.5] + [0.0] * (n - 2))[:n] if n >= 2 else [1.0]
    if kind == "skewed":
        return ([0.25, 0.75] + [0.0] * (n - 2))[:n] if n >= 2 else [1.0]
    v = [float(rng.randint(0, 3)) for _ in range(n)]
    if sum(v) == 0:
        v[rng.randrange(n)] = 1.0
    return v


def split_kms(rng, edges, rate):
    """distribute the entries over 1..3 K-matrices; sometimes an earlier matrix holds a value that a later
    one overrides"""
    k = rng.choice([1, 1, 1, 2, 2, 3])
    kms = [[] for _ in range(k)]
    for e in edges:
        kms[rng.randrange(k)].append(list(e))
    kms = [m for m in kms if m] or [[list(edges[0])]]
    if len(kms) > 1 and rng.random() < 0.5:
        victim = rng.choice(kms[-1])
        kms[0].insert(rng.randrange(len(kms[0]) + 1), [victim[0], victim[1], rate()])   # overridden later
    return kms


def rand_decay_spec(rng, exact=None, topo=None, jkind=None, n=None, ordered=None, tries=60):
    """a decay-megacomplex case with real, distinct eigenvalues (retry until the spectrum is acceptable)"""
    for _ in range(tries):
        nn = n or rng.choice([1, 2, 2, 3, 3, 3, 4, 4, 5, 5])
        ex = rng.random() < 0.35 if exact is None else exact
        rate = (lambda: dyadic_rate(rng)) if ex else (lambda: wide_rate(rng))
        names = list(NAMES[:nn]) if rng.random() < 0.85 else rng.sample(ODD_NAMES, nn)
        tp = topo or rng.choice(TOPOLOGIES)
        edges = topology_edges(rng, tp, names, rate)
        rng.shuffle(edges) if rng.random() < 0.6 else None
        order = list(names)
        in_order = (rng.random() < 0.55) if ordered is None else ordered
        if not in_order:
            rng.shuffle(order)
        jk = jkind or rng.choice(J_KINDS)
        jp = rand_j(rng, nn, jk)
        if ex and jk in ("all", "some"):
            # keep the normalisation exact: make the sum a power of two
            s = sum(jp)
            p2 = 2 ** math.ceil(math.log2(s)) if s > 0 else 1
            jp[0] += p2 - s
        excl = []
        if rng.random() < 0.2:
            excl = [c for c in order if rng.random() < 0.3]
            incl_sum = sum(v for c, v in zip(order, jp) if c not in excl)
            if incl_sum == 0:
                excl = []
        extra = []
        if rng.random() < 0.12:
            extra = ["unused" + str(i) for i in range(rng.randint(1, 2))]
            for x in extra:
                pos = rng.randrange(len(order) + 1)
                order.insert(pos, x)
                jp.insert(pos, float(rng.randint(0, 2)))
        spec = {"kind": "decay", "ic_comps": order, "ic_params": jp, "excl": excl,
                "kms": split_kms(rng, edges, rate), "times": rand_times(rng),
                "tag": f"{tp}/{jk}/{'E' if ex else 'R'}"}
        spec["km_labels"] = [f"k{i + 1}" for i in range(len(spec["kms"]))]
        comps, K, j, _ = system_of(spec)
        tot = sum(v for c, v in zip(order, jp) if c not in excl)
        if tot <= 0 or len(comps) == 0:
            continue
        ok, _ = spectrum_ok(K)
        if ok:
            spec["exact"] = bool(ex)
            return spec
    return None


def rand_simple_spec(rng, kind, exact=None, n=None):
    for _ in range(40):
        nn = n or rng.choice([1, 2, 2, 3, 3, 4, 5])
        ex = rng.random() < 0.4 if exact is None else exact
        names = list(NAMES[:nn]) if rng.random() < 0.8 else rng.sample(ODD_NAMES, nn)
        if rng.random() < 0.3:
            rng.shuffle(names)
        rates = [dyadic_rate(rng) if ex else wide_rate(rng) for _ in range(nn)]
        spec = {"kind": kind, "comps": names, "rates": rates, "times": rand_times(rng),
                "tag": f"{kind}/n{nn}/{'E' if ex else 'R'}", "exact": bool(ex)}
        _, K, _, _ = system_of(spec)
        if spectrum_ok(K)[0]:
            return spec
    return None


def equivalent_decay_spec(spec):
    """the general (decay) megacomplex that is documented to be equivalent to a parallel / sequential one"""
    comps, rates = spec["comps"], spec["rates"]
    n = len(comps)
    if spec["kind"] == "par":
        km = [[c, c, r] for c, r in zip(comps, rates)]
        jp = [1.0] * n
    else:
        km = [[comps[i + 1], comps[i], rates[i]] for i in range(n - 1)] + [[comps[-1], comps[-1], rates[n - 1]]]
        jp = [1.0] + [0.0] * (n - 1)
    return {"kind": "decay", "ic_comps": list(comps), "ic_params": jp, "excl": [], "kms": [km], "km_labels": ["k1"],
            "times": list(spec["times"]), "tag": "equivalent-of-" + spec["kind"], "exact": spec.get("exact", False)}


# ------------------------------------------------------------------------------------------
# exhaustive: every sparsity pattern of the reduced K for n <= 3 (fixed distinct dyadic values)
# ------------------------------------------------------------------------------------------
PATTERN_VALUES = [[1.0, 0.5, 0.25], [3.0, 2.0, 0.125], [0.75, 5.0, 1.5]]   # value of entry (row, col)
PATTERN_J = {1: [[1.0], [2.0]],
             2: [[1.0, 0.0], [0.0, 1.0], [0.5, 0.5], [0.25, 0.75], [1.0, 1.0], [2.0, 0.0]],
             3: [[1.0, 0.0, 0.0], [0.0, 1.0, 0.0], [0.5, 0.5, 0.0], [0.5, 0.25, 0.25], [0.0, 0.0, 1.0], [1.0, 1.0, 2.0]]}


def pattern_specs(n):
    names = NAMES[:n]
    cells = [(r, c) for r in range(n) for c in range(n)]
    for bits in itertools.product([0, 1], repeat=len(cells)):
        if not any(bits):
            continue
        km = [[names[r], names[c], PATTERN_VALUES[r][c]] for (r, c), b in zip(cells, bits) if b]
        # every compartment must be involved, otherwise the system is a smaller pattern
        if {x for e in km for x in e[:2]} != set(names):
            continue
        for jp in PATTERN_J[n]:
            yield {"kind": "decay", "ic_comps": list(names), "ic_params": list(jp), "excl": [], "kms": [km],
                   "km_labels": ["k1"], "times": [0.0, 0.5, 2.0], "tag": f"pattern/n{n}", "exact": True}


# ------------------------------------------------------------------------------------------
# reversible schemes with a rational spectrum (exact regime for the eigen path on non-triangular K)
# ------------------------------------------------------------------------------------------
def _rational_pairs():
    out = []
    for a4 in range(1, 33):
        for b4 in range(1, 33):
            for c4 in range(1, 33):
                disc = (a4 + b4 + c4) ** 2 - 4 * a4 * c4          # in units of 1/16
                r = math.isqrt(disc)
                if r * r == disc and r != 0:
                    out.append((a4 / 4.0, b4 / 4.0, c4 / 4.0))
    return out


RATIONAL_PAIRS = _rational_pairs()


def rational_reversible_spec(rng):
    """s1 <-> s2 with rational eigenvalues, optionally followed by an irreversible tail; dyadic numbers throughout"""
    for _ in range(40):
        a, b, c = rng.choice(RATIONAL_PAIRS)
        names = list(NAMES[:rng.choice([2, 3, 4])])
        edges = [[names[1], names[0], a], [names[0], names[1], b]]
        if len(names) == 2:
            edges.append([names[1], names[1], c])
        else:
            # the outflow c of s2 is split into a loss and a transfer into the tail
            d = rng.choice([x for x in (0.25, 0.5, 1.0, 2.0) if x <= c])
            if c - d > 0:
                edges.append([names[1], names[1], c - d])
            edges.append([names[2], names[1], d])
            for i in range(2, len(names)):
                if i + 1 < len(names):
                    edges.append([names[i + 1], names[i], dyadic_rate(rng)])
                if rng.random() < 0.7 or i + 1 == len(names):
                    edges.append([names[i], names[i], dyadic_rate(rng)])
        rng.shuffle(edges)
        order = list(names)
        if rng.random() < 0.5:
            rng.shuffle(order)
        jk = rng.choice(["first", "half-half", "ones", "single", "skewed"])
        jp = rand_j(rng, len(names), jk)
        if jk == "ones" and len(names) == 3:
            jp = [2.0, 1.0, 1.0]
        spec = {"kind": "decay", "ic_comps": order, "ic_params": jp, "excl": [], "kms": split_kms(rng, edges, lambda: dyadic_rate(rng)),
                "times": rand_times(rng), "tag": f"rational-reversible/{jk}/E", "exact": True}
        spec["km_labels"] = [f"k{i + 1}" for i in range(len(spec["kms"]))]
        # an overriding duplicate may have changed the spectrum: keep only if still real and distinct
        _, K, _, _ = system_of(spec)
        if spectrum_ok(K)[0]:
            return spec
    return None


# ------------------------------------------------------------------------------------------
# parallel / sequential megacomplexes with zero and equal rates
# ------------------------------------------------------------------------------------------
ZERO_EQUAL_MODES = ["zero-last", "zero-last", "zero-any", "zero-first", "zero-two", "equal", "equal-and-zero", "all-zero"]


def rand_zero_equal_spec(rng, kind=None, mode=None, n=None):
    """par / seq megacomplex whose rates contain zeros (anywhere) and / or equal values; the other rates are well
    separated.  In the property's domain iff all rates are pairwise distinct (then at most one is zero)."""
    kind = kind or rng.choice(["par", "seq"])
    mode = mode or rng.choice(ZERO_EQUAL_MODES)
    for _ in range(40):
        nn = n or rng.choice([1, 2, 2, 3, 3, 4, 5, 6])
        ex = rng.random() < 0.5
        names = list(NAMES[:nn]) if rng.random() < 0.8 else rng.sample(ODD_NAMES, nn)
        if rng.random() < 0.3:
            rng.shuffle(names)
        rates = [dyadic_rate(rng) if ex else wide_rate(rng) for _ in range(nn)]
        base = {"kind": kind, "comps": names, "rates": list(rates), "times": [], "exact": True}
        if nn > 1 and not spectrum_ok(system_of(base)[1])[0]:
            continue
        if mode == "zero-last":
            rates[-1] = 0.0
        elif mode == "zero-first":
            rates[0] = 0.0
        elif mode == "zero-any":
            rates[rng.randrange(nn)] = 0.0
        elif mode == "zero-two":
            for i in rng.sample(range(nn), min(2, nn)):
                rates[i] = 0.0
        elif mode == "equal":
            if nn >= 2:
                a, b = rng.sample(range(nn), 2)
                rates[a] = rates[b]
        elif mode == "equal-and-zero":
            if nn >= 2:
                a, b = rng.sample(range(nn), 2)
                rates[a] = rates[b]
            rates[rng.randrange(nn)] = 0.0
        else:
            rates = [0.0] * nn
        return {"kind": kind, "comps": names, "rates": rates, "times": rand_times(rng),
                "tag": f"zeroeq-{kind}-{mode}/n{nn}/{'E' if ex else 'R'}", "exact": bool(ex)}
    return None


# ------------------------------------------------------------------------------------------
# several decay megacomplexes in one dataset model, sharing one initial-concentration item
# ------------------------------------------------------------------------------------------
MULTI_NAMES = ["s2", "s10", "s1", "b", "a", "é", "S1", "x y"]         # not in lexicographic order on purpose


def sub_spec(spec, m):
    """the single-megacomplex case a megacomplex of a multi spec corresponds to (same initial-concentration item)"""
    if m["kind"] == "decay":
        return {"kind": "decay", "ic_comps": list(spec["ic_comps"]), "ic_params": list(spec["ic_params"]),
                "excl": list(spec.get("excl", [])), "kms": m["kms"], "km_labels": m["km_labels"],
                "times": list(spec["times"]), "tag": "sub-of-multi", "exact": spec.get("exact", False)}
    return {"kind": m["kind"], "comps": list(m["comps"]), "rates": list(m["rates"]), "times": list(spec["times"]),
            "tag": "sub-of-multi", "exact": spec.get("exact", False)}


def multi_ok(spec):
    """every megacomplex has a non-empty system with an acceptable spectrum and a non-negative finite j"""
    seen_km = set()
    for m in spec["megas"]:
        try:
            comps, K, j, _ = system_of(sub_spec(spec, m))
        except Exception:
            return False
        if len(comps) == 0 or not np.all(np.isfinite(j)) or np.any(j < 0):
            return False
        if not spectrum_ok(K)[0]:
            return False
        for lab in m.get("km_labels", []):
            if lab in seen_km:
                return False
            seen_km.add(lab)
    tot = sum(v for c, v in zip(spec["ic_comps"], spec["ic_params"]) if c not in spec.get("excl", []))
    return tot > 0


def rand_multi_spec(rng):
    for _ in range(60):
        nic = rng.choice([2, 3, 3, 4, 5])
        ic = rng.sample(MULTI_NAMES, nic)
        ex = rng.random() < 0.6
        rate = (lambda: dyadic_rate(rng)) if ex else (lambda: wide_rate(rng))
        params = [float(rng.choice([1, 1, 2, 3, 4, 0.5, 0])) for _ in ic]
        excl = [c for c in ic if rng.random() < 0.3] if rng.random() < 0.6 else []
        # split the compartments over 1..3 decay megacomplexes (sometimes overlapping in one compartment)
        k = rng.choice([1, 2, 2, 2, 3])
        groups = [[] for _ in range(k)]
        for c in ic:
            groups[rng.randrange(k)].append(c)
        groups = [g for g in groups if g]
        if len(groups) > 1 and rng.random() < 0.25:
            src = rng.choice(groups)
            dst = rng.choice([g for g in groups if g is not src])
            dst.append(rng.choice(src))
        megas = []
        kc = 0
        for gi, g in enumerate(groups):
            g = list(g)
            rng.shuffle(g)
            topo = rng.choice(["chain", "chain", "parallel", "branch", "chain+loss", "star", "chain-noloss"])
            edges = topology_edges(rng, topo, g, rate)
            kms = split_kms(rng, edges, rate)
            labs = [f"k{kc + i + 1}" for i in range(len(kms))]
            kc += len(kms)
            megas.append({"kind": "decay", "label": rng.choice(["mc", "m", "decay_", "x+"]) + str(gi + 1), "kms": kms, "km_labels": labs})
        if rng.random() < 0.4:
            kind = rng.choice(["par", "seq"])
            nn = rng.choice([1, 2, 3])
            own = rng.sample(["p2", "p1", "p10", "q"], nn)
            if rng.random() < 0.3:
                own[rng.randrange(nn)] = rng.choice(ic)          # shares a clp label with a decay megacomplex
            if len(set(own)) == nn:
                megas.append({"kind": kind, "label": kind + "X", "comps": own, "rates": [rate() for _ in own]})
        rng.shuffle(megas)
        spec = {"kind": "multi", "ic_comps": ic, "ic_params": params, "excl": excl, "megas": megas,
                "times": sorted(set([0.0] + [float(t) for t in rand_times(rng) if 0 <= t < 200])),
                "global_dimension": "pixel" if rng.random() < 0.3 else "spectral",
                "tag": f"multi/{len(megas)}/{'E' if ex else 'R'}", "exact": bool(ex)}
        if multi_ok(spec):
            return spec
    return None


def multi_config_specs():
    """small configurations, enumerated: every declaration order of three non-lexicographic labels x
    exclude_from_normalize subsets x ways of splitting the scheme over decay megacomplexes x megacomplex order"""
    labels = ["s2", "s10", "s1"]
    val = {"s2": 1.0, "s10": 5.0, "s1": 2.0}
    splits = {
        "one-chain": [[["s10", "s1", 2.0], ["s2", "s10", 0.5], ["s2", "s2", 0.25]]],
        "chain+single": [[["s2", "s1", 2.0], ["s2", "s2", 0.5]], [["s10", "s10", 0.25]]],
        "three-singles": [[["s1", "s1", 2.0]], [["s2", "s2", 0.5]], [["s10", "s10", 0.25]]],
        "overlap": [[["s2", "s1", 2.0], ["s2", "s2", 0.5]], [["s10", "s2", 0.25], ["s10", "s10", 4.0]]],
    }
    for order in itertools.permutations(labels):
        for excl in ([], ["s10"], ["s1"], ["s2", "s10"]):
            for sname, split in splits.items():
                orders = [list(range(len(split)))] + ([list(reversed(range(len(split))))] if len(split) > 1 else [])
                for mo in orders:
                    megas = [{"kind": "decay", "label": f"mc{i + 1}", "kms": [split[i]], "km_labels": [f"k{i + 1}"]} for i in mo]
                    spec = {"kind": "multi", "ic_comps": list(order), "ic_params": [val[c] for c in order], "excl": list(excl),
                            "megas": megas, "times": [0.0, 0.5, 2.0], "global_dimension": "spectral",
                            "tag": f"multi-config/{sname}", "exact": True}
                    if multi_ok(spec):
                        yield spec
