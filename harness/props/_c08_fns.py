"""C08 — function-level translator: Python `ast` -> Lean (lean/GlotaranModel/Generated/C08Fns.lean).

The short pure functions property C08 is about are transcribed statement by statement, on every run, from the source
text of VERIF_REPO into Lean definitions over the value types of lean/GlotaranModel/C08Py.lean (a float that may be
+-inf is `EB`, an axis a `List Rat`, a Python int that may become negative an `Int`, the `interval` attribute of an item
`Option Py.Ivs` = one tuple or a list of tuples, an item `Py.Item` = class + CURRENT attribute values):

    IntervalItem.has_interval / IntervalItem.applies / OnlyConstraint.applies     glotaran/model/interval_item.py, clp_constraint.py
    the method dispatch `item.applies(..)` / `item.has_interval()` over the item classes (from the class bodies)
    MatrixProvider.does_interval_item_apply, the loop body of MatrixProvider.apply_constraints,
    the item test of MatrixProvider.apply_relations                             glotaran/optimization/matrix_provider.py
    DataProvider.get_axis_slice_from_interval (+ nested nearest_index), add_model_weight   glotaran/optimization/data_provider.py
    _get_area, the item test of EstimationProvider.retrieve_clps                glotaran/optimization/estimation_provider.py

Props/C08.lean proves `generated_*_eq_model`: each translated definition equals the hand-written model definition the
driver executes, for all inputs.  An edit of the source that changes behaviour breaks a theorem (or, outside the subset,
makes the definition `Py.Untranslatable`, which breaks it too); the framework then searches a failing input.

Subset.  Statements: assignment (name, tuple of names, `xs[i] = v`), `x.append(e)`, `if`/`else` (assignments are joined,
early `return` / `continue` end a branch, `if X is None or Y is None: return ..` and `if X is not None:` refine the type of
X), `for` over a list / `range` / `enumerate` (a `List.foldl` over an auxiliary step definition whose state is the names
the body assigns), nested `def` (a local function), `return`, `continue`, `warnings.warn(..)` (dropped, recorded as a
comment: warnings are observed differentially by the harness).  Expressions: names, attributes of the typed
parameters, constants, `not`/`and`/`or`, (chained) comparisons incl. `is None` / `in`, `a if c else b`, `+`/`-` on ints,
`axis - v`, tuples, `[x]`, list comprehensions, `any(.. for ..)`, `len`, `min`/`max` of a pair or of two values, `range`,
`enumerate`, `slice`, `isinstance(x[0], (tuple, list))`, `np.isinf`, `np.abs`, `.argmin()`, `np.min`/`np.max`,
`np.asarray`, `.index`, `.size`, `.start`/`.stop`, `m[:, mask]`, `MatrixContainer(..)`, calls of translated functions.
Everything else raises `Untranslatable`.

Trusted: the parameter types in FUNCS, the table of builtins (this file), C08Py.lean.
"""
from __future__ import annotations

import ast
import hashlib
from fractions import Fraction
from pathlib import Path

SOURCES = [
    "glotaran/model/interval_item.py",
    "glotaran/model/clp_constraint.py",
    "glotaran/model/clp_relation.py",
    "glotaran/optimization/matrix_provider.py",
    "glotaran/optimization/data_provider.py",
    "glotaran/optimization/estimation_provider.py",
]


class Untranslatable(Exception):
    pass


# ----------------------------------------------------------------------------------------------------------------------
# types
# ----------------------------------------------------------------------------------------------------------------------
EB, RAT, NAT, INT, BOOL, STR, PAIR, IVS, ITEM, LABELS, SLICE, MAT, LMAT2, LIT, NONE, MODEL, PROVIDER, WEIGHT, IDX, DARR, UNIT = (
    "EB", "Rat", "Nat", "Int", "Bool", "Str", "Pair", "Ivs", "Item", "Labels", "Slice", "Mat", "LMat2", "Lit", "None",
    "Model", "Provider", "Weight", "Idx", "DataArray", "Unit")


def L(t):
    return ("list", t)


def O(t):
    return ("opt", t)


def TUP(*ts):
    return ("tuple", tuple(ts))


def FUN(args, ret):
    return ("fun", tuple(args), ret)


LEAN_TY = {EB: "EB", RAT: "Rat", NAT: "Nat", INT: "Int", BOOL: "Bool", STR: "String", PAIR: "Py.Pair", IVS: "Py.Ivs",
           ITEM: "Py.Item", LABELS: "Py.Labels", SLICE: "Py.Slice", MAT: "Mat", LMAT2: "LMat2", MODEL: "Model",
           PROVIDER: "Provider", WEIGHT: "Py.Weight", IDX: "Py.Idx", DARR: "Py.DataArray", UNIT: "Unit"}


def lean_ty(t) -> str:
    if isinstance(t, str):
        if t not in LEAN_TY:
            raise Untranslatable(f"no Lean type for {t}")
        return LEAN_TY[t]
    k = t[0]
    if k == "list":
        return f"List ({lean_ty(t[1])})"
    if k == "opt":
        return f"Option ({lean_ty(t[1])})"
    if k == "tuple":
        return " × ".join(f"({lean_ty(x)})" if not isinstance(x, str) and x[0] == "tuple" else lean_ty(x) for x in t[1])
    raise Untranslatable(f"no Lean type for {t!r}")


KEYWORDS = {"at", "open", "end", "from", "in", "then", "do", "fun", "show", "have", "let", "local", "instance", "class",
            "structure", "namespace", "section", "variable", "where", "with", "match", "if", "else", "by", "macro",
            "syntax", "import", "def", "theorem", "example", "mutual", "for", "return", "Type", "Prop", "Sort"}


def ident(name: str) -> str:
    n = name.lstrip("_") or "x"
    return n + "_" if n in KEYWORDS else n


def rat_text(q: Fraction) -> str:
    return f"{q.numerator}" if q.denominator == 1 else f"({q.numerator} / {q.denominator})"


def ind(lines, n=2):
    return [" " * n + l for l in lines]


def paren(lines):
    if len(lines) == 1:
        return ["(" + lines[0] + ")"]
    return ["(" + lines[0]] + [" " + l for l in lines[1:-1]] + [" " + lines[-1] + ")"]


def join_ty(a, b):
    """the common type of two branch values"""
    if a == b:
        return a
    if a == LIT:
        return b
    if b == LIT:
        return a
    if isinstance(a, tuple) and isinstance(b, tuple) and a[0] == b[0] == "list" and (a[1] is None or b[1] is None):
        return a if b[1] is None else b
    for hi, los in ((INT, (NAT,)), (EB, (RAT, NAT, INT))):
        if a == hi and b in los or b == hi and a in los:
            return hi
    if a == TUP(EB, EB) and b == PAIR or b == TUP(EB, EB) and a == PAIR:
        return PAIR
    if isinstance(a, tuple) and isinstance(b, tuple) and a[0] == b[0] == "tuple" and len(a[1]) == len(b[1]):
        return TUP(*[join_ty(x, y) for x, y in zip(a[1], b[1])])
    if isinstance(a, tuple) and a[0] == "opt" and (b == NONE or a[1] == b):
        return a
    if isinstance(b, tuple) and b[0] == "opt" and (a == NONE or b[1] == a):
        return b
    raise Untranslatable(f"branches of different types {a!r} / {b!r}")


def co(text: str, t, to) -> str:
    """coerce the Lean term `text` of type t to type `to`"""
    if t == to or to is None:
        return text
    if t == LIT:
        if to in (NAT, INT, RAT):
            return f"({text} : {LEAN_TY[to]})"
        if to == EB:
            return f"(EB.fin ({text} : Rat))"
    if t == NAT and to == INT:
        return f"(({text} : Nat) : Int)"
    if t == RAT and to == EB:
        return f"(EB.fin {text})"
    if t in (NAT, INT) and to == EB:
        return f"(EB.fin (({text} : {LEAN_TY[t]}) : Rat))"
    if to == PAIR and t == TUP(EB, EB):
        return text
    if isinstance(to, tuple) and to[0] == "opt":
        if t == NONE:
            return f"(none : {lean_ty(to)})"
        return f"(some {co(text, t, to[1])})"
    if isinstance(to, tuple) and to[0] == "tuple" and isinstance(t, tuple) and t[0] == "tuple" and to != t:
        raise Untranslatable(f"tuple of type {t!r} where {to!r} is needed")
    raise Untranslatable(f"a value of type {t!r} where {to!r} is needed")


# fields of the typed parameters: python attribute -> (Lean projection, type)
FIELDS = {
    ITEM: {"interval": ("interval", O(IVS)), "target": ("target", STR), "source": ("source", STR), "parameter": ("parameter", RAT)},
    SLICE: {"start": ("1", INT), "stop": ("2", INT)},
    LMAT2: {"clp_labels": ("labels", L(STR)), "matrix": ("m", MAT)},
    MODEL: {"clp_constraints": ("clp_constraints", L(ITEM)), "clp_relations": ("clp_relations", L(ITEM)), "weights": ("weights", L(WEIGHT))},
    PROVIDER: {"group": (None, PROVIDER), "model": ("model", MODEL), "_model_axes": ("model_axes", ("dict", L(RAT))),
               "_global_axes": ("global_axes", ("dict", L(RAT)))},
    WEIGHT: {"datasets": ("datasets", L(STR)), "global_interval": ("global_interval", O(PAIR)),
             "model_interval": ("model_interval", O(PAIR)), "value": ("value", RAT)},
    DARR: {"data": ("data", MAT)},
}
ANNOT = {"float": EB, "int": INT, "tuple[float, float]": PAIR, "bool": BOOL, "str": STR}


class Fn:
    """one translated top-level function"""

    def __init__(self, lean_name, params, ret, lines, doc):
        self.lean_name, self.params, self.ret, self.lines, self.doc = lean_name, params, ret, lines, doc


class Translator:
    def __init__(self, known_fns, classes):
        self.known = known_fns          # python short name -> Fn (translated earlier) or Broken marker
        self.classes = classes
        self.aux = []                   # auxiliary step definitions (text blocks)
        self.ret_type = None
        self.ret_seen = []
        self.loop_konts = []
        self.fn_name = "?"
        self.loop_no = 0
        self.cur_class = None
        self.state_expr = None          # (python text, env name): an attribute cell that plays the role of the result
        self.tmp = 0

    # ------------------------------------------------------------------------------------------------------------
    # expressions
    # ------------------------------------------------------------------------------------------------------------
    def expr(self, n, env, want=None):
        text, t = self._expr(n, env)
        if want is not None:
            return co(text, t, want), want
        return text, t

    def _expr(self, n, env):
        key = ast.unparse(n)
        if key in env.get("#refined", {}):
            return env["#refined"][key]
        if isinstance(n, ast.Constant):
            v = n.value
            if v is True or v is False:
                return ("true" if v else "false"), BOOL
            if v is None:
                return "none", NONE
            if isinstance(v, int):
                return str(v), LIT
            if isinstance(v, float):
                return rat_text(Fraction(v)), LIT
            if isinstance(v, str):
                return '"' + v.replace("\\", "\\\\").replace('"', '\\"') + '"', STR
            raise Untranslatable(f"constant {v!r}")
        if isinstance(n, ast.Name):
            if n.id not in env:
                raise Untranslatable(f"unknown name {n.id}")
            return env[n.id]
        if isinstance(n, ast.Attribute):
            return self.attribute(n, env)
        if isinstance(n, ast.Subscript):
            return self.subscript(n, env)
        if isinstance(n, ast.Compare):
            return self.compare(n, env)
        if isinstance(n, ast.BoolOp):
            parts = [self.expr(v, env, BOOL)[0] for v in n.values]
            op = " && " if isinstance(n.op, ast.And) else " || "
            return "(" + op.join(parts) + ")", BOOL
        if isinstance(n, ast.UnaryOp):
            if isinstance(n.op, ast.Not):
                return f"(!{self.expr(n.operand, env, BOOL)[0]})", BOOL
            if isinstance(n.op, ast.USub) and isinstance(n.operand, ast.Constant) and isinstance(n.operand.value, (int, float)):
                q = -Fraction(n.operand.value)
                return f"({rat_text(q)})", LIT
            raise Untranslatable(f"unary operator in {key}")
        if isinstance(n, ast.BinOp):
            return self.binop(n, env)
        if isinstance(n, ast.IfExp):
            return self.ifexp(n, env)
        if isinstance(n, ast.Call):
            return self.call(n, env)
        if isinstance(n, ast.Tuple):
            parts = [self._expr(e, env) for e in n.elts]
            if len(parts) == 2 and all(t in (EB, RAT, LIT) for _, t in parts) and any(t == EB for _, t in parts):
                return "(" + ", ".join(co(x, t, EB) for x, t in parts) + ")", PAIR
            return "(" + ", ".join(x for x, _ in parts) + ")", TUP(*[t for _, t in parts])
        if isinstance(n, ast.List):
            if len(n.elts) == 1:
                x, t = self._expr(n.elts[0], env)
                if t == IVS:
                    return f"(Py.Ivs.wrap {x})", IVS
                return f"[{x}]", L(t)
            if not n.elts:
                raise Untranslatable("an empty list display whose element type is not known")
            parts = [self._expr(e, env) for e in n.elts]
            return "[" + ", ".join(x for x, _ in parts) + "]", L(parts[0][1])
        if isinstance(n, ast.ListComp):
            return self.comprehension(n, env, "list")
        raise Untranslatable(f"expression {key}")

    def attribute(self, n, env):
        base, bt = self._expr(n.value, env)
        if isinstance(bt, tuple) and bt[0] == "list" and n.attr == "size":
            return f"{base}.length", NAT
        f = FIELDS.get(bt, {}).get(n.attr)
        if f is None:
            raise Untranslatable(f"attribute {ast.unparse(n)} of a {bt!r}")
        if f[0] is None:
            return base, f[1]
        return f"{base}.{f[0]}", f[1]

    def subscript(self, n, env):
        base, bt = self._expr(n.value, env)
        sl = n.slice
        if bt == PAIR and isinstance(sl, ast.Constant) and sl.value in (0, 1):
            return f"{base}.{sl.value + 1}", EB
        if bt == MAT and isinstance(sl, ast.Tuple) and len(sl.elts) == 2 and isinstance(sl.elts[0], ast.Slice) \
                and sl.elts[0].lower is None and sl.elts[0].upper is None and sl.elts[0].step is None:
            mask, mt = self._expr(sl.elts[1], env)
            if mt != L(BOOL):
                raise Untranslatable(f"column selection by a {mt!r}")
            return f"(Py.colMask {base} {mask})", MAT
        if isinstance(bt, tuple) and bt[0] == "dict":
            k, _ = self.expr(sl, env, STR)
            return f"({base} {k})", bt[1]
        if isinstance(bt, tuple) and bt[0] == "list":
            if isinstance(sl, (ast.Slice, ast.Tuple)):
                raise Untranslatable(f"slicing in {ast.unparse(n)}")
            i, _ = self.expr(sl, env, INT)
            return f"(Py.item {base} {i})", bt[1]
        raise Untranslatable(f"subscript {ast.unparse(n)} of a {bt!r}")

    def compare(self, n, env):
        operands = [n.left] + list(n.comparators)
        parts = []
        for op, a, b in zip(n.ops, operands, operands[1:]):
            parts.append(self.compare1(op, a, b, env))
        return (parts[0] if len(parts) == 1 else "(" + " && ".join(parts) + ")"), BOOL

    def compare1(self, op, a, b, env):
        if isinstance(op, (ast.Is, ast.IsNot)):
            if not (isinstance(b, ast.Constant) and b.value is None):
                raise Untranslatable("`is` with something else than None")
            x, t = self._expr(a, env)
            if not (isinstance(t, tuple) and t[0] == "opt"):
                raise Untranslatable(f"`is None` test of a {t!r}")
            return f"{x}.isNone" if isinstance(op, ast.Is) else f"{x}.isSome"
        if isinstance(op, (ast.In, ast.NotIn)):
            y, ty = self._expr(b, env)
            if not (isinstance(ty, tuple) and ty[0] == "list"):
                raise Untranslatable(f"`in` on a {ty!r}")
            x, _ = self.expr(a, env, ty[1])
            r = f"(List.contains {y} {x})"
            return r if isinstance(op, ast.In) else f"(!{r})"
        x, tx = self._expr(a, env)
        y, ty = self._expr(b, env)
        t = join_ty(tx, ty)
        if t == LIT:
            t = INT
        x, y = co(x, tx, t), co(y, ty, t)
        sym = {ast.Lt: "<", ast.LtE: "≤", ast.Gt: ">", ast.GtE: "≥", ast.Eq: "==", ast.NotEq: "!="}.get(type(op))
        if sym is None:
            raise Untranslatable(f"comparison operator {type(op).__name__}")
        if t == EB:
            f = {"<": "Py.lt", "≤": "Py.le", ">": "Py.gt", "≥": "Py.ge"}.get(sym)
            if f is None:
                raise Untranslatable("equality test of floats")
            return f"({f} {x} {y})"
        if t in (NAT, INT, RAT):
            if sym in ("==", "!="):
                return f"({x} {sym} {y})"
            return f"(decide ({x} {sym} {y}))"
        if t == STR and sym in ("==", "!="):
            return f"({x} {sym} {y})"
        raise Untranslatable(f"comparison of {t!r}")

    def binop(self, n, env):
        x, tx = self._expr(n.left, env)
        y, ty = self._expr(n.right, env)
        if isinstance(n.op, ast.Sub) and tx == L(RAT) and ty in (EB, RAT, LIT):
            return f"(Py.arrSub {x} {co(y, ty, EB)})", L(EB)
        ints = (NAT, INT, LIT)
        if tx in ints and ty in ints:
            if isinstance(n.op, ast.Add):
                t = join_ty(tx, ty)
                t = INT if t == LIT else t
                return f"({co(x, tx, t)} + {co(y, ty, t)})", t
            if isinstance(n.op, ast.Sub):
                return f"({co(x, tx, INT)} - {co(y, ty, INT)})", INT
        raise Untranslatable(f"operator in {ast.unparse(n)} on {tx!r}, {ty!r}")

    def refinement_test(self, test, env):
        """`isinstance(X[0], list)` on a Labels value X -> (X key, text of the test, type/text in the true branch, in the false branch)"""
        if isinstance(test, ast.Call) and isinstance(test.func, ast.Name) and test.func.id == "isinstance" and len(test.args) == 2:
            a = test.args[0]
            if isinstance(a, ast.Subscript) and isinstance(a.slice, ast.Constant) and a.slice.value == 0:
                x, t = self._expr(a.value, env)
                kinds = ast.unparse(test.args[1]).replace(" ", "")
                if t == LABELS and kinds == "list":
                    return (ast.unparse(a.value), f"(Py.Labels.firstIsList {x})",
                            (f"(Py.Labels.asNested {x})", L(L(STR))), (f"(Py.Labels.asFlat {x})", L(STR)))
        return None

    def ifexp(self, n, env):
        r = self.refinement_test(n.test, env)
        if r is not None:
            key, c, pos, neg = r
            a, ta = self._expr(n.body, self.refine(env, key, pos))
            b, tb = self._expr(n.orelse, self.refine(env, key, neg))
        else:
            c = self.expr(n.test, env, BOOL)[0]
            a, ta = self._expr(n.body, env)
            b, tb = self._expr(n.orelse, env)
        t = join_ty(ta, tb)
        if t == LIT:
            t = INT
        return f"(if {c} then {co(a, ta, t)} else {co(b, tb, t)})", t

    @staticmethod
    def refine(env, key, val):
        e = dict(env)
        e["#refined"] = dict(env.get("#refined", {}))
        e["#refined"][key] = val
        return e

    def comprehension(self, n, env, kind):
        if len(n.generators) != 1 or n.generators[0].is_async:
            raise Untranslatable("nested comprehension")
        g = n.generators[0]
        it, tit = self.iterable(g.iter, env)
        e2, pat = self.bind_target(g.target, tit, env)
        src = it
        for cond in g.ifs:
            c = self.expr(cond, e2, BOOL)[0]
            src = f"({src}.filter (fun {pat} => {c}))"
        elt, te = self._expr(n.elt, e2)
        if kind == "any":
            return f"({src}.any (fun {pat} => {co(elt, te, BOOL)}))", BOOL
        if isinstance(n.elt, ast.Name) and isinstance(g.target, ast.Name) and n.elt.id == g.target.id:
            return src, L(tit)
        if te == LIT:
            elt, te = co(elt, te, RAT), RAT
        return f"({src}.map (fun {pat} => {elt}))", L(te)

    def iterable(self, n, env):
        """-> (Lean list term, element type)"""
        x, t = self._expr(n, env)
        if t == IVS:
            return f"(Py.Ivs.iter {x})", PAIR
        if isinstance(t, tuple) and t[0] == "list":
            return x, t[1]
        raise Untranslatable(f"iteration over a {t!r}")

    def bind_target(self, target, t, env):
        """bind a loop / comprehension target of element type t -> (env, Lean pattern)"""
        e = dict(env)
        if isinstance(target, ast.Name):
            nm = ident(target.id)
            e[target.id] = (nm, t)
            return e, f"({nm} : {lean_ty(t)})"
        if isinstance(target, ast.Tuple) and isinstance(t, tuple) and t[0] == "tuple" and len(t[1]) == len(target.elts) \
                and all(isinstance(x, ast.Name) for x in target.elts):
            names = []
            for x, tx in zip(target.elts, t[1]):
                nm = ident(x.id)
                e[x.id] = (nm, tx)
                names.append(nm)
            return e, f"(({', '.join(names)}) : {lean_ty(t)})"
        raise Untranslatable(f"loop target {ast.unparse(target)} over elements of type {t!r}")

    def call(self, n, env):
        f = n.func
        if n.keywords and not (isinstance(f, ast.Attribute) and f.attr == "DataArray"):
            raise Untranslatable(f"keyword arguments in {ast.unparse(n)}")
        if isinstance(f, ast.Name):
            name = f.id
            if name in env and isinstance(env[name][1], tuple) and env[name][1][0] == "fun":
                _, ats, rt = env[name][1]
                if len(ats) != len(n.args):
                    raise Untranslatable(f"arity of {name}")
                args = [self.expr(a, env, at)[0] for a, at in zip(n.args, ats)]
                return f"({env[name][0]} {' '.join(args)})", rt
            if name == "len" and len(n.args) == 1:
                x, t = self._expr(n.args[0], env)
                if t == IVS:
                    return f"(Py.Ivs.len {x})", NAT
                if isinstance(t, tuple) and t[0] == "list":
                    return f"{x}.length", NAT
                raise Untranslatable(f"len of a {t!r}")
            if name in ("min", "max"):
                fn = "Py.min2" if name == "min" else "Py.max2"
                if len(n.args) == 1:
                    x, t = self._expr(n.args[0], env)
                    if t != PAIR:
                        raise Untranslatable(f"{name} of a {t!r}")
                    return f"({fn} {x}.1 {x}.2)", EB
                if len(n.args) == 2:
                    a = self.expr(n.args[0], env, EB)[0]
                    b = self.expr(n.args[1], env, EB)[0]
                    return f"({fn} {a} {b})", EB
                raise Untranslatable(f"{name} with {len(n.args)} arguments")
            if name == "isinstance" and len(n.args) == 2:
                a = n.args[0]
                kinds = sorted(ast.unparse(n.args[1]).strip("()").replace(" ", "").split(","))
                if isinstance(a, ast.Subscript) and isinstance(a.slice, ast.Constant) and a.slice.value == 0:
                    x, t = self._expr(a.value, env)
                    if t == IVS and kinds == ["list", "tuple"]:
                        return f"(Py.Ivs.firstIsSeq {x})", BOOL
                    if t == LABELS and kinds == ["list"]:
                        return f"(Py.Labels.firstIsList {x})", BOOL
                raise Untranslatable(f"isinstance test {ast.unparse(n)}")
            if name == "any" and len(n.args) == 1 and isinstance(n.args[0], (ast.GeneratorExp, ast.ListComp)):
                return self.comprehension(n.args[0], env, "any")
            if name == "range" and len(n.args) == 2:
                a = self.expr(n.args[0], env, INT)[0]
                b = self.expr(n.args[1], env, INT)[0]
                return f"(Py.range {a} {b})", L(INT)
            if name == "enumerate" and len(n.args) == 1:
                x, t = self.iterable(n.args[0], env)
                return f"(Py.enumerate {x})", L(TUP(NAT, t))
            if name == "slice" and len(n.args) == 2:
                a = self.expr(n.args[0], env, INT)[0]
                b = self.expr(n.args[1], env, INT)[0]
                return f"(({a}, {b}) : Py.Slice)", SLICE
            if name == "MatrixContainer" and len(n.args) == 2:
                a = self.expr(n.args[0], env, L(STR))[0]
                b = self.expr(n.args[1], env, MAT)[0]
                return f"(⟨{a}, {b}⟩ : LMat2)", LMAT2
            if name == "fill_item" and len(n.args) == 3:
                # parameters of the items are numbers already (the harness builds items with resolved parameters)
                return self._expr(n.args[0], env)
            return self.call_translated(name, n.args, env)
        if isinstance(f, ast.Attribute):
            recv = f.value
            if isinstance(recv, ast.Name) and recv.id == "np":
                if len(n.args) != 1:
                    raise Untranslatable(f"call {ast.unparse(n)}")
                x, t = self._expr(n.args[0], env)
                if f.attr == "isinf" and t == EB:
                    return f"(Py.isinf {x})", BOOL
                if f.attr == "abs" and t == L(EB):
                    return f"(Py.arrAbs {x})", L(EB)
                if f.attr in ("min", "max") and t == L(RAT):
                    return f"(Py.np{f.attr.capitalize()} {x})", RAT
                if f.attr == "asarray" and isinstance(t, tuple) and t[0] == "list":
                    return x, t
                raise Untranslatable(f"numpy call {ast.unparse(n)} on a {t!r}")
            if isinstance(recv, ast.Call) and isinstance(recv.func, ast.Name) and recv.func.id == "super" and not recv.args:
                if "self" not in env or self.cur_class is None:
                    raise Untranslatable("super() outside a method")
                owner = self.classes.resolve_after(self.cur_class, f.attr)
                if owner is None:
                    raise Untranslatable(f"super().{f.attr} not found")
                return self.call_translated(f"{owner}.{f.attr}", [ast.Name(id="self")] + list(n.args), env)
            if f.attr == "argmin" and not n.args:
                x, t = self._expr(recv, env)
                if t == L(EB):
                    return f"(Py.argmin {x})", NAT
                raise Untranslatable(f"argmin of a {t!r}")
            if f.attr == "index" and len(n.args) == 1:
                x, t = self._expr(recv, env)
                if t == L(STR):
                    return f"(Py.indexOf {x} {self.expr(n.args[0], env, STR)[0]})", NAT
                raise Untranslatable(f".index on a {t!r}")
            # a method of an item: dynamic dispatch over the item classes
            if not (isinstance(recv, ast.Name) and recv.id in ("self", "DataProvider", "MatrixProvider")) or \
                    (isinstance(recv, ast.Name) and recv.id in env and env[recv.id][1] == ITEM):
                x, t = self._expr(recv, env)
                if t == ITEM and f.attr in self.classes.dispatched:
                    return self.call_translated("dispatch:" + f.attr, [recv] + list(n.args), env)
                raise Untranslatable(f"method call {ast.unparse(n)} on a {t!r}")
            # a static method / method of the provider classes translated under its short name
            return self.call_translated(f.attr, n.args, env)
        raise Untranslatable(f"call {ast.unparse(n)}")

    def call_translated(self, name, args, env):
        fn = self.known.get(name)
        if fn is None:
            raise Untranslatable(f"call of {name}, which is not translated")
        if isinstance(fn, Broken):
            raise Untranslatable(f"calls {name}, which is outside the translated subset")
        if len(args) != len(fn.params):
            raise Untranslatable(f"{name} called with {len(args)} arguments, translated with {len(fn.params)}")
        xs = [self.expr(a, env, pt)[0] for a, (_, pt) in zip(args, fn.params)]
        return f"({fn.lean_name} {' '.join(xs)})", fn.ret

    # ------------------------------------------------------------------------------------------------------------
    # statements
    # ------------------------------------------------------------------------------------------------------------
    def ret(self, text, t):
        if self.ret_type is None:
            self.ret_seen.append(t)
            return [text]
        return [co(text, t, self.ret_type)]

    @staticmethod
    def assigned(stmts):
        """names (re)bound by the statements (in order of first assignment); None if they contain return/continue/loops"""
        out = []

        def add(x):
            if x not in out:
                out.append(x)

        for s in stmts:
            if isinstance(s, ast.AnnAssign) and s.value is not None:
                s = ast.Assign(targets=[s.target], value=s.value)
            if isinstance(s, ast.Assign) and len(s.targets) == 1:
                tg = s.targets[0]
                if isinstance(tg, ast.Name):
                    add(tg.id)
                elif isinstance(tg, ast.Tuple) and all(isinstance(x, ast.Name) for x in tg.elts):
                    for x in tg.elts:
                        add(x.id)
                elif isinstance(tg, ast.Subscript) and isinstance(tg.value, ast.Name):
                    add(tg.value.id)
                else:
                    add("#" + ast.unparse(tg))
            elif isinstance(s, ast.AugAssign):
                tg = s.target
                if isinstance(tg, ast.Name):
                    add(tg.id)
                elif isinstance(tg, ast.Subscript) and isinstance(tg.value, ast.Name):
                    add(tg.value.id)
                else:
                    return None
            elif isinstance(s, ast.Expr) and isinstance(s.value, ast.Call) and isinstance(s.value.func, ast.Attribute) \
                    and s.value.func.attr == "append" and isinstance(s.value.func.value, ast.Name):
                add(s.value.func.value.id)
            elif isinstance(s, ast.Expr):
                continue
            elif isinstance(s, ast.If):
                a, b = Translator.assigned(s.body), Translator.assigned(s.orelse)
                if a is None or b is None:
                    return None
                for x in a + b:
                    add(x)
            elif isinstance(s, ast.For):
                a = Translator.assigned(s.body)
                if a is None:
                    # a loop body with `continue` still only rebinds its assigned names
                    a = Translator.assigned_loose(s.body)
                for x in a:
                    add(x)
            elif isinstance(s, ast.Pass):
                continue
            else:
                return None
        return out

    @staticmethod
    def assigned_loose(stmts):
        out = []
        for s in ast.walk(ast.Module(body=list(stmts), type_ignores=[])):
            if isinstance(s, ast.Return):
                raise Untranslatable("return inside a loop")
            if isinstance(s, ast.AnnAssign) and s.value is not None:
                s = ast.Assign(targets=[s.target], value=s.value)
            if isinstance(s, ast.Assign) and len(s.targets) == 1:
                tg = s.targets[0]
                names = [tg] if isinstance(tg, ast.Name) else list(tg.elts) if isinstance(tg, ast.Tuple) else \
                    [tg.value] if isinstance(tg, ast.Subscript) else []
                for x in names:
                    if isinstance(x, ast.Name) and x.id not in out:
                        out.append(x.id)
            if isinstance(s, ast.AugAssign):
                x = s.target.value if isinstance(s.target, ast.Subscript) else s.target
                if isinstance(x, ast.Name) and x.id not in out:
                    out.append(x.id)
            if isinstance(s, ast.Expr) and isinstance(s.value, ast.Call) and isinstance(s.value.func, ast.Attribute) \
                    and s.value.func.attr == "append" and isinstance(s.value.func.value, ast.Name):
                x = s.value.func.value.id
                if x not in out:
                    out.append(x)
        return out

    def block(self, stmts, env, kont):
        """Lean lines of the value of `stmts` followed by `kont(env)`"""
        if not stmts:
            return kont(env)
        s, rest = stmts[0], list(stmts[1:])
        if isinstance(s, ast.Expr) and isinstance(s.value, ast.Constant) and isinstance(s.value.value, str):
            return self.block(rest, env, kont)                              # docstring
        if isinstance(s, ast.Pass):
            return self.block(rest, env, kont)
        if isinstance(s, ast.Return):
            if self.loop_konts:
                raise Untranslatable("return inside a loop")
            if s.value is None:
                if self.state_expr is None:
                    raise Untranslatable("bare return")
                x, t = env[self.state_expr[1]]
                return self.ret(x, t)
            x, t = self._expr(s.value, env)
            return self.ret(x, t)
        if isinstance(s, ast.Continue):
            if not self.loop_konts:
                raise Untranslatable("continue outside a loop")
            return self.loop_konts[-1](env)
        if isinstance(s, ast.AnnAssign) and s.value is not None and s.simple:
            s = ast.Assign(targets=[s.target], value=s.value)          # the annotation is not used
        if isinstance(s, ast.Assign):
            return self.assign(s, rest, env, kont)
        if isinstance(s, ast.AugAssign):
            return self.augassign(s, rest, env, kont)
        if isinstance(s, ast.Expr) and isinstance(s.value, ast.Call):
            c = s.value
            if isinstance(c.func, ast.Attribute) and c.func.attr == "append" and isinstance(c.func.value, ast.Name) and len(c.args) == 1:
                nm = c.func.value.id
                if nm not in env:
                    raise Untranslatable(f"append to unknown {nm}")
                x, t = env[nm]
                if not (isinstance(t, tuple) and t[0] == "list"):
                    raise Untranslatable(f"append to a {t!r}")
                if t[1] is None:
                    v, tv = self._expr(c.args[0], env)
                    if tv == LIT:
                        v, tv = co(v, tv, RAT), RAT
                    t = L(tv)
                    self.fix_list_type(nm, t)
                    e2 = dict(env)
                    e2[nm] = (ident(nm), t)
                    return [f"let {ident(nm)} : {lean_ty(t)} := {x} ++ [{v}]"] + self.block(rest, e2, kont)
                v = self.expr(c.args[0], env, t[1])[0]
                e2 = dict(env)
                e2[nm] = (ident(nm), t)
                return [f"let {ident(nm)} := {x} ++ [{v}]"] + self.block(rest, e2, kont)
            if isinstance(c.func, ast.Attribute) and c.func.attr == "warn" and ast.unparse(c.func.value) == "warnings":
                return ["-- warnings.warn(…)   (warnings are observed by the harness, not part of the transcription)"] + \
                    self.block(rest, env, kont)
            raise Untranslatable(f"statement {ast.unparse(s)[:60]}")
        if isinstance(s, ast.If):
            return self.if_(s, rest, env, kont)
        if isinstance(s, ast.For):
            return self.for_(s, rest, env, kont)
        if isinstance(s, ast.FunctionDef):
            return self.local_def(s, rest, env, kont)
        raise Untranslatable(f"statement {type(s).__name__}: {ast.unparse(s)[:60]}")

    # -- lists created empty get their element type from the first append ------------------------------------
    def fix_list_type(self, nm, t):
        self.list_types[nm] = t

    def assign(self, s, rest, env, kont):
        if len(s.targets) != 1:
            raise Untranslatable("chained assignment")
        tg = s.targets[0]
        e2 = dict(env)
        if isinstance(tg, ast.Name):
            nm = ident(tg.id)
            if isinstance(s.value, ast.List) and not s.value.elts:
                t = self.list_types.get(tg.id)
                if t is None:
                    t = L(None)
                    e2[tg.id] = ("[]", t)
                    self.pending_empty.add(tg.id)
                    return self.block(rest, e2, kont)
                e2[tg.id] = (nm, t)
                return [f"let {nm} : {lean_ty(t)} := []"] + self.block(rest, e2, kont)
            if isinstance(s.value, ast.Dict) and not s.value.keys:
                e2[tg.id] = (nm, IDX)
                return [f"let {nm} : Py.Idx := []"] + self.block(rest, e2, kont)
            x, t = self._expr(s.value, env)
            if t == LIT:
                x, t = co(x, t, INT), INT
            if isinstance(t, tuple) and t[0] == "fun":
                raise Untranslatable("a function value assigned to a name")
            e2[tg.id] = (nm, t)
            return [f"let {nm} := {x}"] + self.block(rest, e2, kont)
        if isinstance(tg, ast.Tuple) and all(isinstance(x, ast.Name) for x in tg.elts):
            names = [ident(x.id) for x in tg.elts]
            if isinstance(s.value, ast.Tuple) and len(s.value.elts) == len(names):
                parts = [self._expr(v, env) for v in s.value.elts]
                parts = [(co(x, t, INT), INT) if t == LIT else (x, t) for x, t in parts]
            else:
                x, t = self._expr(s.value, env)
                if t == PAIR:
                    t = TUP(EB, EB)
                if not (isinstance(t, tuple) and t[0] == "tuple" and len(t[1]) == len(names)):
                    raise Untranslatable(f"unpacking a {t!r}")
                for py, nm, tx in zip(tg.elts, names, t[1]):
                    e2[py.id] = (nm, tx)
                return [f"let ({', '.join(names)}) := {x}"] + self.block(rest, e2, kont)
            for py, nm, (_, tx) in zip(tg.elts, names, parts):
                e2[py.id] = (nm, tx)
            return [f"let ({', '.join(names)}) := ({', '.join(x for x, _ in parts)})"] + self.block(rest, e2, kont)
        if isinstance(tg, ast.Subscript) and isinstance(tg.value, ast.Name) and tg.value.id in env:
            base, bt = env[tg.value.id]
            nm = ident(tg.value.id)
            if isinstance(bt, tuple) and bt[0] == "list":
                i = self.expr(tg.slice, env, NAT)[0]
                v = self.expr(s.value, env, bt[1])[0]
                e2[tg.value.id] = (nm, bt)
                return [f"let {nm} := Py.setItem {base} {i} {v}"] + self.block(rest, e2, kont)
            if bt == IDX:
                k = self.expr(tg.slice, env, STR)[0]
                v = self.expr(s.value, env, SLICE)[0]
                e2[tg.value.id] = (nm, bt)
                return [f"let {nm} := Py.Idx.set {base} {k} {v}"] + self.block(rest, e2, kont)
        if self.state_expr is not None and ast.unparse(tg) == self.state_expr[0]:
            cell = self.state_expr[1]
            _, ct = env[cell]
            v = self.expr(s.value, env, ct)[0]
            e2[cell] = (cell, ct)
            return [f"let {cell} := {v}"] + self.block(rest, e2, kont)
        raise Untranslatable(f"assignment to {ast.unparse(tg)}")

    def augassign(self, s, rest, env, kont):
        tg = s.target
        if isinstance(s.op, ast.Mult) and isinstance(tg, ast.Subscript) and isinstance(tg.value, ast.Name) and tg.value.id in env:
            base, bt = env[tg.value.id]
            if bt == DARR:
                idx = self.expr(tg.slice, env, IDX)[0]
                v = self.expr(s.value, env, RAT)[0]
                nm = ident(tg.value.id)
                e2 = dict(env)
                e2[tg.value.id] = (nm, DARR)
                return [f"let {nm} := Py.DataArray.imulAt {base} {idx} {v}"] + self.block(rest, e2, kont)
        raise Untranslatable(f"augmented assignment {ast.unparse(s)[:60]}")

    @staticmethod
    def none_tests(test):
        """`X is None` or a disjunction of such tests -> the tested expressions"""
        def one(t):
            return t.left if (isinstance(t, ast.Compare) and len(t.ops) == 1 and isinstance(t.ops[0], ast.Is)
                              and isinstance(t.comparators[0], ast.Constant) and t.comparators[0].value is None) else None
        if isinstance(test, ast.BoolOp) and isinstance(test.op, ast.Or):
            xs = [one(v) for v in test.values]
            return xs if all(x is not None for x in xs) else None
        x = one(test)
        return [x] if x is not None else None

    @staticmethod
    def ends(stmts):
        """does every path through the statements end in return / continue"""
        if not stmts:
            return False
        s = stmts[-1]
        if isinstance(s, (ast.Return, ast.Continue)):
            return True
        if isinstance(s, ast.If):
            return Translator.ends(s.body) and Translator.ends(s.orelse)
        return False

    def fresh(self, base):
        self.tmp += 1
        return f"{ident(base)}_{self.tmp}"

    def if_(self, s, rest, env, kont):
        # (1) `if X is None [or Y is None]: <ends>` — the rest runs with X, Y refined to their values
        xs = self.none_tests(s.test)
        if xs is not None and self.ends(s.body) and not s.orelse:
            e2 = env
            scrut, pats = [], []
            for x in xs:
                tx, tt = self._expr(x, env)
                if not (isinstance(tt, tuple) and tt[0] == "opt"):
                    raise Untranslatable(f"`is None` test of a {tt!r}")
                nm = self.fresh(ast.unparse(x).split(".")[-1])
                scrut.append(tx)
                pats.append(f"some {nm}")
                e2 = self.refine(e2, ast.unparse(x), (nm, tt[1]))
                if isinstance(x, ast.Name):
                    e2[x.id] = (nm, tt[1])
            then = self.block(s.body, env, kont)
            other = self.block(rest, e2, kont)
            return ([f"match {', '.join(scrut)} with", f"| {', '.join(pats)} =>"] + ind(paren(other)) +
                    [f"| {', '.join('_' for _ in xs)} =>"] + ind(paren(then)))
        # (2) `if X is not None: body` — body runs with X refined
        t0 = s.test
        if isinstance(t0, ast.Compare) and len(t0.ops) == 1 and isinstance(t0.ops[0], ast.IsNot) \
                and isinstance(t0.comparators[0], ast.Constant) and t0.comparators[0].value is None:
            tx, tt = self._expr(t0.left, env)
            if not (isinstance(tt, tuple) and tt[0] == "opt"):
                raise Untranslatable(f"`is not None` test of a {tt!r}")
            nm = self.fresh(ast.unparse(t0.left).split(".")[-1])
            e_body = self.refine(env, ast.unparse(t0.left), (nm, tt[1]))
            return self.branch(s, rest, env, kont, cond=None, match=(tx, nm), e_body=e_body)
        c = self.expr(s.test, env, BOOL)[0]
        return self.branch(s, rest, env, kont, cond=c, match=None, e_body=env)

    def branch(self, s, rest, env, kont, cond, match, e_body):
        def wrap(a_lines, b_lines):
            if match is not None:
                return [f"match {match[0]} with", f"| some {match[1]} =>"] + ind(paren(a_lines)) + ["| none =>"] + ind(paren(b_lines))
            return [f"if {cond} then"] + ind(paren(a_lines)) + ["else"] + ind(paren(b_lines))

        a_names, b_names = self.assigned(s.body), self.assigned(s.orelse)
        if a_names is not None and b_names is not None and not self.ends(s.body) and not self.ends(s.orelse):
            # both branches fall through and only assign: join the assigned names
            names = [x for x in dict.fromkeys(a_names + b_names)]
            if any(x.startswith("#") for x in names):
                cells = [x for x in names if x.startswith("#")]
                if self.state_expr is None or any(x[1:] != self.state_expr[0] for x in cells):
                    raise Untranslatable(f"assignment to {cells[0][1:]} inside a branch")
                names = [self.state_expr[1] if x.startswith("#") else x for x in names]
            if not names:
                return self.block(rest, env, kont)                      # a branch without effect (e.g. only a warning)
            types = {}

            def tuple_kont(e):
                vals = []
                for x in names:
                    if x not in e:
                        raise Untranslatable(f"{x} is assigned in one branch only and not defined before")
                    vals.append(e[x])
                for x, (_, t) in zip(names, vals):
                    types[x] = join_ty(types[x], t) if x in types else t
                return ["(" + ", ".join(v for v, _ in vals) + ")"] if len(vals) > 1 else [vals[0][0]]

            saved = self.loop_konts
            self.loop_konts = []            # no continue in these branches (checked by `assigned`)
            a = self.block(s.body, e_body, tuple_kont)
            b = self.block(s.orelse, env, tuple_kont)
            self.loop_konts = saved
            e2 = dict(env)
            for x in names:
                e2[x] = (ident(x), types[x])
            pat = "(" + ", ".join(ident(x) for x in names) + ")" if len(names) > 1 else ident(names[0])
            w = wrap(a, b)
            return [f"let {pat} :=", *ind(paren(w))] + self.block(rest, e2, kont)
        # otherwise: the rest of the block is continued in the branches that fall through
        a = self.block(s.body + ([] if self.ends(s.body) else rest), e_body, kont)
        b = self.block(s.orelse + ([] if self.ends(s.orelse) and s.orelse else rest), env, kont)
        return wrap(a, b)

    def local_def(self, s, rest, env, kont):
        if s.decorator_list or s.args.kwonlyargs or s.args.vararg or s.args.kwarg or s.args.defaults:
            raise Untranslatable(f"nested def {s.name} with decorators/defaults")
        params, e2 = [], dict(env)
        for a in s.args.args:
            ann = ast.unparse(a.annotation) if a.annotation is not None else None
            if ann not in ANNOT:
                raise Untranslatable(f"parameter {a.arg} of the nested def {s.name} has the annotation {ann!r}")
            e2[a.arg] = (ident(a.arg), ANNOT[ann])
            params.append((ident(a.arg), ANNOT[ann]))
        saved = (self.ret_type, self.ret_seen, self.loop_konts, self.state_expr)
        self.loop_konts, self.state_expr = [], None

        def no_end(_):
            raise Untranslatable(f"nested def {s.name} may end without return")

        self.ret_type, self.ret_seen = None, []
        n_aux = len(self.aux)
        self.block(s.body, e2, no_end)
        rt = self.ret_seen[0]
        for t in self.ret_seen[1:]:
            rt = join_ty(rt, t)
        rt = INT if rt == LIT else rt
        del self.aux[n_aux:]
        self.ret_type = rt
        body = self.block(s.body, e2, no_end)
        self.ret_type, self.ret_seen, self.loop_konts, self.state_expr = saved
        e3 = dict(env)
        nm = ident(s.name)
        e3[s.name] = (nm, FUN([t for _, t in params], rt))
        binders = " ".join(f"({p} : {lean_ty(t)})" for p, t in params)
        return [f"let {nm} : {' → '.join(lean_ty(t) for _, t in params)} → {lean_ty(rt)} := fun {binders} =>", *ind(paren(body))] + \
            self.block(rest, e3, kont)

    def for_(self, s, rest, env, kont):
        if s.orelse:
            raise Untranslatable("for/else")
        it, tit = self.iterable(s.iter, env)
        state = [x for x in self.assigned_loose(s.body) if x in env]
        if not state:
            raise Untranslatable("a loop that changes nothing")
        # element types of lists created empty: dry run of the body fixes them (first append)
        for x in state:
            t = env[x][1]
            if isinstance(t, tuple) and t[0] == "list" and t[1] is None:
                e_probe, _ = self.bind_target(s.target, tit, env)
                n_aux, saved_k = len(self.aux), self.loop_konts
                self.loop_konts = saved_k + [lambda e: ["_"]]
                try:
                    self.block(s.body, e_probe, lambda e: ["_"])
                except Untranslatable:
                    if x not in self.list_types:
                        raise
                finally:
                    self.loop_konts = saved_k
                    del self.aux[n_aux:]
                if x not in self.list_types:
                    raise Untranslatable(f"element type of the list {x} is never determined")
                raise _Retry()
        self.loop_no += 1
        step_name = f"{self.fn_name}_loop{self.loop_no}"
        e_body, pat = self.bind_target(s.target, tit, env)
        targets = {x.id for x in ast.walk(s.target) if isinstance(x, ast.Name)}
        used = {x.id for x in ast.walk(ast.Module(body=s.body, type_ignores=[])) if isinstance(x, ast.Name)}
        caps = [x for x in env if not x.startswith("#") and x in used and x not in state and x not in targets
                and not (isinstance(env[x][1], tuple) and env[x][1][0] == "fun")]
        if any(isinstance(env[x][1], tuple) and env[x][1][0] == "fun" for x in used if x in env):
            raise Untranslatable("a local function used inside a loop body")
        st_ty = TUP(*[env[x][1] for x in state]) if len(state) > 1 else env[state[0]][1]
        st_pat = "(" + ", ".join(ident(x) for x in state) + ")" if len(state) > 1 else ident(state[0])
        e_step = {k: v for k, v in e_body.items()}
        for x in caps + state:
            e_step[x] = (ident(x), env[x][1])
        if "#refined" in env:
            # refined expressions are passed as captured values under fresh names
            e_step["#refined"] = {}
            for k, (v, t) in env["#refined"].items():
                e_step["#refined"][k] = (v, t)
                caps_extra = (v, t)
                if all(v != ident(c) for c in caps) and v.isidentifier():
                    caps.append("#" + v)
                    e_step["#" + v] = caps_extra

        def state_kont(e):
            for x in state:
                if e[x][1] != env[x][1]:
                    raise Untranslatable(f"{x} changes its type inside the loop ({env[x][1]!r} -> {e[x][1]!r})")
            return ["(" + ", ".join(e[x][0] for x in state) + ")"] if len(state) > 1 else [e[state[0]][0]]

        saved = self.loop_konts
        self.loop_konts = saved + [state_kont]
        body = self.block(s.body, e_step, state_kont)
        self.loop_konts = saved
        cap_binders = " ".join(f"({e_step[x][0]} : {lean_ty(e_step[x][1])})" for x in caps)
        st_binder = f"(st : {lean_ty(st_ty)})"
        header = f"def {step_name} {cap_binders} {st_binder} (item : {lean_ty(tit)}) : {lean_ty(st_ty)} :="
        tgt_pat = pat.rsplit(" : ", 1)[0].lstrip("(")
        lines = [header] + ind([f"let {st_pat} := st", f"let {tgt_pat} := item"] + body)
        self.aux.append("\n".join(lines))
        cap_args = " ".join(env[x][0] if not x.startswith("#") else x[1:] for x in caps)
        e2 = dict(env)
        for x in state:
            e2[x] = (ident(x), env[x][1])
        init = "(" + ", ".join(env[x][0] for x in state) + ")" if len(state) > 1 else env[state[0]][0]
        return [f"let {st_pat} := List.foldl ({step_name} {cap_args}) {init} {it}"] + self.block(rest, e2, kont)


class _Retry(Exception):
    pass


class Broken:
    def __init__(self, lean_name, reason, doc):
        self.lean_name, self.reason, self.doc = lean_name, reason, doc


# ----------------------------------------------------------------------------------------------------------------------
# the item classes and method dispatch
# ----------------------------------------------------------------------------------------------------------------------
CLS = ["IntervalItem", "ClpConstraint", "ZeroConstraint", "OnlyConstraint", "ClpRelation"]


class Classes:
    def __init__(self, trees):
        self.defs = {}          # class name -> (bases, {method: (FunctionDef, path)})
        for path, tree in trees.items():
            for node in tree.body:
                if isinstance(node, ast.ClassDef):
                    bases = [ast.unparse(b).split(".")[-1] for b in node.bases]
                    methods = {m.name: (m, path) for m in node.body if isinstance(m, ast.FunctionDef)}
                    self.defs[node.name] = (bases, methods)
        self.dispatched = ("applies", "has_interval")

    def mro(self, cls):
        out = []

        def walk(c):
            if c in out or c not in self.defs:
                return
            out.append(c)
            for b in self.defs[c][0]:
                walk(b)
        walk(cls)
        return out

    def resolve(self, cls, method):
        for c in self.mro(cls):
            if method in self.defs[c][1]:
                return c
        return None

    def resolve_after(self, cls, method):
        for c in self.mro(cls)[1:]:
            if method in self.defs[c][1]:
                return c
        return None

    def interval_classes(self):
        return sorted(c for c in self.defs if "IntervalItem" in self.mro(c))


# ----------------------------------------------------------------------------------------------------------------------
# functions to translate
# ----------------------------------------------------------------------------------------------------------------------
def find_def(tree, qual):
    parts = qual.split(".")
    body = tree.body
    node = None
    for p in parts:
        node = next((x for x in body if isinstance(x, (ast.ClassDef, ast.FunctionDef)) and x.name == p), None)
        if node is None:
            return None
        body = node.body
    return node


def translate_function(known, classes, node, path, key, lean_name, params, *, cls=None, body=None, state=None, doc=None,
                       result_var=None):
    """params: [(python name, Lean name, type)]; body: the statements to translate (default: the function body)"""
    doc = doc or f"`{key}` ({path}:{node.lineno})"
    list_types = {}
    for _ in range(4):
        tr = Translator(known, classes)
        tr.fn_name, tr.cur_class, tr.list_types, tr.pending_empty = lean_name, cls, list_types, set()
        env = {}
        for py, ln, t in params:
            env[py] = (ln, t)
        if state is not None:
            tr.state_expr = (state[0], state[1])
            env[state[1]] = (state[1], state[2])
        stmts = body if body is not None else node.body

        def no_end(e):
            if result_var is not None:
                return tr.ret(*e[result_var])
            if tr.state_expr is not None:
                return tr.ret(*e[tr.state_expr[1]])
            raise Untranslatable("the function may end without return")

        if result_var is not None:
            tr.loop_konts = [no_end]

        try:
            tr.ret_type, tr.ret_seen = None, []
            tr.block(stmts, env, no_end)
            rt = tr.ret_seen[0]
            for t in tr.ret_seen[1:]:
                rt = join_ty(rt, t)
            rt = BOOL if rt == LIT else rt
            tr2 = Translator(known, classes)
            tr2.fn_name, tr2.cur_class, tr2.list_types, tr2.pending_empty = lean_name, cls, list_types, set()
            tr2.state_expr = tr.state_expr
            tr2.ret_type = rt

            def no_end2(e):
                if result_var is not None:
                    return tr2.ret(*e[result_var])
                if tr2.state_expr is not None:
                    return tr2.ret(*e[tr2.state_expr[1]])
                raise Untranslatable("the function may end without return")

            if result_var is not None:
                tr2.loop_konts = [no_end2]

            lines = tr2.block(stmts, env, no_end2)
        except _Retry:
            continue
        binders = [(ln, t) for _, ln, t in params] + ([(state[1], state[2])] if state is not None else [])
        fn = Fn(lean_name, [(ln, t) for ln, t in binders], rt, lines, doc)
        fn.aux = tr2.aux
        return fn
    raise Untranslatable("list element types do not settle")


def render_fn(fn) -> str:
    if isinstance(fn, Broken):
        return f"/-- {fn.doc} — OUTSIDE THE TRANSLATED SUBSET -/\ndef {fn.lean_name} : Py.Untranslatable := ⟨{q(fn.reason)}⟩"
    binders = " ".join(f"({n} : {lean_ty(t)})" for n, t in fn.params)
    out = list(getattr(fn, "aux", []))
    out.append(f"/-- {fn.doc} -/\ndef {fn.lean_name} {binders} : {lean_ty(fn.ret)} :=\n" + "\n".join(ind(fn.lines)))
    return "\n\n".join(out)


def q(s: str) -> str:
    return '"' + s.replace("\\", "\\\\").replace('"', '\\"').replace("\n", " ") + '"'


def loop_body_of(node, target_names):
    """the body of the (only) top-level `for` of a method whose targets are `target_names`"""
    loops = [s for s in node.body if isinstance(s, ast.For)]
    if len(loops) != 1:
        raise Untranslatable(f"{node.name}: expected exactly one top-level loop, found {len(loops)}")
    lp = loops[0]
    if ast.unparse(lp.target).replace(" ", "").strip("()") != target_names or ast.unparse(lp.iter) != "enumerate(global_axis)":
        raise Untranslatable(f"{node.name}: the loop is `for {ast.unparse(lp.target)} in {ast.unparse(lp.iter)}`")
    return lp


def translate_all(repo: Path):
    texts, trees = {}, {}
    for rel in SOURCES:
        texts[rel] = (Path(repo) / rel).read_text()
        trees[rel] = ast.parse(texts[rel])
    classes = Classes({p: t for p, t in trees.items() if p.startswith("glotaran/model/")})
    known, results = {}, []

    def add(key, lean_name, build, doc):
        try:
            fn = build()
        except Untranslatable as e:
            fn = Broken(lean_name, str(e), doc)
        except (KeyError, IndexError, AttributeError, TypeError) as e:     # a shape of source the translator did not foresee
            fn = Broken(lean_name, f"translator error {type(e).__name__}: {e}", doc)
        fn.key = key
        known[key] = fn
        results.append(fn)
        return fn

    def method(path, qual, lean_name, params, key=None, **kw):
        key = key or qual.split(".")[-1]
        node = find_def(trees[path], qual)
        doc = f"`{qual}` ({path}" + (f":{node.lineno})" if node is not None else ")")

        def build():
            if node is None:
                raise Untranslatable(f"{qual} not found in {path}")
            got = [a.arg for a in node.args.args]
            want = [p[0] for p in params if not p[0].startswith("#")]
            if got != want:
                raise Untranslatable(f"{qual} has the parameters {got}, the translator knows {want}")
            return translate_function(known, classes, node, path, qual, lean_name, params, doc=doc, **kw)
        return add(key, lean_name, build, doc)

    # -- item classes: every class that overrides a dispatched method is translated; then the dispatchers
    icls = classes.interval_classes()
    unknown = [c for c in icls if c not in CLS]
    for m, params in (("has_interval", [("self", "self", ITEM)]), ("applies", [("self", "self", ITEM), ("index", "index", O(RAT))])):
        owners = []
        for c in CLS:
            o = classes.resolve(c, m) if c in classes.defs else None
            if o is not None and o not in owners:
                owners.append(o)
        # base classes first, so that super() calls find their callee
        owners.sort(key=lambda c: -len(classes.mro(c)))
        owners.reverse()
        owners.sort(key=lambda c: len(classes.mro(c)))
        for o in owners:
            path = classes.defs[o][1][m][1]
            method(path, f"{o}.{m}", f"{o}_{m}", params, key=f"{o}.{m}", cls=o)
        lean_name = m
        doc = f"`item.{m}(…)`: method resolution over the item classes {CLS}"

        def build(m=m, params=params, lean_name=lean_name, doc=doc):
            if unknown:
                raise Untranslatable(f"interval item classes unknown to the vocabulary: {unknown}")
            missing = [c for c in CLS if c not in classes.defs]
            if missing:
                raise Untranslatable(f"item classes not found in the source: {missing}")
            arms = []
            for c in CLS:
                o = classes.resolve(c, m)
                if o is None:
                    raise Untranslatable(f"{c} has no method {m}")
                callee = known.get(f"{o}.{m}")
                if isinstance(callee, Broken):
                    raise Untranslatable(f"{o}.{m} is outside the translated subset")
                args = " ".join(ln for _, ln, _ in params)
                arms.append(f"| .{c} => {callee.lean_name} {args}")
            fn = Fn(lean_name, [(ln, t) for _, ln, t in params], known[f"{classes.resolve(CLS[0], m)}.{m}"].ret,
                    ["match self.cls with"] + arms, doc)
            fn.aux = []
            return fn
        add("dispatch:" + m, lean_name, build, doc)

    mp, dp, ep = "glotaran/optimization/matrix_provider.py", "glotaran/optimization/data_provider.py", "glotaran/optimization/estimation_provider.py"
    method(mp, "MatrixProvider.does_interval_item_apply", "does_interval_item_apply", [("prop", "prop", ITEM), ("index", "index", O(RAT))])
    method(dp, "DataProvider.get_axis_slice_from_interval", "get_axis_slice_from_interval", [("interval", "interval", PAIR), ("axis", "axis", L(RAT))])
    method(ep, "_get_area", "get_area", [("clp_label", "clp_label", STR), ("clp_labels", "clp_labels", LABELS), ("clps", "clps", L(L(RAT))),
                                         ("intervals", "intervals", L(PAIR)), ("global_axis", "global_axis", L(RAT))])

    # -- the loop body of apply_constraints: (model, matrices, (i, index)) -> matrices
    node = find_def(trees[mp], "MatrixProvider.apply_constraints")
    doc = f"the body of the loop over the global axis of `MatrixProvider.apply_constraints` ({mp}" + (f":{node.lineno})" if node else ")")

    def build_constraints():
        if node is None:
            raise Untranslatable("MatrixProvider.apply_constraints not found")
        lp = loop_body_of(node, "i,index")
        pre = [s for s in node.body if s is not lp]
        # the statements around the loop must be the ones the model assumes: model = ..., the early return on no constraints, return matrices
        shape = [ast.unparse(s) for s in pre if not (isinstance(s, ast.Expr) and isinstance(s.value, ast.Constant))]
        want = ["model = self.group.model", "if len(model.clp_constraints) == 0:\n    return matrices", "return matrices"]
        if shape != want:
            raise Untranslatable(f"apply_constraints: statements around the loop are {shape}")
        params = [("model", "model", MODEL), ("matrices", "matrices", L(LMAT2)), ("i", "i", NAT), ("index", "index", RAT)]
        return translate_function(known, classes, node, mp, "apply_constraints", "apply_constraints_body", params,
                                  body=lp.body, result_var="matrices", doc=doc)
    add("apply_constraints_body", "apply_constraints_body", build_constraints, doc)
    return results, texts


HEADER = """/- GENERATED by harness/props/_c08_fns.py from the source text of VERIF_REPO — do not edit.
   Statement-by-statement transcription of the functions of glotaran/model/interval_item.py, clp_constraint.py,
   glotaran/optimization/matrix_provider.py, data_provider.py, estimation_provider.py that property C08 is about (see the
   docstring of the generator for the subset and the conventions; the vocabulary is GlotaranModel/C08Py.lean).
   `generated_*_eq_model` (GlotaranProofs/Props/C08.lean) prove each definition equal to the hand-written model. -/
import GlotaranModel.C08Py
namespace Glotaran.C08.Gen
open Glotaran.LinAlg Glotaran.C02 Glotaran.C08
set_option linter.unusedVariables false

/-- the model object as the translated functions read it -/
structure Model where
  clp_constraints : List Py.Item := []
  clp_relations : List Py.Item := []
  weights : List Py.Weight := []
  deriving Repr, Inhabited
"""


def render(results) -> str:
    return HEADER + "\n" + "\n\n".join(render_fn(r) for r in results) + "\n\nend Glotaran.C08.Gen\n"


def source_sha1(texts) -> str:
    h = hashlib.sha1()
    for k in sorted(texts):
        h.update(k.encode())
        h.update(texts[k].encode())
    return h.hexdigest()
