"""C06 translator: regenerates lean/GlotaranModel/Generated/C06.lean from the source text of the builtin megacomplexes.

For every builtin megacomplex it extracts, with `ast` only (nothing is imported or executed):
  * the expression that builds the clp-label list `calculate_matrix` returns (resolved through local assignments, through
    `self.<method>()` calls and, for the decay family, through `decay/util.py:calculate_matrix` ->
    `megacomplex.get_compartments`) as a `LabelExpr` of lean/GlotaranModel/C06Desc.lean;
  * where the kernels put the columns (`FillDesc`): the stores of the no-IRF oscillation loop (`matrix[:, idx]`,
    `matrix[:, idx + rates.size]`, `idx += 1`), the `np.concatenate((osc.real, osc.imag), axis=1)` of the IRF kernels, the
    constant-column stores of the coherent-artifact kernel with their `order > k` guards, the `enumerate(self.shape.values())`
    loop of the spectral megacomplex;
  * the label expressions `finalize_data` selects by (`….sel(clp_label=<expr>)`).
A construct the patterns below do not recognise becomes `.unknown "<dump>"`: the theorems over the table then no longer
check, which is the intended outcome of a source change the translator does not understand.
"""
from __future__ import annotations

import ast
import hashlib
from pathlib import Path

BASE = "glotaran/builtin/megacomplexes"
SOURCES = {
    "dampedOscillation": (f"{BASE}/damped_oscillation/damped_oscillation_megacomplex.py", "DampedOscillationMegacomplex"),
    "pfid": (f"{BASE}/pfid/pfid_megacomplex.py", "PFIDMegacomplex"),
    "spectral": (f"{BASE}/spectral/spectral_megacomplex.py", "SpectralMegacomplex"),
    "baseline": (f"{BASE}/baseline/baseline_megacomplex.py", "BaselineMegacomplex"),
    "coherentArtifact": (f"{BASE}/coherent_artifact/coherent_artifact_megacomplex.py", "CoherentArtifactMegacomplex"),
    "clpGuide": (f"{BASE}/clp_guide/clp_guide_megacomplex.py", "ClpGuideMegacomplex"),
    "decay": (f"{BASE}/decay/decay_megacomplex.py", "DecayMegacomplex"),
    "decayParallel": (f"{BASE}/decay/decay_parallel_megacomplex.py", "DecayParallelMegacomplex"),
    "decaySequential": (f"{BASE}/decay/decay_sequential_megacomplex.py", "DecaySequentialMegacomplex"),
}
DECAY_UTIL = f"{BASE}/decay/util.py"
KERNELS = {
    "dampedOscillationNoIrfFill": ("dampedOscillation", "calculate_damped_oscillation_matrix_no_irf"),
    "dampedOscillationIrfFill": ("dampedOscillation", "calculate_damped_oscillation_matrix_gaussian_irf"),
    "pfidFill": ("pfid", "calculate_pfid_matrix_gaussian_irf"),
    "coherentArtifactFill": ("coherentArtifact", "_calculate_coherent_artifact_matrix_on_index"),
}


# ------------------------------------------------------------------------------------------------------
# small AST helpers
# ------------------------------------------------------------------------------------------------------
def path_of(node) -> str | None:
    """dotted text of a Name / Attribute / zero-argument-call chain: self.get_k_matrix().involved_compartments()"""
    if isinstance(node, ast.Name):
        return node.id
    if isinstance(node, ast.Attribute):
        b = path_of(node.value)
        return None if b is None else f"{b}.{node.attr}"
    if isinstance(node, ast.Call) and not node.args and not node.keywords:
        b = path_of(node.func)
        return None if b is None else f"{b}()"
    return None


def dump(node) -> str:
    try:
        return ast.unparse(node)
    except Exception:
        return ast.dump(node)


def find_class(tree, name):
    for n in tree.body:
        if isinstance(n, ast.ClassDef) and n.name == name:
            return n
    return None


def find_func(body, name):
    for n in body:
        if isinstance(n, ast.FunctionDef) and n.name == name:
            return n
    return None


def strip_doc(body):
    if body and isinstance(body[0], ast.Expr) and isinstance(getattr(body[0], "value", None), ast.Constant) \
            and isinstance(body[0].value.value, str):
        return body[1:]
    return body


def returns_of(fn):
    out = []
    for n in ast.walk(fn):
        if isinstance(n, ast.Return):
            out.append(n)
    return out


# ------------------------------------------------------------------------------------------------------
# label expressions
# ------------------------------------------------------------------------------------------------------
class Unknown(Exception):
    pass


def parts_of(elt, var):
    """an element expression -> list of parts"""
    if isinstance(elt, ast.JoinedStr):
        out = []
        for v in elt.values:
            if isinstance(v, ast.Constant) and isinstance(v.value, str):
                out.append(("lit", v.value))
            elif isinstance(v, ast.FormattedValue) and v.conversion == -1 and v.format_spec is None:
                out += parts_of(v.value, var)
            else:
                raise Unknown(dump(elt))
        return out
    if isinstance(elt, ast.Name) and var is not None and elt.id == var:
        return [("var",)]
    p = path_of(elt)
    if p is not None and "." in p and not p.endswith(")"):
        return [("attr", p)]
    raise Unknown(dump(elt))


def src_of(it):
    """the iterable of a comprehension / loop"""
    if isinstance(it, ast.Call) and isinstance(it.func, ast.Name) and it.func.id == "range" and len(it.args) == 2 \
            and isinstance(it.args[0], ast.Constant) and it.args[0].value == 1 and isinstance(it.args[1], ast.BinOp) \
            and isinstance(it.args[1].op, ast.Add) and isinstance(it.args[1].right, ast.Constant) and it.args[1].right.value == 1:
        p = path_of(it.args[1].left)
        if p is not None:
            return ("range1", p)
    p = path_of(it)
    if p is not None and "." in p and not p.endswith(")"):
        return ("attr", p)
    raise Unknown(dump(it))


class Resolver:
    def __init__(self, repo: Path):
        self.repo = repo
        self.trees = {}

    def tree(self, rel):
        if rel not in self.trees:
            self.trees[rel] = ast.parse((self.repo / rel).read_text())
        return self.trees[rel]

    def label_expr(self, key):
        rel, cls_name = SOURCES[key]
        tree = self.tree(rel)
        cls = find_class(tree, cls_name)
        if cls is None:
            return ("unknown", f"class {cls_name} not found")
        fn = find_func(cls.body, "calculate_matrix")
        if fn is None:
            return ("unknown", "no calculate_matrix")
        try:
            return self.returned_labels(fn, cls, "self")
        except Unknown as e:
            return ("unknown", str(e))

    def returned_labels(self, fn, cls, selfname):
        rets = returns_of(fn)
        if len(rets) != 1 or rets[0].value is None:
            raise Unknown(f"{fn.name}: {len(rets)} return statements")
        v = rets[0].value
        if isinstance(v, ast.Tuple) and len(v.elts) == 2:
            return self.resolve(v.elts[0], fn, cls, selfname)
        # the decay family: `return calculate_matrix(self, dataset_model, ...)` of decay/util.py
        if isinstance(v, ast.Call) and isinstance(v.func, ast.Name) and v.func.id == "calculate_matrix" and v.args \
                and isinstance(v.args[0], ast.Name) and v.args[0].id == selfname:
            util = find_func(self.tree(DECAY_UTIL).body, "calculate_matrix")
            if util is None:
                raise Unknown("decay/util.py: no calculate_matrix")
            first = util.args.args[0].arg
            return self.returned_labels(util, cls, first)
        raise Unknown(dump(v))

    def resolve(self, e, fn, cls, selfname):
        if isinstance(e, ast.BinOp) and isinstance(e.op, ast.Add):
            return ("append", self.resolve(e.left, fn, cls, selfname), self.resolve(e.right, fn, cls, selfname))
        if isinstance(e, ast.ListComp):
            if len(e.generators) != 1 or not isinstance(e.generators[0].target, ast.Name) or e.generators[0].is_async:
                raise Unknown(dump(e))
            g = e.generators[0]
            var = g.target.id
            flt = None
            if len(g.ifs) == 1 and isinstance(g.ifs[0], ast.Compare) and len(g.ifs[0].ops) == 1 and isinstance(g.ifs[0].ops[0], ast.In) \
                    and isinstance(g.ifs[0].left, ast.Name) and g.ifs[0].left.id == var:
                flt = path_of(g.ifs[0].comparators[0])
                if flt is None:
                    raise Unknown(dump(e))
            elif g.ifs:
                raise Unknown(dump(e))
            return ("comp", parts_of(e.elt, var), self.rename(src_of(g.iter), selfname), self.rename_path(flt, selfname))
        if isinstance(e, ast.List):
            if len(e.elts) != 1:
                raise Unknown(dump(e))
            return ("single", [self.rename_part(p, selfname) for p in parts_of(e.elts[0], None)])
        if isinstance(e, ast.Call) and isinstance(e.func, ast.Attribute) and isinstance(e.func.value, ast.Name) \
                and e.func.value.id == selfname:
            m = find_func(cls.body, e.func.attr)
            if m is None:
                raise Unknown(f"method {e.func.attr} not found in {cls.name}")
            rets = returns_of(m)
            if len(rets) != 1:
                raise Unknown(f"{m.name}: {len(rets)} return statements")
            return self.resolve(rets[0].value, m, cls, "self")
        if isinstance(e, ast.Attribute) and isinstance(e.value, ast.Name) and e.value.id == selfname:
            return ("whole", f"self.{e.attr}")
        if isinstance(e, ast.Name):
            return self.resolve_name(e.id, fn, cls, selfname)
        raise Unknown(dump(e))

    def rename_path(self, p, selfname):
        if p is None or selfname == "self":
            return p
        return "self" + p[len(selfname):] if p == selfname or p.startswith(selfname + ".") else p

    def rename(self, src, selfname):
        return (src[0], self.rename_path(src[1], selfname))

    def rename_part(self, part, selfname):
        return (part[0], self.rename_path(part[1], selfname)) if part[0] == "attr" else part

    def resolve_name(self, name, fn, cls, selfname):
        body = strip_doc(fn.body)
        assigns = [(i, n) for i, n in enumerate(body)
                   if isinstance(n, ast.Assign) and len(n.targets) == 1 and isinstance(n.targets[0], ast.Name) and n.targets[0].id == name]
        # any other top-level statement that rebinds / mutates the name makes the pattern unknown
        others = []
        for i, n in enumerate(body):
            if any(i == j for j, _ in assigns):
                continue
            for sub in ast.walk(n):
                if isinstance(sub, (ast.Assign, ast.AugAssign, ast.AnnAssign)):
                    tg = sub.targets if isinstance(sub, ast.Assign) else [sub.target]
                    if any(isinstance(t, ast.Name) and t.id == name for t in tg):
                        others.append(i)
                if isinstance(sub, ast.Call) and isinstance(sub.func, ast.Attribute) and isinstance(sub.func.value, ast.Name) \
                        and sub.func.value.id == name:
                    others.append(i)
        if len(assigns) != 1:
            raise Unknown(f"{fn.name}: {len(assigns)} assignments to {name}")
        i0, a = assigns[0]
        if isinstance(a.value, ast.List) and not a.value.elts:
            # accumulation: name = []; for x in it: [if x in name: raise ...]; name.append(<elt>)
            loops = sorted(set(others))
            if len(loops) != 1 or not isinstance(body[loops[0]], ast.For):
                raise Unknown(f"{fn.name}: accumulation of {name} is not a single loop")
            loop = body[loops[0]]
            if not isinstance(loop.target, ast.Name) or loop.orelse:
                raise Unknown(dump(loop))
            var = loop.target.id
            appended = None
            for st in loop.body:
                if isinstance(st, ast.If) and all(isinstance(x, ast.Raise) for x in st.body) and not st.orelse:
                    continue
                if isinstance(st, ast.Expr) and isinstance(st.value, ast.Call) and path_of(st.value.func) == f"{name}.append" \
                        and len(st.value.args) == 1 and appended is None:
                    appended = st.value.args[0]
                    continue
                raise Unknown(dump(st))
            if appended is None:
                raise Unknown(dump(loop))
            return ("comp", parts_of(appended, var), self.rename(src_of(loop.iter), selfname), None)
        if others:
            raise Unknown(f"{fn.name}: {name} is modified after its assignment")
        return self.resolve(a.value, fn, cls, selfname)

    # -- finalize_data: what is selected by label --------------------------------------------------------
    def finalize_selections(self, key):
        rel, cls_name = SOURCES[key]
        cls = find_class(self.tree(rel), cls_name)
        fn = find_func(cls.body, "finalize_data") if cls is not None else None
        out = []
        if fn is None:
            return out
        # loop variables of enclosing `for x in <attr>` loops
        def walk(body, loops):
            for st in body:
                for sub in ast.walk(st) if not isinstance(st, (ast.For, ast.If)) else []:
                    self._sel(sub, loops, fn, cls, out)
                if isinstance(st, ast.For):
                    for sub in ast.walk(st.iter):
                        self._sel(sub, loops, fn, cls, out)
                    tgt = st.target
                    var = tgt.id if isinstance(tgt, ast.Name) else (tgt.elts[-1].id if isinstance(tgt, ast.Tuple) and isinstance(tgt.elts[-1], ast.Name) else None)
                    it = st.iter
                    if isinstance(it, ast.Call) and isinstance(it.func, ast.Name) and it.func.id == "enumerate" and it.args:
                        it = it.args[0]
                    try:
                        src = src_of(it)
                    except Unknown:
                        src = None
                    walk(st.body, loops + [(var, src)] if var and src else loops)
                elif isinstance(st, ast.If):
                    for sub in ast.walk(st.test):
                        self._sel(sub, loops, fn, cls, out)
                    walk(st.body, loops)
                    walk(st.orelse, loops)
        walk(strip_doc(fn.body), [])
        return out

    def _sel(self, node, loops, fn, cls, out):
        if not (isinstance(node, ast.Call) and isinstance(node.func, ast.Attribute) and node.func.attr == "sel"):
            return
        for kw in node.keywords:
            if kw.arg != "clp_label":
                continue
            what = path_of(node.func.value) or dump(node.func.value)
            v = kw.value
            try:
                if isinstance(v, ast.JoinedStr):
                    var, src = loops[-1] if loops else (None, None)
                    if src is None:
                        expr = ("single", parts_of(v, None))
                    else:
                        expr = ("comp", parts_of(v, var), src, None)
                else:
                    expr = self.resolve(v, fn, cls, "self")
            except Unknown as e:
                expr = ("unknown", str(e))
            out.append((what, expr))


# ------------------------------------------------------------------------------------------------------
# fill descriptors
# ------------------------------------------------------------------------------------------------------
def idx_expr(node, idxname, loopvar=None):
    if isinstance(node, ast.Name) and node.id == idxname:
        return ("idx",)
    if isinstance(node, ast.Name) and loopvar is not None and node.id == loopvar:
        return ("loopVar",)
    if isinstance(node, ast.Constant) and isinstance(node.value, int):
        return ("const", node.value)
    if isinstance(node, ast.BinOp) and isinstance(node.op, ast.Add) and isinstance(node.left, ast.Name) and node.left.id == idxname:
        r = node.right
        if isinstance(r, ast.Constant) and isinstance(r.value, int):
            return ("idxPlus", r.value)
        if isinstance(r, ast.Attribute) and r.attr == "size" and isinstance(r.value, ast.Name):
            return ("idxPlusSize", r.value.id)
    raise Unknown(dump(node))


def column_store(st, idxname, loopvar=None):
    """`matrix[:, <idx>] = <value>` / `+=` -> (idx expr, part) or None when the statement is not a store into matrix"""
    if isinstance(st, ast.Assign) and len(st.targets) == 1:
        tgt, val = st.targets[0], st.value
    elif isinstance(st, ast.AugAssign) and isinstance(st.op, ast.Add):
        tgt, val = st.target, st.value
    else:
        return None
    if not (isinstance(tgt, ast.Subscript) and isinstance(tgt.value, ast.Name) and tgt.value.id == "matrix"):
        return None
    sl = tgt.slice
    if not (isinstance(sl, ast.Tuple) and len(sl.elts) == 2 and isinstance(sl.elts[0], ast.Slice)
            and sl.elts[0].lower is None and sl.elts[0].upper is None and sl.elts[0].step is None):
        raise Unknown(dump(tgt))
    at = idx_expr(sl.elts[1], idxname, loopvar)
    if isinstance(val, ast.Attribute) and val.attr in ("real", "imag") and isinstance(val.value, ast.Name):
        part = val.attr
    else:
        part = "value"
    return at, part


def fill_zip_loop(fn):
    body = strip_doc(fn.body)
    if len(body) != 2 or not (isinstance(body[0], ast.Assign) and len(body[0].targets) == 1 and isinstance(body[0].targets[0], ast.Name)
                              and isinstance(body[0].value, ast.Constant) and body[0].value.value == 0) or not isinstance(body[1], ast.For):
        raise Unknown(f"{fn.name}: not `idx = 0; for ... in zip(...)`")
    idxname = body[0].targets[0].id
    loop = body[1]
    if not (isinstance(loop.target, ast.Tuple) and all(isinstance(x, ast.Name) for x in loop.target.elts)
            and isinstance(loop.iter, ast.Call) and isinstance(loop.iter.func, ast.Name) and loop.iter.func.id == "zip"
            and all(isinstance(a, ast.Name) for a in loop.iter.args)) or loop.orelse:
        raise Unknown(dump(loop))
    vars_ = [x.id for x in loop.target.elts]
    arrays = [a.id for a in loop.iter.args]
    stores, step = [], None
    for st in loop.body:
        if isinstance(st, ast.AugAssign) and isinstance(st.target, ast.Name) and st.target.id == idxname:
            if not (isinstance(st.op, ast.Add) and isinstance(st.value, ast.Constant) and isinstance(st.value.value, int)) or step is not None:
                raise Unknown(dump(st))
            step = st.value.value
            continue
        if step is not None:
            raise Unknown(f"{fn.name}: statement after the increment of {idxname}")
        cs = column_store(st, idxname)
        if cs is not None:
            stores.append((cs[0], cs[1], None))
            continue
        if isinstance(st, ast.Assign) and len(st.targets) == 1 and isinstance(st.targets[0], ast.Name) and st.targets[0].id != idxname:
            continue        # osc = np.exp(...)
        raise Unknown(dump(st))
    if step is None or not stores:
        raise Unknown(f"{fn.name}: no stores / no increment")
    return ("zipLoop", vars_, arrays, stores, step)


def fill_concat(fn):
    rets = returns_of(fn)
    if len(rets) != 1:
        raise Unknown(f"{fn.name}: {len(rets)} return statements")
    v = rets[0].value
    if not (isinstance(v, ast.Call) and path_of(v.func) == "np.concatenate" and len(v.args) == 1 and isinstance(v.args[0], ast.Tuple)
            and len(v.keywords) == 1 and v.keywords[0].arg == "axis" and isinstance(v.keywords[0].value, ast.Constant)
            and v.keywords[0].value.value == 1):
        raise Unknown(dump(v))
    parts = []
    base = None
    for e in v.args[0].elts:
        if not (isinstance(e, ast.Attribute) and e.attr in ("real", "imag") and isinstance(e.value, ast.Name)):
            raise Unknown(dump(e))
        if base is not None and base != e.value.id:
            raise Unknown(dump(v))
        base = e.value.id
        parts.append(e.attr)
    return ("concat", parts)


def fill_direct(fn):
    stores = []
    for st in strip_doc(fn.body):
        cs = column_store(st, "<no index variable>")
        if cs is not None:
            stores.append((cs[0], cs[1], None))
            continue
        if isinstance(st, ast.If) and not st.orelse and isinstance(st.test, ast.Compare) and len(st.test.ops) == 1 \
                and isinstance(st.test.ops[0], ast.Gt) and isinstance(st.test.left, ast.Name) \
                and isinstance(st.test.comparators[0], ast.Constant) and isinstance(st.test.comparators[0].value, int):
            for inner in st.body:
                cs = column_store(inner, "<no index variable>")
                if cs is None:
                    raise Unknown(dump(inner))
                stores.append((cs[0], cs[1], (st.test.left.id, st.test.comparators[0].value)))
            continue
        raise Unknown(dump(st))
    if not stores:
        raise Unknown(f"{fn.name}: no stores")
    return ("direct", stores)


def fill_enumerate(fn):
    """the `for i, v in enumerate(<attr>.values()): matrix[:, i] += ...` loop of a calculate_matrix"""
    found = []
    for st in strip_doc(fn.body):
        if isinstance(st, ast.For) and isinstance(st.iter, ast.Call) and isinstance(st.iter.func, ast.Name) and st.iter.func.id == "enumerate":
            found.append(st)
    if len(found) != 1:
        raise Unknown(f"{fn.name}: {len(found)} enumerate loops")
    loop = found[0]
    arg = loop.iter.args[0] if len(loop.iter.args) == 1 else None
    if not (isinstance(arg, ast.Call) and isinstance(arg.func, ast.Attribute) and arg.func.attr == "values" and not arg.args
            and isinstance(loop.target, ast.Tuple) and len(loop.target.elts) == 2 and all(isinstance(x, ast.Name) for x in loop.target.elts)):
        raise Unknown(dump(loop))
    p = path_of(arg.func.value)
    if p is None or len(loop.body) != 1:
        raise Unknown(dump(loop))
    cs = column_store(loop.body[0], "<no index variable>", loop.target.elts[0].id)
    if cs is None:
        raise Unknown(dump(loop.body[0]))
    return ("enumerate", p, (cs[0], cs[1], None))


def kernel_calls(fn):
    """[(condition text, kernel function name)] for the calls of `calculate_*` functions inside calculate_matrix"""
    out = []

    def walk(body, cond):
        for st in body:
            if isinstance(st, ast.If):
                t = dump(st.test)
                walk(st.body, cond + [t])
                walk(st.orelse, cond + [f"not ({t})"])
            elif isinstance(st, ast.For):
                walk(st.body, cond)
            else:
                for sub in ast.walk(st):
                    if isinstance(sub, ast.Call) and isinstance(sub.func, ast.Name) and "calculate_" in sub.func.id:
                        out.append((" and ".join(cond) or "always", sub.func.id))
    walk(strip_doc(fn.body), [])
    return out


# ------------------------------------------------------------------------------------------------------
# extraction + rendering
# ------------------------------------------------------------------------------------------------------
def extract_all(repo: Path):
    r = Resolver(repo)
    labels = {k: r.label_expr(k) for k in SOURCES}
    fills = {}
    for name, (key, fname) in KERNELS.items():
        fn = find_func(r.tree(SOURCES[key][0]).body, fname)
        try:
            if fn is None:
                raise Unknown(f"function {fname} not found")
            if name == "dampedOscillationNoIrfFill":
                fills[name] = fill_zip_loop(fn)
            elif name == "coherentArtifactFill":
                fills[name] = fill_direct(fn)
            else:
                fills[name] = fill_concat(fn)
        except Unknown as e:
            fills[name] = ("unknown", str(e))
    cls = find_class(r.tree(SOURCES["spectral"][0]), SOURCES["spectral"][1])
    fn = find_func(cls.body, "calculate_matrix") if cls is not None else None
    try:
        if fn is None:
            raise Unknown("SpectralMegacomplex.calculate_matrix not found")
        fills["spectralFill"] = fill_enumerate(fn)
    except Unknown as e:
        fills["spectralFill"] = ("unknown", str(e))
    sels = {k: r.finalize_selections(k) for k in ("dampedOscillation", "pfid", "coherentArtifact", "baseline")}
    calls = {}
    for k in ("dampedOscillation", "pfid", "coherentArtifact"):
        cls = find_class(r.tree(SOURCES[k][0]), SOURCES[k][1])
        fn = find_func(cls.body, "calculate_matrix") if cls is not None else None
        calls[k] = kernel_calls(fn) if fn is not None else []
    return labels, fills, sels, calls


def lstr(s: str) -> str:
    out = ['"']
    for ch in s:
        if ch == '"':
            out.append('\\"')
        elif ch == "\\":
            out.append("\\\\")
        elif ch == "\n":
            out.append("\\n")
        elif ch == "\t":
            out.append("\\t")
        elif ord(ch) < 32 or ord(ch) > 126:
            out.append("\\u{%x}" % ord(ch))
        else:
            out.append(ch)
    out.append('"')
    return "".join(out)


def r_part(p):
    if p[0] == "lit":
        return f".lit {lstr(p[1])}"
    if p[0] == "var":
        return ".var"
    return f".attr {lstr(p[1])}"


def r_src(s):
    return f"(.{s[0]} {lstr(s[1])})"


def r_label(e):
    k = e[0]
    if k == "append":
        return f"(.append {r_label(e[1])} {r_label(e[2])})"
    if k == "comp":
        flt = "none" if e[3] is None else f"(some {lstr(e[3])})"
        return f"(.comp [{', '.join(r_part(p) for p in e[1])}] {r_src(e[2])} {flt})"
    if k == "single":
        return f"(.single [{', '.join(r_part(p) for p in e[1])}])"
    if k == "whole":
        return f"(.whole {lstr(e[1])})"
    return f"(.unknown {lstr(e[1][:300])})"


def r_idx(i):
    if i[0] in ("idx", "loopVar"):
        return f".{i[0]}"
    if i[0] == "idxPlusSize":
        return f"(.idxPlusSize {lstr(i[1])})"
    return f"(.{i[0]} {i[1]})"


def r_store(s):
    g = "none" if s[2] is None else f"(some ({lstr(s[2][0])}, {s[2][1]}))"
    return f"⟨{r_idx(s[0])}, .{s[1]}, {g}⟩"


def r_fill(f):
    k = f[0]
    if k == "zipLoop":
        return (f"(.zipLoop [{', '.join(lstr(v) for v in f[1])}] [{', '.join(lstr(v) for v in f[2])}] "
                f"[{', '.join(r_store(s) for s in f[3])}] {f[4]})")
    if k == "concat":
        return f"(.concat [{', '.join('.' + p for p in f[1])}])"
    if k == "direct":
        return f"(.direct [{', '.join(r_store(s) for s in f[1])}])"
    if k == "enumerate":
        return f"(.enumerate {lstr(f[1])} {r_store(f[2])})"
    return f"(.unknown {lstr(f[1][:300])})"


def render(labels, fills, sels, calls) -> str:
    out = ["/- GENERATED by harness/props/c06.py (generate) from the source text of VERIF_REPO — do not edit.",
           "   Label-construction expressions of `calculate_matrix`, column fill patterns of the kernels and the",
           "   label expressions `finalize_data` selects by, of every builtin megacomplex (see harness/props/_c06_extract.py). -/",
           "import GlotaranModel.C06Desc", "namespace Glotaran.C06.Generated", "open Glotaran.C06", ""]
    for k in SOURCES:
        out.append(f"/-- {SOURCES[k][1]}.calculate_matrix: the returned clp labels -/")
        out.append(f"def {k}Labels : LabelExpr := {r_label(labels[k])}")
        out.append("")
    for k, f in fills.items():
        out.append(f"def {k} : FillDesc := {r_fill(f)}")
        out.append("")
    for k, lst in sels.items():
        items = ", ".join(f"({lstr(w)}, {r_label(e)})" for w, e in lst)
        out.append(f"/-- {SOURCES[k][1]}.finalize_data: `<array>.sel(clp_label=<expr>)` -/")
        out.append(f"def {k}Selections : List (String × LabelExpr) := [{items}]")
        out.append("")
    for k, lst in calls.items():
        items = ", ".join(f"({lstr(c)}, {lstr(n)})" for c, n in lst)
        out.append(f"/-- {SOURCES[k][1]}.calculate_matrix: which kernel is called under which condition -/")
        out.append(f"def {k}Kernels : List (String × String) := [{items}]")
        out.append("")
    out.append("end Glotaran.C06.Generated")
    return "\n".join(out) + "\n"


def source_sha1(repo: Path) -> dict:
    files = sorted({v[0] for v in SOURCES.values()} | {DECAY_UTIL})
    return {f: hashlib.sha1((repo / f).read_bytes()).hexdigest() for f in files}
