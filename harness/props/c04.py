"""C04 — decay matrices are the solution of the compartmental rate equations (no IRF).

Correspondence: KMatrix.{involved_compartments, combine, reduced, full, is_sequential, rates, a_matrix*},
InitialConcentration.normalized, get_compartments / get_initial_concentration / get_k_matrix / get_a_matrix /
calculate_matrix of the decay, decay-parallel and decay-sequential megacomplexes, and the variables written by
retrieve_decay_associated_data, against lean/GlotaranModel/C04.lean.  The model computes over exact rationals
(every double is one); the eigen-decomposition is a parameter of the model: for K with a rational spectrum
(all acyclic schemes, constructed reversible ones) the driver computes and *certifies* it exactly, otherwise it
takes the implementation's (lambda, V) and the harness checks K V = V diag(lambda) numerically.  Concentrations
are printed as terms sum_l A[l,c]*exp(-rate_l*t) and evaluated with mpmath.
Oracle (independent of the model): K and j are built from the case description by the harness' own code
(_c04_gen.system_of); produced concentrations must equal expm(K t) j (scipy, confirmed with mpmath on failure),
(rates, A) must satisfy the ODE certificates sum_l A[l,.] = j and K A[l,.] = -rate_l A[l,.], the population is
conserved without loss channel, parallel/sequential megacomplexes agree with the equivalent general one, and on
Result datasets c(t) = sum_l A_l exp(-rate_l t), DAS = SAS x A^T, lifetime = 1/rate.
Extensions: (a) parallel / sequential megacomplexes with zero rates anywhere and equal rates (zero_equal_stream; the
parallel one against exp(-kt)/n for any rates, the sequential one against exp(Kt)e0 when the rates are distinct, and its
rates must come in chain order — the consistency condition between KMatrix.rates (eigenvalue order when a rate is zero)
and the closed-form A-matrix, Lean seq_rates_match_a_matrix_iff); (b) eig_order_probe replays the Lean witness
seq_megacomplex_solves_counterexample on the real code with scipy.linalg.eig wrapped to list the eigenvalues in reverse
order, and runs decay / parallel cases under the same wrapper (they must not depend on the order); (c) dataset models with
several decay megacomplexes sharing one initial-concentration item (multi_result_case): species union and order,
species_concentration per label, SAS per label, per megacomplex a_matrix / rate / lifetime / species / initial
concentration / k_matrix and DAS = SAS[:, species of the megacomplex, selected by label] x A^T against the model's
allSpecies / combinedTerm / dasSel and against the harness' own expm, ODE certificates and
fitted = sum_m sum_l DAS_m,l exp(-rate_m,l t).
"""
from __future__ import annotations

import json
import os
import warnings
from fractions import Fraction

for _v in ("OPENBLAS_NUM_THREADS", "OMP_NUM_THREADS", "MKL_NUM_THREADS"):
    os.environ.setdefault(_v, "1")                # 5x5 matrices: BLAS threads only cost (expm 30 ms -> 0.2 ms on a busy box)
os.environ.setdefault("NUMBA_NUM_THREADS", "1")   # the decay kernel is `parallel=True`; 16 threads on a busy box cost 0.2 s per call

import numpy as np

from harness import core
from harness.core import enc, lst, rat, rats, strs
from harness.props import _c04_gen as G

PROP = "C04"
REQUIRED_THEOREMS = [
    "general_solves", "a_matrix_scale_invariant", "full_is_rate_equation", "full_colsum_zero_of_no_loss",
    "population_conserved", "population_conserved_model", "parallel_solves", "sequential_recurrence",
    "sequential_initial", "sequential_eigen", "sequential_solves", "isSequential_sound", "a_matrix_solves",
    "das_reconstructs", "lifetimes_spec", "normalized_sum_one", "normalized_excluded_unchanged",
    "par_megacomplex_diag", "seq_megacomplex_is_chain", "seq_megacomplex_solves", "par_megacomplex_solves",
    "driver_general_path_sound", "combine_overrides", "combine_keys_unique",
    "compartments_follow_initial_concentration", "involved_spec", "combineAll_keys_unique",
    "decay_megacomplex_solves", "decay_megacomplex_conserves",
    "seq_megacomplex_chain_any_rates", "seq_closed_form_rates_iff", "seq_rates_chain_order",
    "seq_megacomplex_solves_partial", "seq_megacomplex_solves_counterexample", "seq_rates_match_a_matrix_iff",
    "closed_form_degenerate_iff", "allSpecies_spec", "das_multi_reconstructs", "normalized_included_entry",
]
TRUSTED = [
    "hand-written model lean/GlotaranModel/C04.lean of k_matrix.py, initial_concentration.py, the three decay "
    "megacomplexes and the no-IRF path of util.py (calculate_matrix, retrieve_decay_associated_data), tied to the code "
    "by differential execution only",
    "scipy.linalg.eig / solve are parameters of the model (Ext); their outputs are certified exactly by the driver "
    "(rational spectrum: eigenCert / solveCert, cf. driver_general_path_sound) or, for irrational spectra, taken from the "
    "implementation and observed numerically by the harness (|K V - V diag(lambda)| <= 1e-10 |K| |V| cond(V)), not proved",
    "mpmath as evaluator of exp in the model's terms; scipy.linalg.expm and mpmath.expm as the oracle's solver",
    "numba's compilation of calculate_decay_matrix_no_irf (observed through the produced matrix)",
    "LAPACK returns the eigenvalues of the triangular K of a sequential megacomplex in diagonal (chain) order: hypothesis of "
    "seq_megacomplex_solves_partial, observed on every sequential case (simple_megacomplex_oracle), not proved",
]
ASSUMPTIONS = [
    "theorems are over the reals (Matrix exponential, Real.exp); floating-point rounding, LAPACK's accuracy and "
    "nearly degenerate spectra are observed with tolerances scaled by cond(V), not proved (partial)",
    "the property's domain: real, pairwise distinct eigenvalues (generators enforce a relative gap >= 3 %), "
    "non-negative initial concentrations with positive normalisation sum, t >= 0",
    "compartment labels within one list are distinct, dictionary keys are unique (Python dict)",
    "complex spectra (eigen() takes .real) and defective matrices are outside the statement",
]
RULE = (
    "decay cases: 1..5 compartments; topologies chain (with / without final loss / back-transfer from the last "
    "compartment / extra losses), branch, dag, star, reversible, parallel, closed (no loss) variants; entries split over "
    "1..3 K-matrices with overriding duplicates, shuffled entry order, compartments declared in chain order or "
    "permuted, unused compartments, reversible pairs constructed with a rational spectrum (exact eigen path), odd labels (prefixes, blanks, non-ASCII); j in {e_first, e_second, single, all, "
    "some, (1/2,1/2), (1/4,3/4), ones} with / without exclude_from_normalize; rates dyadic (exact regime) or "
    "log-uniform over six decades; time axes with 0, unsorted, reversed, duplicate, empty.  parallel / sequential "
    "megacomplexes with 1..5 compartments.  Every K sparsity pattern for n <= 3 x 6 initial vectors (sampled in quick, "
    "exhaustive in thorough).  Permutation stream: all n! declaration orders of 2..4 compartment schemes must give the same profile per label.  Malformed stream: labels missing from the initial concentration, length mismatches, "
    "empty lists, zero normalisation sum, equal rates.  A subset goes through simulate + optimize and the result "
    "dataset is checked.  Zero / equal stream: parallel and sequential megacomplexes with 1..6 compartments whose rates contain "
    "a zero at the end / start / anywhere, two zeros, two equal rates, equal rates and a zero, all zeros (dyadic or six decades).  "
    "Time-unit stream: decay / parallel / sequential cases on measured-looking ascending time axes with 3..34 points (equidistant "
    "from 0 or from an offset, fine steps followed by coarse steps, two blocks with a gap, log-spaced, jittered, one gap, "
    "geometrically drifting step), the whole experiment written in a unit of time u in {1, 1e-3, 1e-6, 1e-9, 1e-12, 1e-15, 1e3} "
    "(powers of two 2^-50 .. 2^10 in the exact regime): times * u, every rate constant / u, so that the steps of the axis are as "
    "small as 1e-17 or as large as 1e3 while K t is unchanged; every point is judged against expm(K t) j and by the model.  "
    "Reversed-eig stream: decay / parallel cases with scipy.linalg.eig wrapped to reverse the eigenvalue order.  Multi stream: "
    "2..5 compartments with non-lexicographic labels in one initial-concentration item (zeros allowed, any subset in "
    "exclude_from_normalize), split over 1..3 decay megacomplexes (chain, parallel, branch, star, with / without loss; sometimes "
    "sharing a compartment), optionally a parallel / sequential megacomplex with own or shared labels, megacomplex order shuffled; "
    "plus the enumerated configurations of G.multi_config_specs (6 declaration orders x 4 exclusion sets x 4 splits x megacomplex "
    "orders = 168; sampled in quick, exhaustive in thorough).  non-trivial = at least two compartments with a transfer or several "
    "populated compartments; distinct = distinct case description"
)

_MODEL_CLS = None


def model_cls():
    global _MODEL_CLS
    if _MODEL_CLS is None:
        from glotaran.builtin.megacomplexes.decay import DecayMegacomplex, DecayParallelMegacomplex, DecaySequentialMegacomplex
        from glotaran.model import Model
        _MODEL_CLS = Model.create_class_from_megacomplexes([DecayMegacomplex, DecayParallelMegacomplex, DecaySequentialMegacomplex])
        try:
            import numba
            numba.set_num_threads(1)
        except Exception:
            pass
    return _MODEL_CLS


# ------------------------------------------------------------------------------------------
# the real code
# ------------------------------------------------------------------------------------------
def model_dict(spec, pv):
    def P(v):
        pv.append(float(v))
        return str(len(pv))

    if spec["kind"] == "decay":
        km = {}
        for lab, d in zip(spec["km_labels"], spec["kms"]):
            km[lab] = {"matrix": {(to, fr): P(v) for to, fr, v in d}}
        ic = {"compartments": list(spec["ic_comps"]), "parameters": [P(v) for v in spec["ic_params"]],
              "exclude_from_normalize": list(spec.get("excl", []))}
        return {"initial_concentration": {"j": ic}, "k_matrix": km,
                "megacomplex": {"mc": {"type": "decay", "k_matrix": list(spec["km_labels"])}},
                "dataset": {"d": {"initial_concentration": "j", "megacomplex": ["mc"]}}}
    typ = "decay-parallel" if spec["kind"] == "par" else "decay-sequential"
    return {"megacomplex": {"mc": {"type": typ, "compartments": list(spec["comps"]), "rates": [P(v) for v in spec["rates"]]}},
            "dataset": {"d": {"megacomplex": ["mc"]}}}


def build_real(spec):
    from glotaran.model.item import fill_item
    from glotaran.parameter import Parameters
    pv = []
    model = model_cls()(**model_dict(spec, pv))
    params = Parameters.from_list([[v, {"non-negative": False, "vary": False}] for v in pv])
    dm = fill_item(model.dataset["d"], model, params)
    return model, params, dm, dm.megacomplex[0]


def _err(e):
    return type(e).__name__


def observe(spec):
    """everything the check looks at, from the real code"""
    obs = {"error": None}
    try:
        _, _, dm, mc = build_real(spec)
    except Exception as e:
        obs["error"] = "build:" + _err(e)
        return obs
    obs["dm"], obs["mc"] = dm, mc
    try:
        km = mc.get_k_matrix()
        if km is None:
            obs["parts_error"] = "noKMatrix"
        else:
            obs["dict"] = [[k[0], k[1], float(v)] for k, v in km.matrix.items()]
            obs["label"] = km.label
            obs["involved"] = list(km.involved_compartments())
            comps = list(mc.get_compartments(dm))
            obs["comps"] = comps
            obs["j"] = np.asarray(mc.get_initial_concentration(dm), dtype=float)
            obs["jraw"] = np.asarray(mc.get_initial_concentration(dm, normalized=False), dtype=float)
            obs["full"] = np.asarray(km.full(comps), dtype=float)
            obs["reduced"] = np.asarray(km.reduced(comps), dtype=float)
            obs["isseq"] = bool(km.is_sequential(comps, obs["j"]))
    except Exception as e:
        obs["parts_error"] = _err(e)
    times = np.asarray(spec["times"], dtype=float)
    try:
        with np.errstate(all="ignore"):
            labels, mat = mc.calculate_matrix(dm, np.array([0.0]), times)
            obs["labels"] = list(labels)
            obs["matrix"] = np.asarray(mat, dtype=float)
            km = mc.get_k_matrix()
            obs["rates"] = np.asarray(km.rates(obs["comps"], obs["j"]), dtype=float)
            obs["A"] = np.asarray(mc.get_a_matrix(dm), dtype=float)
            need_general = spec["kind"] == "par" or not obs["isseq"]
            if need_general:
                lam, V = km.eigen(obs["comps"])
                obs["lam"], obs["V"] = np.asarray(lam, dtype=float), np.asarray(V, dtype=float)
    except Exception as e:
        obs["calc_error"] = _err(e) + ("" if not isinstance(e, ValueError) or "Non-finite" not in str(e) else ":nonfinite")
    return obs


# ------------------------------------------------------------------------------------------
# protocol
# ------------------------------------------------------------------------------------------
def p_dict(d):
    return lst(lst([enc(to), enc(fr), rat(v)]) for to, fr, v in d)


def p_args(spec):
    if spec["kind"] == "decay":
        return " ".join([strs(spec["ic_comps"]), rats(spec["ic_params"]), strs(spec.get("excl", [])),
                         lst(p_dict(d) for d in spec["kms"])])
    return " ".join([strs(spec["comps"]), rats(spec["rates"])])


def p_rows(m):
    return lst(rats(r) for r in m)


def eig_param(spec, obs):
    """how the eigen-decomposition reaches the model: exact rational spectrum (certified by the driver) if there is
    one, else the implementation's doubles"""
    if "lam" not in obs:
        return "unused", "unused"
    if not (np.all(np.isfinite(obs["lam"])) and np.all(np.isfinite(obs["V"]))):
        return None, "nonfinite"
    try:
        _, Kf, _, _ = G.system_of(spec, exact=True)
        ex = G.exact_spectrum(Kf, [float(x) for x in obs["lam"]]) if len(Kf) == len(obs["lam"]) else None
    except Exception:
        ex = None
    if ex is not None:
        return lst(["exact", rats(ex)]), "exact"
    return lst(["given", rats(obs["lam"]), p_rows(obs["V"])]), "given"


def model_lines(spec, obs):
    k = spec["kind"]
    lines = [f"parts {k} {p_args(spec)}"]
    e, mode = eig_param(spec, obs)
    obs["eig_mode"] = mode
    if e is not None and "calc_error" not in obs and "parts_error" not in obs and obs["error"] is None:
        lines.append(f"calc {k} {e} {rats(spec['times'])} {p_args(spec)}")
    return lines


def F(x):
    return Fraction(x)


def fr_rows(t):
    return [[Fraction(v) for v in row] for row in t]


# ------------------------------------------------------------------------------------------
# comparison helpers
# ------------------------------------------------------------------------------------------
def close(a, b, rtol, scale=None):
    """|a - b| <= rtol * scale (a: doubles, b: Fractions / doubles); shapes must agree"""
    a = np.asarray(a, dtype=float)
    b = np.array([[float(v) for v in row] for row in b], dtype=float) if (len(b) and isinstance(b[0], (list, tuple))) \
        else np.array([float(v) for v in b], dtype=float)
    if a.shape != b.shape:
        if a.size == 0 and b.size == 0:
            return True, 0.0
        return False, float("inf")
    if a.size == 0:
        return True, 0.0
    if not np.all(np.isfinite(a)):
        return False, float("inf")
    s = scale if scale is not None else max(1e-300, float(np.max(np.abs(b))))
    err = float(np.max(np.abs(a - b))) / s if s > 0 else float(np.max(np.abs(a - b)))
    return err <= rtol, err


def equal_exact(a, b):
    a = np.asarray(a, dtype=float)
    fl = a.ravel().tolist()
    bb = [v for row in b for v in row] if (len(b) and isinstance(b[0], (list, tuple))) else list(b)
    return len(fl) == len(bb) and all(np.isfinite(x) and Fraction(x) == y for x, y in zip(fl, bb))


_MP = None


def mp():
    global _MP
    if _MP is None:
        import mpmath
        mpmath.mp.dps = 40
        _MP = mpmath
    return _MP


def eval_term(pairs):
    m = mp()
    s = m.mpf(0)
    a = m.mpf(0)
    for c, e in pairs:
        cf, ef = Fraction(c), Fraction(e)
        v = (m.mpf(cf.numerator) / cf.denominator) * m.exp(m.mpf(ef.numerator) / ef.denominator)
        s += v
        a += abs(v)
    return float(s), float(a)


# ------------------------------------------------------------------------------------------
# judge: model vs implementation
# ------------------------------------------------------------------------------------------
def light(spec):
    return {"spec": spec}


def judge(ck, spec, obs, ans):
    case = light(spec)
    explained = bool(obs.get("oracle_failed"))

    def dis(key, what):
        d = {"key": key, "what": what, "case": case}
        if explained:
            d["explained"] = True
        ck.disagreements.append(d)

    if obs["error"]:
        ck.count("real:build-error:" + obs["error"])
        return
    a0 = ans[0]
    if a0 == "bad-op" or a0 == "bad-line":
        raise core.HarnessError(f"model rejected the protocol line for {spec}")
    # ---- parts
    if "parts_error" in obs:
        ck.count("real:parts-error:" + obs["parts_error"])
        want = {"ValueError": "err ValueError", "IndexError": "err IndexError", "noKMatrix": "err noKMatrix"}.get(obs["parts_error"])
        if a0.startswith("err nonfinite"):
            ck.count("model:nonfinite-domain")
            return
        if want is None or a0 != want:
            dis("error-kind", f"real code raised {obs['parts_error']}, model answered {a0[:60]!r}")
        return
    if a0.startswith("err"):
        if a0 == "err nonfinite":
            ck.count("model:nonfinite-domain")
            if np.all(np.isfinite(obs["j"])):
                dis("nonfinite", "model: normalisation divides by zero, real code returned finite initial concentrations")
            return
        dis("error-kind", f"model answered {a0!r}, real code raised nothing")
        return
    t = core.parse_tree(a0[3:])
    comps = [core.dec(x) for x in t[0]]
    mj, mjraw = [F(x) for x in t[1]], [F(x) for x in t[2]]
    mdict = [[core.dec(e[0]), core.dec(e[1]), F(e[2])] for e in t[3]]
    mfull, mred = fr_rows(t[4]), fr_rows(t[5])
    misseq = t[6] == "T"
    exact = bool(spec.get("exact"))
    if comps != obs["comps"]:
        return dis("compartments", f"compartments {obs['comps']} vs model {comps}")
    if [[a, b, F(v)] for a, b, v in obs["dict"]] != mdict:
        return dis("combined-dict", "combined K-matrix dictionary differs (keys, order or values)")
    if spec["kind"] == "decay" and obs["label"] != "+".join(spec["km_labels"]):
        dis("combined-label", f"label {obs['label']!r}")
    for name, got, want in (("j", obs["j"], mj), ("j-raw", obs["jraw"], mjraw)):
        ok, err = close(got, want, 1e-14, scale=max(1e-300, max([abs(float(v)) for v in want], default=1.0)))
        if ok and len(want) and all(Fraction(float(v)) == v for v in want) and not equal_exact(got, want):
            ok = False     # an exactly representable quotient must be produced exactly
        if not ok:
            return dis("initial-concentration", f"{name} {np.asarray(got).tolist()} vs model {[float(v) for v in want]}")
    for name, got, want in (("full", obs["full"], mfull), ("reduced", obs["reduced"], mred)):
        sc = max([abs(float(v)) for row in want for v in row], default=1.0) or 1.0
        ok, err = close(got, want, 1e-13, scale=sc) if len(want) else (np.asarray(got).size == 0, 0)
        if exact and len(want) and not equal_exact(got, want):
            ok = False
        if not ok:
            return dis("k-" + name, f"{name} K differs from the model (err {err:.2e})")
    if misseq != obs["isseq"]:
        return dis("is-sequential", f"is_sequential {obs['isseq']} vs model {misseq}")
    ck.count("branch:sequential-path" if misseq else "branch:general-path")
    # ---- calc
    if "calc_error" in obs:
        ck.count("real:calc-error:" + obs["calc_error"])
        if len(ans) > 1:
            dis("calc-error", f"real calculate_matrix raised {obs['calc_error']}")
        return
    if len(ans) < 2:
        ck.count("model:calc-skipped:" + str(obs.get("eig_mode")))
        return
    a1 = ans[1]
    if a1 == "bad-op":
        raise core.HarnessError(f"model rejected the calc line for {spec}")
    if a1 == "degenerate":
        ck.count("model:degenerate-rates")
        if np.all(np.isfinite(obs["A"])):
            dis("degenerate", "model: equal rates in the sequential formula, real A-matrix is finite")
        return
    if a1 == "nocert":
        ck.count("model:nocert:" + obs["eig_mode"])
        if obs["eig_mode"] == "exact":
            dis("nocert", "the driver could not certify the exact eigen-decomposition of its own K")
        return
    if a1.startswith("err"):
        return dis("calc-error-kind", f"model {a1!r}")
    t = core.parse_tree(a1[3:])
    mcomps = [core.dec(x) for x in t[0]]
    mrates = [F(x) for x in t[1]]
    mA = fr_rows(t[2])
    mlife = [None if x == "none" else F(x) for x in t[3]]
    terms = t[4]
    n = len(mcomps)
    ck.count("eig:" + obs["eig_mode"])
    if str(spec.get("tag", "")).startswith("rational-reversible"):
        ck.count("eig-on-rational-reversible:" + obs["eig_mode"])
    if obs["labels"] != mcomps:
        return dis("matrix-labels", f"clp labels {obs['labels']} vs model {mcomps}")
    kappa = 1.0
    if "V" in obs and obs["V"].size:
        with np.errstate(all="ignore"):
            kappa = float(np.linalg.cond(obs["V"]))
        if not np.isfinite(kappa) or kappa > 1e9:
            ck.count("skipped:ill-conditioned")
            return
    seq_path = obs["eig_mode"] == "unused"
    if obs["eig_mode"] == "given" and obs["V"].size and obs["full"].size:
        # the eigen-decomposition is taken from LAPACK here: observe its certificate numerically (regime R)
        Kd, Vd, ld = obs["full"], obs["V"], obs["lam"]
        res = float(np.max(np.abs(Kd @ Vd - Vd * ld[None, :]))) if Vd.size else 0.0
        bound = 1e-10 * max(1e-300, float(np.max(np.abs(Kd)))) * max(1e-300, float(np.max(np.abs(Vd)))) * max(1.0, kappa)
        ck.extra["max_eig_residual_over_bound"] = max(ck.extra.get("max_eig_residual_over_bound", 0.0), res / bound)
        if res > bound:
            ck.count("eig:given-residual-large")
            ck.diagnostic("LAPACK eigen certificate K V = V diag(lambda) is loose", {"spec": spec, "residual": res, "bound": bound})
        else:
            ck.count("eig:given-residual-ok")
    rs = max([abs(float(v)) for v in mrates], default=1.0) or 1.0
    if obs["eig_mode"] == "given":
        if not equal_exact(obs["rates"], mrates):
            return dis("rates", "rates differ from -eigenvalues")
    else:
        ok, err = close(obs["rates"], mrates, (1e-13 if seq_path else 1e-12 * max(1.0, kappa)), scale=rs)
        ck.extra["max_rate_err"] = max(ck.extra.get("max_rate_err", 0.0), err if np.isfinite(err) else 0.0)
        if not ok:
            return dis("rates", f"rates {obs['rates'].tolist()} vs model {[float(v) for v in mrates]} (err {err:.2e})")
    As = max([abs(float(v)) for row in mA for v in row], default=1.0)
    As = max(As, 1.0)
    tolA = 1e-11 if seq_path else 1e-12 * max(1.0, kappa)
    okA, errA = close(obs["A"], mA, tolA, scale=As)
    ck.extra["max_A_err_over_tol"] = max(ck.extra.get("max_A_err_over_tol", 0.0), (errA / tolA) if np.isfinite(errA) else 0.0)
    if not okA:
        return dis("a-matrix", f"A-matrix differs from the model (err {errA:.2e}, tol {tolA:.1e}, path {'seq' if seq_path else obs['eig_mode']})")
    # lifetimes are checked on result datasets; here only the model's definition 1/rate
    for r, l in zip(mrates, mlife):
        if (r == 0) != (l is None) or (l is not None and l * r != 1):
            raise core.HarnessError("model lifetimes inconsistent")
    # concentrations: mpmath value of the model's terms vs the produced matrix
    M = obs["matrix"]
    if M.shape != (len(spec["times"]), n):
        return dis("matrix-shape", f"matrix shape {M.shape}")
    worst = 0.0
    for ti, row in enumerate(terms):
        for c, pairs in enumerate(row):
            val, mag = eval_term(pairs)
            tol = n * tolA * As * 10 + 1e-11 * max(mag, 1e-300) + 1e-300
            err = abs(M[ti, c] - val)
            worst = max(worst, err / tol)
            if not (err <= tol):
                return dis("concentration", f"matrix[{ti},{mcomps[c]}] = {float(M[ti, c])!r}, model term = {val!r} (tol {tol:.1e})")
    ck.extra["max_conc_err_over_tol"] = max(ck.extra.get("max_conc_err_over_tol", 0.0), worst)


# ------------------------------------------------------------------------------------------
# oracle: the statement on the real code, independent of the model
# ------------------------------------------------------------------------------------------
OTOL = 1e-8


def expm_conc(K, j, times, precise=False):
    if precise:
        m = mp()
        Km = m.matrix(K.tolist())
        jm = m.matrix([[float(x)] for x in j])
        out = []
        for t in times:
            E = m.expm(Km * float(t))
            out.append([float(v) for v in (E * jm)])
        return np.array(out, dtype=float).reshape(len(times), len(j))
    from scipy.linalg import expm
    return np.array([expm(K * float(t)) @ j for t in times], dtype=float).reshape(len(times), len(j))


def j_class(j):
    j = np.asarray(j, dtype=float)
    if j.size and j[0] == 1 and not np.any(j[1:] != 0):
        return "j=e0"
    return "j-not-e0"


def is_proper_chain(K):
    """K is lower bidiagonal with K[i+1,i] = -K[i,i] != 0 and K[n-1,n-1] != 0 (harness' own test)"""
    n = K.shape[0]
    for r in range(n):
        for c in range(n):
            if r == c:
                if K[r, c] == 0:
                    return False
            elif r == c + 1:
                if K[r, c] == 0 or K[r, c] != -K[c, c]:
                    return False
            elif K[r, c] != 0:
                return False
    return True


def oracle(ck, spec, obs):
    """returns True if the case was in the property's domain"""
    case = light(spec)
    if obs["error"] or "parts_error" in obs or "calc_error" in obs:
        return False
    if spec["kind"] != "decay" and (len(spec["rates"]) != len(spec["comps"]) or len(set(spec["comps"])) != len(spec["comps"])):
        return False       # more / fewer rates than compartments, repeated labels: not a scheme the statement talks about
    try:
        comps, K, j, jraw = G.system_of(spec)
    except Exception:
        return False
    if len(comps) == 0 or not np.all(np.isfinite(j)) or np.any(j < 0):
        return False
    ok, ev = G.spectrum_ok(K)
    if not ok:
        ck.count("oracle:out-of-domain-spectrum")
        return False
    times = np.asarray(spec["times"], dtype=float)
    if np.any(times < 0):
        return False
    ck.oracle_evals += 1
    path = "seq-formula" if ((spec["kind"] == "decay" and obs["isseq"]) or spec["kind"] == "seq") else "general"
    why = j_class(j) + ("" if path == "general" else (",chain" if is_proper_chain(K) else ",not-a-chain"))
    key_tail = f"{spec['kind']}:{path}:{why}"
    labels = obs["labels"]
    if sorted(labels) != sorted(comps) or len(set(labels)) != len(labels):
        ck.violation("compartment-set:" + spec["kind"], f"calculate_matrix labels {labels}, compartments of the scheme {comps}", case)
        return True
    M = obs["matrix"]
    scale = max(1.0, float(np.max(np.abs(j))))
    if not np.all(np.isfinite(M)):
        ck.violation("non-finite-concentration:" + key_tail, "calculate_matrix returned non-finite numbers", case)
        return True
    cols = [labels.index(c) for c in comps]
    if len(times):
        want = expm_conc(K, j, times)
        got = M[:, cols]
        err = float(np.max(np.abs(got - want))) / scale
        if err > OTOL:
            want = expm_conc(K, j, times, precise=True)
            err = float(np.max(np.abs(got - want))) / scale
        ck.extra["oracle_max_err"] = max(ck.extra.get("oracle_max_err", 0.0), err)
        if err > OTOL:
            ti, ci = np.unravel_index(int(np.argmax(np.abs(got - want))), got.shape)
            ck.violation("conc-ne-expm:" + key_tail,
                         f"concentration of {comps[ci]!r} at t={float(times[ti])!r} is {float(got[ti, ci])!r}, exp(Kt)j gives {float(want[ti, ci])!r} "
                         f"(max error {err:.3g}; is_sequential={obs.get('isseq')})", case)
            return True
        if not G.has_loss(spec):
            tot = float(np.sum(j))
            dev = float(np.max(np.abs(got.sum(axis=1) - tot))) / max(1.0, tot)
            if dev > 1e-8:
                ck.violation("population-not-conserved:" + key_tail, f"no loss channel, total population deviates by {dev:.3g}", case)
                return True
            ck.count("oracle:conservation-checked")
    # ODE certificates on the reported (rates, A):  c(0) = j  and  K a_l = -rate_l a_l
    A, r = obs["A"], obs["rates"]
    if A.shape == (len(comps), len(comps)) and r.shape == (len(comps),) and np.all(np.isfinite(A)):
        Aj = A[:, cols]
        if float(np.max(np.abs(Aj.sum(axis=0) - j))) / scale > OTOL:
            ck.violation("a-matrix-colsum-ne-j:" + key_tail, f"sum_l A[l,c] = {Aj.sum(axis=0).tolist()} but j = {j.tolist()}", case)
            return True
        kn = max(1e-300, float(np.max(np.abs(K))))
        an = max(1e-300, float(np.max(np.abs(Aj))))
        for l in range(len(r)):
            res = K @ Aj[l] + r[l] * Aj[l]
            if float(np.max(np.abs(res))) > 1e-6 * kn * an:
                ck.violation("a-matrix-row-not-eigenvector:" + key_tail,
                             f"K a_l != -rate_l a_l for component {l} (rate {float(r[l])!r}); residual {float(np.max(np.abs(res))):.3g}", case)
                return True
        # the matrix really is exp(-rate t) @ A
        if len(times):
            with np.errstate(all="ignore"):
                recon = np.exp(-np.outer(times, r)) @ A
            if float(np.max(np.abs(recon - M))) > 1e-9 * max(1.0, an) * len(r):
                ck.violation("matrix-ne-exp-times-a:" + key_tail, "calculate_matrix output != exp(-rates*t) @ a_matrix", case)
                return True
    else:
        ck.violation("a-matrix-shape:" + key_tail, f"A shape {A.shape}, rates shape {r.shape}, finite={bool(np.all(np.isfinite(A)))}", case)
        return True
    return True


def simple_megacomplex_oracle(ck, spec, obs):
    """parallel / sequential megacomplexes for ANY rates (zero and equal ones included; independent of the model):
    parallel: compartment c follows exp(-rate_c t)/n exactly as written in the megacomplex;
    sequential: the rates handed to the decay kernel / written as rate_<mc> are the chain's rates in chain order — the
    consistency condition between KMatrix.rates (eigenvalue order when a rate is zero) and the closed-form A-matrix
    (Lean: seq_rates_match_a_matrix_iff / seq_megacomplex_solves_partial)."""
    if spec["kind"] == "decay" or obs["error"] or "calc_error" in obs or "parts_error" in obs:
        return
    comps, rates = spec["comps"], spec["rates"]
    if len(rates) != len(comps) or len(set(comps)) != len(comps) or not comps:
        return
    case = light(spec)
    r = np.asarray(rates, dtype=float)
    times = np.asarray(spec["times"], dtype=float)
    ck.oracle_evals += 1
    if spec["kind"] == "par":
        ck.count("oracle:parallel-analytic" + (":equal-rates" if len(set(rates)) < len(rates) else "") + (":zero-rate" if 0.0 in rates else ""))
        if obs["labels"] != list(comps):
            ck.violation("parallel:labels", f"labels {obs['labels']} vs compartments {comps}", case)
            return
        if len(times) and np.all(times >= 0):
            with np.errstate(all="ignore"):
                want = np.exp(-np.outer(times, r)) / len(comps)
            if obs["matrix"].shape != want.shape or not np.all(np.isfinite(obs["matrix"])) \
                    or float(np.max(np.abs(obs["matrix"] - want))) > 1e-9:
                ck.violation("parallel-ne-exp-over-n" + (":equal-rates" if len(set(rates)) < len(rates) else "") + (":zero-rate" if 0.0 in rates else ""),
                             "parallel megacomplex: concentration differs from exp(-rate_c t)/n", case)
        return
    got = np.asarray(obs["rates"], dtype=float)
    ck.count("oracle:seq-rate-order" + (":zero-rate" if 0.0 in rates else "") + ("" if obs.get("isseq") else ":eig-path"))
    sc = max(1e-300, float(np.max(np.abs(r))))
    if got.shape != r.shape or float(np.max(np.abs(got - r))) > 1e-12 * sc:
        ck.violation("seq-rates-not-in-chain-order" + (":zero-rate" if 0.0 in rates else ""),
                     f"sequential megacomplex: KMatrix.rates gives {got.tolist()} but the closed-form A-matrix is ordered along the chain "
                     f"with rates {r.tolist()} (is_sequential={obs.get('isseq')})", case)


def equivalence_oracle(ck, spec, obs):
    """parallel / sequential megacomplex == decay megacomplex with the equivalent K-matrix and initial vector"""
    if spec["kind"] == "decay" or obs["error"] or "calc_error" in obs or "parts_error" in obs:
        return
    if len(spec["rates"]) != len(spec["comps"]) or len(set(spec["comps"])) != len(spec["comps"]) or not spec["comps"]:
        return
    eq = G.equivalent_decay_spec(spec)
    o2 = observe(eq)
    case = {"spec": spec, "equivalent": eq}
    if o2["error"] or "calc_error" in o2 or "parts_error" in o2:
        ck.violation("equivalent-general-raises:" + spec["kind"], f"equivalent decay megacomplex fails: {o2.get('error') or o2.get('calc_error') or o2.get('parts_error')}", case)
        return
    ck.oracle_evals += 1
    ck.count("oracle:equivalence-" + spec["kind"])
    if o2["labels"] != obs["labels"]:
        ck.violation("equivalent-general-labels:" + spec["kind"], f"{obs['labels']} vs {o2['labels']}", case)
        return
    sc = max(1.0, float(np.max(np.abs(obs["matrix"]))) if obs["matrix"].size else 1.0)
    if obs["matrix"].size and float(np.max(np.abs(obs["matrix"] - o2["matrix"]))) > 1e-8 * sc:
        ck.violation("ne-equivalent-general:" + spec["kind"], "matrix differs from the decay megacomplex with the equivalent K-matrix", case)
        return
    # and with the eigen-decomposition path forced
    km = o2["mc"].get_k_matrix()
    comps = o2["comps"]
    with np.errstate(all="ignore"):
        lam, _ = km.eigen(comps)
        Ag = np.asarray(km.a_matrix_general(comps, o2["j"]), dtype=float)
        times = np.asarray(spec["times"], dtype=float)
        gen = np.exp(np.outer(times, lam)) @ Ag if len(times) else np.zeros((0, len(comps)))
    if obs["matrix"].size and np.all(np.isfinite(gen)) and float(np.max(np.abs(obs["matrix"] - gen))) > 1e-7 * sc:
        ck.violation("ne-eigen-path:" + spec["kind"], "matrix differs from the eigen-decomposition path of the equivalent K-matrix", case)


def nontrivial(spec):
    if spec["kind"] == "decay":
        return len(spec["ic_comps"]) >= 2
    return len(spec["comps"]) >= 2


# ------------------------------------------------------------------------------------------
# one case / batches
# ------------------------------------------------------------------------------------------
def check_case(ck, spec, batch, with_equivalence=True):
    obs = observe(spec)
    before = len(ck.violations) + len(ck.known_hits)
    in_domain = oracle(ck, spec, obs)
    simple_megacomplex_oracle(ck, spec, obs)
    if with_equivalence:
        equivalence_oracle(ck, spec, obs)
    obs["oracle_failed"] = (len(ck.violations) + len(ck.known_hits)) > before
    ck.case(("case", json.dumps(spec, sort_keys=True)), nontrivial(spec) and in_domain)
    ck.count("kind:" + spec["kind"])
    if spec.get("tag"):
        ck.count("tag:" + spec["tag"].split("/")[0])
    ncomp = len(spec["ic_comps"] if spec["kind"] == "decay" else spec["comps"])
    ck.count(f"n:{ncomp}")
    batch.append((spec, obs, model_lines(spec, obs)))
    return obs


def flush(ck, batch):
    if not batch:
        return
    lines = [l for _, _, ls in batch for l in ls]
    answers = core.lean_driver(PROP, lines)
    pos = 0
    for spec, obs, ls in batch:
        judge(ck, spec, obs, answers[pos:pos + len(ls)])
        pos += len(ls)
    batch.clear()


# ------------------------------------------------------------------------------------------
# unit-level streams (single functions, malformed inputs)
# ------------------------------------------------------------------------------------------
def unit_stream(ck, count):
    from glotaran.builtin.megacomplexes.decay.initial_concentration import InitialConcentration
    from glotaran.builtin.megacomplexes.decay.k_matrix import KMatrix
    rng = ck.rng
    lines, expect = [], []
    names = ["a", "b", "ab", "c", "s1", "s2"]
    for i in range(count):
        which = rng.choice(["combine", "matrices", "normalized", "aseq", "isseq"])
        ck.count("unit:" + which)
        if which == "combine":
            ds = []
            for _ in range(rng.randint(1, 3)):
                d = {}
                for _ in range(rng.randint(0, 4)):
                    d[(rng.choice(names), rng.choice(names))] = float(rng.randint(1, 9))
                ds.append(d)
            labels = [rng.choice(["k", "k1", "a+b", ""]) + str(q) for q in range(len(ds))]
            kms = [KMatrix(label=l, matrix=dict(d)) for l, d in zip(labels, ds)]
            full = kms[0]
            for k in kms[1:]:
                full = full.combine(k)
            got = "ok " + p_dict([[a, b, v] for (a, b), v in full.matrix.items()]) + " " + enc(full.label)
            lines.append("combine " + lst(p_dict([[a, b, v] for (a, b), v in d.items()]) for d in ds) + " " + strs(labels))
            expect.append((which, got, {"dicts": [[[a, b, v] for (a, b), v in d.items()] for d in ds], "labels": labels}))
            inv = "ok " + strs(full.involved_compartments())
            lines.append("involved " + p_dict([[a, b, v] for (a, b), v in full.matrix.items()]))
            expect.append(("involved", inv, {"dict": [[a, b, v] for (a, b), v in full.matrix.items()]}))
        elif which == "matrices":
            comps = rng.sample(names, rng.randint(1, 4))
            pool = comps + ([rng.choice(names)] if rng.random() < 0.2 else [])
            d = {}
            for _ in range(rng.randint(0, 6)):
                d[(rng.choice(pool), rng.choice(pool))] = float(rng.choice([0.0, 0.5, 1, 2, 3, 4]))
            km = KMatrix(label="k", matrix=d)
            try:
                got = "ok " + p_rows(km.full(comps)) + " " + p_rows(km.reduced(comps))
            except ValueError:
                got = "err ValueError"
            lines.append("matrices " + strs(comps) + " " + p_dict([[a, b, v] for (a, b), v in d.items()]))
            expect.append((which, got, {"comps": comps, "dict": [[a, b, v] for (a, b), v in d.items()]}))
        elif which == "normalized":
            comps = rng.sample(names, rng.randint(0, 4))
            params = [float(rng.choice([0, 1, 1, 2, 3, 4, 0.5])) for _ in comps]
            if rng.random() < 0.1 and params:
                params = params[:-1] if rng.random() < 0.5 else params + [1.0]
            excl = [c for c in comps if rng.random() < 0.3] + (["zz"] if rng.random() < 0.1 else [])
            ic = InitialConcentration(label="j", compartments=list(comps), parameters=list(params), exclude_from_normalize=list(excl))
            try:
                with np.errstate(all="ignore"):
                    v = ic.normalized()
                got = "ok " + rats(v) if np.all(np.isfinite(v)) else "err nonfinite"
                # the comparison below is exact only if the doubles are: compare as Fractions with tolerance instead
                gotv = v
            except IndexError:
                got, gotv = "err IndexError", None
            except Exception as e:     # np.array([]) dtype corner etc.
                got, gotv = "err " + type(e).__name__, None
            lines.append("normalized " + strs(comps) + " " + rats(params) + " " + strs(excl))
            expect.append((which, (got, gotv), {"comps": comps, "params": params, "excl": excl}))
        elif which == "aseq":
            n = rng.randint(1, 6)
            ks = [G.dyadic_rate(rng) for _ in range(n)]
            if rng.random() < 0.7:
                ks = list(dict.fromkeys(ks))
                n = len(ks)
            comps = [f"s{q}" for q in range(n)]
            d = {(comps[q + 1], comps[q]): ks[q] for q in range(n - 1)}
            d[(comps[-1], comps[-1])] = ks[-1]
            km = KMatrix(label="k", matrix=d)
            with np.errstate(all="ignore"):
                a = np.asarray(km.a_matrix_sequential(comps), dtype=float)
            lines.append("aseq " + rats([-k for k in ks]))
            expect.append((which, a, {"rates": ks}))
        else:
            n = rng.randint(1, 4)
            comps = [f"s{q}" for q in range(n)]
            d = {}
            base_chain = rng.random() < 0.6
            if base_chain:
                for q in range(n - 1):
                    d[(comps[q + 1], comps[q])] = float(rng.choice([1, 2, 0.5]))
                d[(comps[-1], comps[-1])] = 1.0
                r = rng.random()
                if r < 0.25 and d:
                    del d[rng.choice(list(d))]
                elif r < 0.5:
                    d[(rng.choice(comps), rng.choice(comps))] = float(rng.choice([0.0, 1.0, 3.0]))
                elif r < 0.6:
                    k0 = rng.choice(list(d))
                    d[k0] = 0.0
            else:
                for _ in range(rng.randint(0, n * n)):
                    d[(rng.choice(comps), rng.choice(comps))] = float(rng.choice([0.0, 1.0, 2.0]))
            jv = rng.choice([[1.0] + [0.0] * (n - 1), [0.0] * (n - 1) + [1.0], [1.0 / n] * n, [0.5, 0.5] + [0.0] * (n - 2),
                             [2.0] + [0.0] * (n - 1), [1.0] + [0.0] * (n - 2) + [1e-300], [1.0] * n])[:n]
            km = KMatrix(label="k", matrix=d)
            try:
                got = "ok " + ("T" if km.is_sequential(comps, np.array(jv)) else "F")
            except Exception as e:
                got = "err " + type(e).__name__
            lines.append("issequential " + strs(comps) + " " + p_dict([[a, b, v] for (a, b), v in d.items()]) + " " + rats(jv))
            expect.append(("isseq", got, {"comps": comps, "dict": [[a, b, v] for (a, b), v in d.items()], "j": jv}))
    answers = core.lean_driver(PROP, lines)
    for line, (which, got, payload), ans in zip(lines, expect, answers):
        ck.case(("unit", line), False)
        if ans in ("bad-op", "bad-line"):
            raise core.HarnessError(f"model rejected unit line {line[:120]}")
        if which == "normalized":
            text, v = got
            if v is None or text == "err nonfinite":
                if ans != text:
                    ck.disagree("unit:normalized", f"real {text!r} vs model {ans!r}", payload)
                continue
            if not ans.startswith("ok "):
                ck.disagree("unit:normalized", f"real ok vs model {ans!r}", payload)
                continue
            mv = [Fraction(x) for x in core.parse_tree(ans[3:])[0]]
            ok, err = close(v, mv, 1e-15, scale=max([abs(float(x)) for x in mv] + [1.0]))
            if not ok:
                ck.disagree("unit:normalized", f"real {np.asarray(v).tolist()} vs model {[float(x) for x in mv]}", payload)
        elif which == "aseq":
            a = got
            if ans == "degenerate":
                if np.all(np.isfinite(a)):
                    ck.disagree("unit:aseq", "model: degenerate, real finite", payload)
                continue
            m = fr_rows(core.parse_tree(ans[3:])[0])
            ok, err = close(a, m, 1e-10, scale=max([abs(float(x)) for r in m for x in r] + [1.0]))
            if not ok:
                ck.disagree("unit:aseq", f"a_matrix_sequential differs (err {err:.2e})", payload)
        else:
            if ans != got:
                ck.disagree("unit:" + which, f"real {got[:200]!r} vs model {ans[:200]!r}", payload)


# ------------------------------------------------------------------------------------------
# result datasets (simulate + optimize with one evaluation)
# ------------------------------------------------------------------------------------------
def result_case(ck, spec, pending):
    """run the scheme through optimize() and check the written variables against the statement"""
    import xarray as xr
    from glotaran.optimization.optimize import optimize
    from glotaran.project import Scheme
    from glotaran.simulation import simulate
    case = light(spec)
    rng = ck.rng
    model, params, dm, mc = build_real(spec)
    comps = list(mc.get_compartments(dm))
    n = len(comps)
    times = np.array(sorted(set([0.0] + [float(t) for t in spec["times"]] + [0.3, 0.9, 1.7, 2.9, 4.1, 6.5, 9.0])), dtype=float)
    gdim = spec.get("global_dimension", "spectral")
    gaxis = np.arange(1, n + 3, dtype=float)
    sas = np.array([[float(rng.randint(1, 9)) for _ in comps] for _ in gaxis])
    clp = xr.DataArray(sas, coords=[(gdim, gaxis), ("clp_label", comps)])
    for p in params.all():
        p.vary = False
    # one free parameter so that least_squares has something to do: a copy of the first rate is not possible
    # without changing the scheme, so free the first parameter and stop after one evaluation
    first = next(iter(params.all()))
    first.vary = True
    data = simulate(model, "d", params, {"time": times, gdim: gaxis}, clp)
    scheme = Scheme(model=model, parameters=params, data={"d": data}, maximum_number_function_evaluations=1)
    res = optimize(scheme, verbose=False, raise_exception=True)
    ds = res.data["d"]
    ck.oracle_evals += 1
    ck.count("result:" + spec["kind"])
    name = "images" if gdim == "pixel" else "spectra"
    lab = "mc"
    # names (model: resultNames), compared after the batch has gone through the driver
    def names_cb(ans):
        want_names = [core.dec(x) for x in core.parse_tree(ans[3:])[0]]
        missing = [v for v in want_names if v not in ds and v not in ds.coords]
        if missing:
            ck.disagree("result-names", f"variables {missing} not written", case)
    pending.append((f"names {enc(lab)} {enc(gdim)}", names_cb))
    for v in (f"a_matrix_{lab}", f"rate_{lab}", f"lifetime_{lab}", f"species_{lab}", f"k_matrix_{lab}", f"k_matrix_reduced_{lab}",
              f"decay_associated_{name}_{lab}", f"initial_concentration_{lab}", f"component_{lab}"):
        if v not in ds and v not in ds.coords:
            ck.violation("result:variable-missing", f"{v} is not written to the result dataset", case)
            return
    _, K, j, jraw = G.system_of(spec)
    A = np.asarray(ds[f"a_matrix_{lab}"].values, dtype=float)
    rates = np.asarray(ds[f"rate_{lab}"].values, dtype=float)
    life = np.asarray(ds[f"lifetime_{lab}"].values, dtype=float)
    species = [str(x) for x in ds[f"species_{lab}"].values]
    if ds[f"a_matrix_{lab}"].dims != (f"component_{lab}", f"species_{lab}"):
        ck.violation("result:a-matrix-dims", f"a_matrix dims {ds[f'a_matrix_{lab}'].dims}", case)
    if species != comps:
        ck.violation("result:species-order", f"species_{lab} = {species}, compartments {comps}", case)
        return
    if not np.array_equal(np.asarray(ds[f"component_{lab}"].values), np.arange(1, n + 1)):
        ck.violation("result:component-coord", "component coordinate is not 1..n", case)
    with np.errstate(all="ignore"):
        if not np.allclose(life * rates, 1.0, rtol=1e-12, atol=0) and np.all(rates != 0):
            ck.violation("result:lifetime-ne-1-over-rate", f"lifetimes {life.tolist()} rates {rates.tolist()}", case)
    if not np.allclose(np.asarray(ds[f"initial_concentration_{lab}"].values, dtype=float), jraw, rtol=1e-14, atol=0):
        ck.violation("result:initial-concentration-coord", "initial_concentration_<mc> is not the raw initial concentration", case)
    Kres = ds[f"k_matrix_{lab}"]
    if [str(x) for x in Kres.coords[f"to_species_{lab}"].values] != comps or Kres.dims != (f"to_species_{lab}", f"from_species_{lab}"):
        ck.violation("result:k-matrix-coords", "k_matrix coordinates", case)
    if not np.allclose(np.asarray(Kres.values, dtype=float), K, rtol=1e-12, atol=0):
        ck.violation("result:k-matrix-values", "k_matrix_<mc> is not the full K of the scheme", case)
    red = np.asarray(ds[f"k_matrix_reduced_{lab}"].values, dtype=float)
    want_red = np.zeros_like(K)
    for (to, fr), v in (G.merged_entries(spec).items() if spec["kind"] == "decay" else
                        {(to, fr): v for to, fr, v in G.equivalent_decay_spec(spec)["kms"][0]}.items()):
        want_red[comps.index(to), comps.index(fr)] = v
    if not np.array_equal(red, want_red):
        ck.violation("result:k-matrix-reduced", "k_matrix_reduced_<mc> is not the table of rate constants", case)
    conc = ds["species_concentration"].sel(species=comps).transpose("time", "species").values
    tt = np.asarray(ds.coords["time"].values, dtype=float)
    with np.errstate(all="ignore"):
        recon = np.exp(-np.outer(tt, rates)) @ A
    sc = max(1.0, float(np.max(np.abs(A))))
    if float(np.max(np.abs(recon - conc))) > 1e-9 * sc * n:
        ck.violation("result:conc-ne-sum-a-exp", "species_concentration != sum_l A_l exp(-rate_l t) from the result's own a_matrix / rate", case)
    ok, _ = G.spectrum_ok(K)
    if ok:
        want = expm_conc(K, j, tt)
        if float(np.max(np.abs(want - conc))) > OTOL * max(1.0, float(np.max(np.abs(j)))):
            ck.violation("result:conc-ne-expm:" + spec["kind"], "species_concentration != exp(Kt) j", case)
    sasr = ds[f"species_associated_{name}"].sel(species=comps).transpose(gdim, "species").values
    das = ds[f"decay_associated_{name}_{lab}"]
    if das.dims != (gdim, f"component_{lab}"):
        ck.violation("result:das-dims", f"DAS dims {das.dims}", case)
        return
    dv = np.asarray(das.values, dtype=float)
    if float(np.max(np.abs(dv - sasr @ A.T))) > 1e-9 * max(1.0, float(np.max(np.abs(sasr)))) * sc * n:
        ck.violation("result:das-ne-sas-a-t", "decay associated spectra != SAS x A^T", case)
    # the model's DAS on the same numbers
    def das_cb(ans):
        mdas = fr_rows(core.parse_tree(ans[3:])[0])
        okd, errd = close(dv, mdas, 1e-12, scale=max(1.0, float(np.max(np.abs(dv)))))
        if not okd:
            ck.disagree("result-das", f"DAS differs from the model (err {errd:.2e})", case)
    if np.all(np.isfinite(sasr)) and np.all(np.isfinite(A)):
        pending.append((f"das {p_rows(A)} {p_rows(sasr)} {n}", das_cb))
    # the data model is reproduced by both decompositions: sum_l DAS_l exp(-rate_l t) = sum_c SAS_c c_c(t)
    with np.errstate(all="ignore"):
        via_das = np.exp(-np.outer(tt, rates)) @ dv.T
    via_sas = conc @ sasr.T
    scf = max(1.0, float(np.max(np.abs(sasr)))) * sc * n
    if float(np.max(np.abs(via_das - via_sas))) > 1e-9 * scf:
        ck.violation("result:das-decomposition", "sum_l DAS_l exp(-rate_l t) != sum_c SAS_c c_c(t)", case)


# ------------------------------------------------------------------------------------------
# declaration order: every permutation of the initial-concentration compartments gives the same profile per label
# ------------------------------------------------------------------------------------------
def permutation_stream(ck, nbase, batch):
    import itertools
    rng = ck.rng
    done = 0
    tries = 0
    while done < nbase and tries < 20 * nbase:
        tries += 1
        base = G.rand_decay_spec(rng, n=rng.choice([2, 3, 3, 4]), ordered=True)
        if base is None or not base["times"] or len(set(base["ic_comps"])) != len(base["ic_comps"]):
            continue
        ref = observe(base)
        if ref["error"] or "calc_error" in ref or "parts_error" in ref:
            continue
        comps0 = ref["labels"]
        pairs = list(zip(base["ic_comps"], base["ic_params"]))
        scale = max(1.0, float(np.max(np.abs(ref["matrix"]))) if ref["matrix"].size else 1.0)
        done += 1
        for perm in itertools.permutations(range(len(pairs))):
            spec = json.loads(json.dumps(base))
            spec["ic_comps"] = [pairs[i][0] for i in perm]
            spec["ic_params"] = [pairs[i][1] for i in perm]
            spec["tag"] = "permutation/" + base["tag"]
            obs = observe(spec)
            ck.oracle_evals += 1
            ck.count("stream:permutation")
            if obs["error"] or "calc_error" in obs or "parts_error" in obs:
                ck.violation("declaration-order:raises", f"permuted declaration raises {obs.get('calc_error') or obs.get('parts_error') or obs['error']}", light(spec))
                continue
            if sorted(obs["labels"]) != sorted(comps0):
                ck.violation("declaration-order:labels", f"labels {obs['labels']} vs {comps0}", light(spec))
                continue
            cols = [obs["labels"].index(c) for c in comps0]
            if float(np.max(np.abs(obs["matrix"][:, cols] - ref["matrix"]))) > 1e-8 * scale:
                ck.violation("depends-on-declaration-order:" + ("seq-formula" if obs["isseq"] else "general"),
                             f"concentrations per compartment change when the compartments are declared as {spec['ic_comps']} "
                             f"instead of {base['ic_comps']}", {"spec": spec, "reference": base})
            if rng.random() < 0.25:
                check_case(ck, spec, batch, with_equivalence=False)


# ------------------------------------------------------------------------------------------
# malformed megacomplex descriptions
# ------------------------------------------------------------------------------------------
def malformed_specs(rng):
    out = []
    base = G.rand_decay_spec(rng, exact=True, topo="chain", n=3, jkind="first", ordered=True)
    if base:
        s = json.loads(json.dumps(base))
        s["ic_comps"] = s["ic_comps"][:-1]
        s["ic_params"] = s["ic_params"][:-1]
        s["tag"] = "malformed/missing-compartment"
        out.append(s)
        s = json.loads(json.dumps(base))
        s["ic_params"] = s["ic_params"][:-1]
        s["tag"] = "malformed/param-length"
        out.append(s)
        s = json.loads(json.dumps(base))
        s["ic_params"] = [0.0] * len(s["ic_params"])
        s["tag"] = "malformed/zero-sum"
        out.append(s)
        s = json.loads(json.dumps(base))
        s["excl"] = list(s["ic_comps"])
        s["tag"] = "malformed/all-excluded"
        out.append(s)
    for kind in ("par", "seq"):
        s = G.rand_simple_spec(rng, kind, exact=True, n=3)
        if s:
            a = json.loads(json.dumps(s))
            a["rates"] = a["rates"][:-1]
            a["tag"] = f"malformed/{kind}-short-rates"
            out.append(a)
            b = json.loads(json.dumps(s))
            b["rates"] = b["rates"] + [7.0]
            b["tag"] = f"malformed/{kind}-long-rates"
            out.append(b)
            c = json.loads(json.dumps(s))
            c["comps"], c["rates"] = [], []
            c["tag"] = f"malformed/{kind}-empty"
            out.append(c)
            d = json.loads(json.dumps(s))
            d["rates"] = [d["rates"][0]] * len(d["rates"])
            d["tag"] = f"malformed/{kind}-equal-rates"
            out.append(d)
            e = json.loads(json.dumps(s))
            e["rates"][-1] = 0.0
            e["tag"] = f"malformed/{kind}-zero-last-rate"
            out.append(e)
    return out


# ------------------------------------------------------------------------------------------
# zero / equal rates in the parallel and sequential megacomplexes
# ------------------------------------------------------------------------------------------
def zero_equal_stream(ck, count, batch):
    for i in range(count):
        spec = G.rand_zero_equal_spec(ck.rng, kind=("seq" if i % 2 else "par"))
        if spec is None:
            continue
        distinct = len(set(spec["rates"])) == len(spec["rates"])
        check_case(ck, spec, batch, with_equivalence=distinct)
        ck.count("stream:zero-equal")
        ck.count("zero-equal:" + spec["tag"].split("/")[0] + (":in-domain" if distinct else ":out-of-domain"))
        if len(batch) >= 150:
            flush(ck, batch)
    flush(ck, batch)


class reversed_eig:
    """scipy.linalg.eig as seen by k_matrix.py, returning the same eigen-decomposition with eigenvalues and
    eigenvector columns in the reverse order (as valid a result as LAPACK's own order)"""

    def __enter__(self):
        import glotaran.builtin.megacomplexes.decay.k_matrix as km
        self.km, self.orig = km, km.eig
        orig = self.orig

        def rev(a, *args, **kw):
            w, v = orig(a, *args, **kw)
            return w[::-1].copy(), v[:, ::-1].copy()
        km.eig = rev
        return self

    def __exit__(self, *exc):
        self.km.eig = self.orig
        return False


def eig_order_probe(ck, batch):
    """Replay of the Lean witness seq_megacomplex_solves_counterexample on the real code: with the eigenvalues listed in
    another (equally valid) order the sequential megacomplex a ->(1) b ->(0) pairs the rates (0, 1) with its chain-ordered
    closed-form A-matrix and reports c_a(t) = 1, while the decay and the parallel megacomplex do not depend on the
    order (general_solves holds for whatever eig returned).  On the unchanged tree LAPACK's order is the chain order
    (simple_megacomplex_oracle checks it on every sequential case), so this is a dependency, not a failure."""
    witness = {"kind": "seq", "comps": ["a", "b"], "rates": [1.0, 0.0], "times": [0.0, 1.0, 2.5], "tag": "eig-order-witness", "exact": True}
    with reversed_eig():
        obs = observe(witness)
        lines = model_lines(witness, obs)
    ck.case(("eig-order-witness", json.dumps(witness, sort_keys=True)), True)
    ck.count("probe:eig-order-witness")
    if obs["error"] or "calc_error" in obs or "parts_error" in obs:
        raise core.HarnessError(f"eig-order witness did not run: {obs.get('error') or obs.get('calc_error') or obs.get('parts_error')}")
    t = np.asarray(witness["times"])
    dev = float(np.max(np.abs(obs["matrix"][:, 0] - np.exp(-t))))
    reproduced = np.allclose(obs["rates"], [0.0, 1.0]) and abs(float(obs["matrix"][1, 0]) - 1.0) < 1e-12 and dev > 0.5
    _, Kw, jw, _ = G.system_of(witness)
    right = bool(np.max(np.abs(obs["matrix"] - expm_conc(Kw, jw, t))) < 1e-9)
    ck.extra["eig_order_witness"] = {"rates_with_reversed_eig": np.asarray(obs["rates"]).tolist(), "c_a(1)": float(obs["matrix"][1, 0]),
                                     "exp(-1)": float(np.exp(-1.0)), "reproduced": bool(reproduced), "order_independent": right}
    if reproduced:
        batch.append((witness, obs, lines))        # the model, given the same order, must produce the same (wrong) numbers
    elif right:
        # the code no longer depends on eig's order here (e.g. rates and A-matrix taken from the same path): no API-level
        # difference with LAPACK's own order, so no verdict; the model's dependency (Lean counter-example) is then stale
        ck.count("probe:eig-order-witness:code-is-order-independent")
        ck.diagnostic("sequential megacomplex with a zero rate no longer depends on the eigenvalue order; the model's "
                      "seq_megacomplex_solves_counterexample describes the earlier code", light(witness))
    else:
        ck.disagree("eig-order-witness", "sequential megacomplex, zero last rate, eigenvalues in another order: the real code gives neither the "
                    f"model's numbers nor exp(Kt)j: rates {np.asarray(obs['rates']).tolist()}, c_a(1) = {float(obs['matrix'][1, 0])!r}", light(witness))
    # the decay / parallel megacomplexes under the same reversed order: full check (oracle + model) must pass
    n_inv = 0
    with reversed_eig():
        check_case(ck, G.equivalent_decay_spec(witness), batch, with_equivalence=False)
        tries = 0
        while n_inv < ck.n(24, 300) and tries < 2000:
            tries += 1
            spec = G.rand_simple_spec(ck.rng, "par") if tries % 4 == 0 else G.rand_decay_spec(ck.rng)
            if spec is None:
                continue
            spec = dict(spec)
            spec["tag"] = "reversed-eig/" + spec["tag"]
            o = check_case(ck, spec, batch, with_equivalence=False)
            if "lam" in o:
                n_inv += 1
            ck.count("stream:reversed-eig")
    flush(ck, batch)


# ------------------------------------------------------------------------------------------
# several decay megacomplexes in one dataset model: result variables (DAS / SAS / a_matrix / species)
# ------------------------------------------------------------------------------------------
def multi_model_dict(spec, pv):
    def P(v):
        pv.append(float(v))
        return str(len(pv))

    km, megas = {}, {}
    for m in spec["megas"]:
        if m["kind"] == "decay":
            for lab, d in zip(m["km_labels"], m["kms"]):
                km[lab] = {"matrix": {(to, fr): P(v) for to, fr, v in d}}
            megas[m["label"]] = {"type": "decay", "k_matrix": list(m["km_labels"])}
        else:
            megas[m["label"]] = {"type": "decay-parallel" if m["kind"] == "par" else "decay-sequential",
                                 "compartments": list(m["comps"]), "rates": [P(v) for v in m["rates"]]}
    ic = {"compartments": list(spec["ic_comps"]), "parameters": [P(v) for v in spec["ic_params"]],
          "exclude_from_normalize": list(spec.get("excl", []))}
    return {"initial_concentration": {"j": ic}, "k_matrix": km, "megacomplex": megas,
            "dataset": {"d": {"initial_concentration": "j", "megacomplex": [m["label"] for m in spec["megas"]]}}}


def multi_result_case(ck, spec, pending, batch):
    """simulate + optimize (one evaluation) a dataset model with several decay megacomplexes that share one
    initial-concentration item; check every decay-related result variable.  Returns False if the case was skipped."""
    import xarray as xr
    from glotaran.model.item import fill_item
    from glotaran.optimization.optimize import optimize
    from glotaran.parameter import Parameters
    from glotaran.project import Scheme
    from glotaran.simulation import simulate
    case = light(spec)
    rng = ck.rng
    subs = [G.sub_spec(spec, m) for m in spec["megas"]]
    obss = [observe(sb) for sb in subs]
    if any(o["error"] or "parts_error" in o or "calc_error" in o for o in obss):
        ck.count("multi:skipped:sub-megacomplex-raises")
        return False
    systems = [G.system_of(sb) for sb in subs]            # the harness' own (comps, K, j normalised over the whole item, j raw)
    all_species = []
    for comps, _, _, _ in systems:
        for c in comps:
            if c not in all_species:
                all_species.append(c)
    pv = []
    model = model_cls()(**multi_model_dict(spec, pv))
    params = Parameters.from_list([[v, {"non-negative": False, "vary": False}] for v in pv])
    next(iter(params.all())).vary = True
    times = np.array(sorted(set([0.0] + [float(t) for t in spec["times"]] + [0.3, 0.9, 1.7, 2.9, 4.1, 6.5, 9.0])), dtype=float)
    gdim = spec.get("global_dimension", "spectral")
    name = "images" if gdim == "pixel" else "spectra"
    gaxis = np.arange(1, len(all_species) + 3, dtype=float)
    sas = np.array([[float(rng.randint(1, 9)) for _ in all_species] for _ in gaxis])
    clp = xr.DataArray(sas, coords=[(gdim, gaxis), ("clp_label", all_species)])
    with warnings.catch_warnings():
        warnings.simplefilter("ignore")
        data = simulate(model, "d", params, {"time": times, gdim: gaxis}, clp)
        res = optimize(Scheme(model=model, parameters=params, data={"d": data}, maximum_number_function_evaluations=1),
                       verbose=False, raise_exception=True)
    ds = res.data["d"]
    ck.oracle_evals += 1
    ck.count("result-multi:megacomplexes=" + str(len(subs)))
    if spec.get("excl"):
        ck.count("result-multi:with-exclude_from_normalize")
    if all_species != sorted(all_species):
        ck.count("result-multi:non-lexicographic-species-order")
    if sum(len(sy[0]) for sy in systems) > len(all_species):
        ck.count("result-multi:shared-species")
    key = "result-multi:"
    # ---- species of the dataset: union in first-occurrence order
    got_species = [str(x) for x in ds.coords["species"].values] if "species" in ds.coords else None
    if got_species != all_species:
        ck.violation(key + "species-order", f"species = {got_species}, megacomplex compartments in order of first occurrence {all_species}", case)
        return True
    tt = np.asarray(ds.coords["time"].values, dtype=float)
    conc = np.asarray(ds["species_concentration"].transpose("time", "species").values, dtype=float)
    # ---- species_concentration: sum over the megacomplexes that have the species of exp(K_m t) j_m
    want = np.zeros((len(tt), len(all_species)))
    for comps, K, j, _ in systems:
        c_m = expm_conc(K, j, tt)
        for ci, c in enumerate(comps):
            want[:, all_species.index(c)] += c_m[:, ci]
    jmax = max(1.0, max(float(np.max(np.abs(sy[2]))) for sy in systems))
    if conc.shape != want.shape or float(np.max(np.abs(conc - want))) > OTOL * jmax:
        bad = int(np.argmax(np.max(np.abs(conc - want), axis=0))) if conc.shape == want.shape else 0
        ck.violation(key + "conc-ne-expm", f"species_concentration of {all_species[bad]!r} != sum over its megacomplexes of exp(K t) j "
                     f"(j normalised over the whole initial-concentration item; max error {float(np.max(np.abs(conc - want))) if conc.shape == want.shape else 'shape'})", case)
        return True
    # ---- species-associated spectra are the clps of the same label
    sasr = np.asarray(ds[f"species_associated_{name}"].transpose(gdim, "species").values, dtype=float)
    for si, sp in enumerate(all_species):
        if not np.array_equal(sasr[:, si], np.asarray(ds.clp.sel(clp_label=sp).values, dtype=float)):
            ck.violation(key + "sas-ne-clp-of-label", f"species_associated_{name} of {sp!r} is not the clp labelled {sp!r}", case)
            return True
    # ---- initial_concentration (dataset wide), by label
    if "initial_concentration" in ds:
        ic = ds["initial_concentration"]
        for sp in all_species:
            v = float(ic.sel(species=sp).values)
            if sp in spec["ic_comps"]:
                w = float(spec["ic_params"][spec["ic_comps"].index(sp)])
                if not v == w:
                    ck.violation(key + "initial-concentration-by-label", f"initial_concentration[{sp!r}] = {v!r}, declared {w!r}", case)
                    return True
            elif not np.isnan(v):
                ck.violation(key + "initial-concentration-by-label", f"initial_concentration[{sp!r}] = {v!r} for a species outside the item", case)
                return True
    # ---- per megacomplex
    via_das = np.zeros((len(tt), len(gaxis)))
    for m, sb, o, (comps, K, j, jraw) in zip(spec["megas"], subs, obss, systems):
        lab = m["label"]
        for v in (f"a_matrix_{lab}", f"rate_{lab}", f"lifetime_{lab}", f"species_{lab}", f"k_matrix_{lab}", f"k_matrix_reduced_{lab}",
                  f"decay_associated_{name}_{lab}", f"initial_concentration_{lab}", f"component_{lab}"):
            if v not in ds and v not in ds.coords:
                ck.violation(key + "variable-missing", f"{v} is not written to the result dataset", case)
                return True
        A = np.asarray(ds[f"a_matrix_{lab}"].values, dtype=float)
        rates = np.asarray(ds[f"rate_{lab}"].values, dtype=float)
        life = np.asarray(ds[f"lifetime_{lab}"].values, dtype=float)
        sp_m = [str(x) for x in ds[f"species_{lab}"].values]
        n = len(comps)
        if sp_m != comps:
            ck.violation(key + "megacomplex-species", f"species_{lab} = {sp_m}, compartments of the megacomplex {comps}", case)
            return True
        if ds[f"a_matrix_{lab}"].dims != (f"component_{lab}", f"species_{lab}") or A.shape != (n, n):
            ck.violation(key + "a-matrix-dims", f"a_matrix_{lab} dims {ds[f'a_matrix_{lab}'].dims} shape {A.shape}", case)
            return True
        # the same numbers as the megacomplex's own methods (tied to the model by judge on the sub-case)
        if not (np.array_equal(A, o["A"]) and np.array_equal(rates, o["rates"])):
            ck.violation(key + "a-matrix-or-rates-ne-megacomplex", f"a_matrix_{lab} / rate_{lab} differ from get_a_matrix / k_matrix.rates of the megacomplex", case)
            return True
        with np.errstate(all="ignore"):
            if np.all(rates != 0) and not np.allclose(life * rates, 1.0, rtol=1e-12, atol=0):
                ck.violation(key + "lifetime-ne-1-over-rate", f"lifetime_{lab} {life.tolist()} rate_{lab} {rates.tolist()}", case)
        if not np.allclose(np.asarray(ds[f"initial_concentration_{lab}"].values, dtype=float), jraw, rtol=1e-14, atol=0):
            ck.violation(key + "initial-concentration-coord", f"initial_concentration_{lab} is not the raw initial concentration of {comps}", case)
            return True
        Kres = ds[f"k_matrix_{lab}"]
        if [str(x) for x in Kres.coords[f"to_species_{lab}"].values] != comps or [str(x) for x in Kres.coords[f"from_species_{lab}"].values] != comps \
                or not np.allclose(np.asarray(Kres.values, dtype=float), K, rtol=1e-12, atol=0):
            ck.violation(key + "k-matrix", f"k_matrix_{lab} is not the full K of the megacomplex on its compartments", case)
            return True
        if not np.array_equal(np.asarray(ds[f"k_matrix_reduced_{lab}"].values, dtype=float), o["reduced"]):
            ck.violation(key + "k-matrix-reduced", f"k_matrix_reduced_{lab}", case)
            return True
        # ODE certificates with the harness' own K and j (normalisation over the whole item, exclude_from_normalize)
        sc = max(1.0, float(np.max(np.abs(A))))
        if float(np.max(np.abs(A.sum(axis=0) - j))) > OTOL * max(1.0, float(np.max(np.abs(j)))):
            ck.violation(key + "a-matrix-colsum-ne-j", f"sum_l a_matrix_{lab}[l, c] = {A.sum(axis=0).tolist()} but j = {j.tolist()} "
                         "(normalised over the whole initial-concentration item)", case)
            return True
        kn = max(1e-300, float(np.max(np.abs(K))))
        for l in range(n):
            resid = K @ A[l] + rates[l] * A[l]
            if float(np.max(np.abs(resid))) > 1e-6 * kn * sc:
                ck.violation(key + "a-matrix-row-not-eigenvector", f"K a_l != -rate_l a_l for component {l + 1} of {lab}", case)
                return True
        das = ds[f"decay_associated_{name}_{lab}"]
        if das.dims != (gdim, f"component_{lab}"):
            ck.violation(key + "das-dims", f"DAS dims {das.dims}", case)
            return True
        dv = np.asarray(das.values, dtype=float)
        cols = [all_species.index(c) for c in comps]
        wantd = sasr[:, cols] @ A.T
        if float(np.max(np.abs(dv - wantd))) > 1e-9 * max(1.0, float(np.max(np.abs(sasr)))) * sc * n:
            ck.violation(key + "das-ne-sas-a-t", f"decay_associated_{name}_{lab} != SAS[:, species of {lab}] x A^T (selected by label)", case)
            return True
        with np.errstate(all="ignore"):
            via_das += np.exp(-np.outer(tt, rates)) @ dv.T

        def das_cb(ans, dv=dv, lab=lab):
            mdas = fr_rows(core.parse_tree(ans[3:])[0])
            okd, errd = close(dv, mdas, 1e-12, scale=max(1.0, float(np.max(np.abs(dv)))))
            if not okd:
                ck.disagree("result-multi-das", f"DAS of {lab} differs from the model's dasSel (err {errd:.2e})", case)
        if np.all(np.isfinite(sasr)) and np.all(np.isfinite(A)):
            pending.append((f"dassel {strs(all_species)} {p_rows(sasr)} {strs(comps)} {p_rows(A)}", das_cb))
        # the megacomplex itself against the model (compartments, j, K, is_sequential, rates, A, concentrations)
        batch.append((sb, o, model_lines(sb, o)))
        ck.case(("multi-sub", json.dumps(sb, sort_keys=True)), False)
    # ---- the data model: fitted = sum_m sum_l DAS_m[:, l] exp(-rate_{m,l} t)   (das_multi_reconstructs + fitted = matrix clp)
    via_sas = conc @ sasr.T
    amax = max(1.0, max(float(np.max(np.abs(o["A"]))) for o in obss))
    scf = max(1.0, float(np.max(np.abs(sasr)))) * amax
    if float(np.max(np.abs(via_sas - via_das))) > 1e-9 * scf * len(all_species):
        ck.violation(key + "das-decomposition", "sum over the decay megacomplexes of sum_l DAS_l exp(-rate_l t) != sum_s SAS_s c_s(t)", case)
        return True
    mat = np.asarray(ds["matrix"].values, dtype=float)
    with np.errstate(all="ignore"):
        well = mat.ndim == 2 and np.all(np.isfinite(mat)) and np.linalg.cond(mat) < 1e6
    if well:          # a full-rank linear problem (no never-populated species, no identical profiles): the fit is the model
        ck.count("result-multi:fitted-checked")
        fitted = np.asarray(ds["fitted_data"].transpose("time", gdim).values, dtype=float)
        if float(np.max(np.abs(fitted - via_das))) > 1e-8 * max(1.0, float(np.max(np.abs(fitted))), scf):
            ck.violation(key + "fitted-ne-das-decomposition", "fitted_data != sum over the decay megacomplexes of sum_l DAS_l exp(-rate_l t)", case)
            return True

    # ---- the model's all_species and combined concentration terms
    def species_cb(ans):
        got = [core.dec(x) for x in core.parse_tree(ans[3:])[0]]
        if got != all_species:
            ck.disagree("result-multi-species", f"species {all_species} vs model allSpecies {got}", case)
    pending.append(("allspecies " + lst(strs(sy[0]) for sy in systems), species_cb))
    eigs = []
    for sb, o in zip(subs, obss):
        e, mode = eig_param(sb, o)
        eigs.append(e)
    kappas = [float(np.linalg.cond(o["V"])) if "V" in o and o["V"].size else 1.0 for o in obss]
    if all(e is not None for e in eigs) and all(np.isfinite(kp) and kp < 1e9 for kp in kappas):
        def multi_cb(ans):
            if ans in ("degenerate", "nocert") or ans.startswith("err"):
                ck.count("model:multi-skipped:" + ans[:12])
                return
            t = core.parse_tree(ans[3:])
            if [core.dec(x) for x in t[0]] != all_species:
                ck.disagree("result-multi-species", f"model allSpecies {[core.dec(x) for x in t[0]]} vs {all_species}", case)
                return
            amax = max(1.0, max(float(np.max(np.abs(o["A"]))) for o in obss))
            tol0 = 1e-11 * max(1.0, max(kappas)) * amax * 10 * len(all_species)
            for ti, row in enumerate(t[1]):
                for si, pairs in enumerate(row):
                    val, mag = eval_term(pairs)
                    tol = tol0 + 1e-11 * max(mag, 1e-300)
                    if not abs(conc[ti, si] - val) <= tol:
                        ck.disagree("result-multi-concentration", f"species_concentration[{ti},{all_species[si]}] = {float(conc[ti, si])!r}, "
                                    f"model combined term = {val!r} (tol {tol:.1e})", case)
                        return
        megas_txt = " ".join(lst([sb["kind"], e, *p_args(sb).split(" ")]) for sb, e in zip(subs, eigs))
        pending.append((f"multi {rats(tt)} {megas_txt}", multi_cb))
    return True


def multi_stream(ck, pending, batch, corpus_specs=()):
    specs = list(corpus_specs)
    cfg = list(G.multi_config_specs())
    if ck.quick:
        specs += ck.rng.sample(cfg, 14)
    else:
        specs += cfg
        ck.extra["multi_configurations_exhaustive"] = len(cfg)
    want, tries = ck.n(22, 300), 0
    rand = []
    while len(rand) < want and tries < 10 * want:
        tries += 1
        sp = G.rand_multi_spec(ck.rng)
        if sp is not None:
            rand.append(sp)
    for spec in specs + rand:
        try:
            done = multi_result_case(ck, spec, pending, batch)
        except core.HarnessError:
            raise
        except Exception as e:
            if spec["tag"].startswith(("multi-config", "corpus/")):
                # the enumerated configurations are plain valid models: simulate / optimize / finalize must not raise
                ck.violation("result-multi:raises:" + type(e).__name__, f"simulate + optimize of a valid multi-megacomplex model raises {e!r}"[:400], light(spec))
                continue
            ck.count("result-multi:skipped:" + type(e).__name__)
            ck.diagnostic("multi result case raised", {"spec": spec, "error": repr(e)[:300]})
            continue
        if done:
            ck.case(("multi", json.dumps(spec, sort_keys=True)), True)
            ck.count("stream:multi-result")
            ck.count("tag:" + spec["tag"].split("/")[0] + ("/" + spec["tag"].split("/")[1] if spec["tag"].startswith("multi-config") else ""))
    flush(ck, batch)


# ------------------------------------------------------------------------------------------
# run / search / replay
# ------------------------------------------------------------------------------------------
def time_unit_stream(ck, count, batch):
    """the same kind of schemes on measured-looking time axes (equidistant, fine-then-coarse, log, jittered, with a gap,
    drifting step), written in a random unit of time: times * u and every rate constant / u with u from 1e-15 to 1e3 —
    exp(K t) j does not depend on the unit, so the oracle (scipy / mpmath expm on K t) judges every point of the axis"""
    for _ in range(count):
        spec = G.rand_time_unit_spec(ck.rng)
        if spec is None:
            ck.count("generator:gave-up")
            continue
        check_case(ck, spec, batch)
        ck.count("stream:time-unit")
        _, shape, unit = spec["tag"].split("/")[:3]
        ck.count("time-unit:axis=" + shape)
        ck.count("time-unit:unit=" + unit)
        d = np.diff(np.asarray(spec["times"], dtype=float))
        regular = bool(d.size) and float(np.max(np.abs(d - d[0]))) <= 1e-9 * float(np.max(np.abs(d)))
        ck.count("time-unit:" + ("equidistant" if regular else "irregular") + (":steps-below-1e-8" if d.size and float(np.max(d)) < 1e-8 else ""))
        ck.count(f"time-unit:points={len(spec['times'])}")
        if len(batch) >= 60:
            flush(ck, batch)
    flush(ck, batch)


def gen_case(rng, i):
    r = i % 10
    if r < 6:
        return G.rand_decay_spec(rng)
    if r == 6:
        # the closed-form path and its neighbours: chains in declared order with every kind of initial vector
        return G.rand_decay_spec(rng, topo=rng.choice(["chain", "chain", "chain-backlast", "chain-noloss", "chain+loss"]),
                                 ordered=True, jkind=rng.choice(["first", "first", "second", "half-half", "skewed", "single"]))
    if r == 7:
        return G.rand_simple_spec(rng, "par")
    if r == 8:
        return G.rand_simple_spec(rng, "seq")
    if (i // 10) % 2 == 0:
        return G.rational_reversible_spec(rng)
    return G.rand_decay_spec(rng, topo=rng.choice(["closed-dag", "closed-reversible", "chain-noloss"]))


def reused_result_probe(ck):
    """A result dataset handed in again as the data of another model: the species_concentration reported for the second
    fit must be the concentrations of the SECOND model (observation point Result.data[label].species_concentration).
    Recorded finding: decay finalize_data returns early when the input already carries a `species` coordinate, so the
    first model's species_concentration / SAS / DAS / a_matrix are reported again (found by a seeding sub-agent while
    exploring; witness replayed on every run)."""
    import xarray as xr
    from glotaran.io import load_model, load_parameters
    from glotaran.optimization.optimize import optimize
    from glotaran.project import Scheme
    from glotaran.simulation import simulate

    def model(kind, n=2):
        return load_model(f"""
megacomplex:
  m1: {{type: {kind}, compartments: [{', '.join(f's{i + 1}' for i in range(n))}], rates: [{', '.join(f'rates.{i + 1}' for i in range(n))}]}}
dataset:
  d1: {{megacomplex: [m1]}}
""", format_name="yml_str")
    p = load_parameters("rates:\n  - ['1', 1.0]\n  - ['2', 0.25]\n  - ['3', 0.0625]\n", format_name="yml_str")
    t = np.linspace(0.0, 8.0, 17)
    g = np.array([1.0, 2.0, 3.0])
    clp = xr.DataArray([[1.0, 2.0], [2.0, 1.0], [1.0, 1.0]], coords=[("spectral", g), ("clp_label", ["s1", "s2"])])
    m_par, m_seq = model("decay-parallel"), model("decay-sequential")
    case = {"probe": "result-dataset-reused-as-data", "first": "decay-parallel", "second": "decay-sequential", "rates": [1.0, 0.25]}
    with warnings.catch_warnings():
        warnings.simplefilter("ignore")
        data = simulate(m_par, "d1", p, {"time": t, "spectral": g}, clp)

        def fit(m, d):
            return optimize(Scheme(model=m, parameters=p, data={"d1": d}, maximum_number_function_evaluations=1),
                            verbose=False, raise_exception=True).data["d1"]
        first = fit(m_par, data)
        second = fit(m_seq, first)
        fresh = fit(m_seq, data)
        try:
            third = fit(model("decay-sequential", 3), first)
            third_error = None
        except Exception as e:          # a repaired guard alone ends here: KeyError on the stale clp_label index
            third, third_error = None, repr(e)[:200]
    ck.oracle_evals += 1
    ck.count("probe:result-dataset-reused-as-data")
    ck.case(("reused-result", json.dumps(case)), True)
    k1, k2 = 1.0, 0.25
    want = np.stack([np.exp(-k1 * t), k1 / (k2 - k1) * (np.exp(-k1 * t) - np.exp(-k2 * t))], axis=1)   # s1 -> s2 -> ground
    got = np.asarray(second.species_concentration.transpose("time", "species").values, dtype=float)
    if got.shape == want.shape and not np.allclose(got, want, rtol=1e-9, atol=1e-12):
        stale = np.allclose(got, np.asarray(first.species_concentration.transpose("time", "species").values, dtype=float))
        ck.violation("stale-species-when-result-dataset-is-reused-as-data" if stale else "reused-result-dataset-wrong-concentrations",
                     "a result dataset used as the data of a second fit with another model: species_concentration of the second "
                     "result is " + ("the first model's" if stale else "wrong") + f" (max deviation {float(np.abs(got - want).max()):.3g}); "
                     "a fit of the same model on the plain data reports the right one: "
                     f"{bool(np.allclose(np.asarray(fresh.species_concentration.transpose('time', 'species').values), want, rtol=1e-9, atol=1e-12))}", case)
    # the same with a second model of another size (three compartments): the damage is done before any finalize_data runs
    case3 = {"probe": "result-dataset-reused-as-data", "first": "decay-parallel [s1, s2]", "second": "decay-sequential [s1, s2, s3]",
             "rates": [1.0, 0.25, 0.0625]}
    ck.oracle_evals += 1
    ck.case(("reused-result-3", json.dumps(case3)), True)
    k3 = 0.0625
    c3 = k1 * k2 * (np.exp(-k1 * t) / ((k2 - k1) * (k3 - k1)) + np.exp(-k2 * t) / ((k1 - k2) * (k3 - k2)) + np.exp(-k3 * t) / ((k1 - k3) * (k2 - k3)))
    want3 = np.concatenate([want, c3[:, None]], axis=1)
    if third is None:
        ck.violation("reused-result-dataset-of-other-size-raises", f"a result dataset of a 2-compartment model used as data of a 3-compartment model: {third_error}", case3)
    else:
        got3 = np.asarray(third.species_concentration.transpose("time", "species").values, dtype=float)
        info = {"species_concentration_shape": list(got3.shape), "matrix_shape": list(third.matrix.shape), "clp_labels": [str(x) for x in third.clp_label.values]}
        ck.extra["reused_result_other_size"] = info
        if got3.shape != want3.shape or not np.allclose(got3, want3, rtol=1e-9, atol=1e-12):
            ck.violation("reused-result-dataset-of-other-size-keeps-stale-shape",
                         "a result dataset of a 2-compartment model used as the data of a 3-compartment sequential model: species_concentration "
                         f"has shape {list(got3.shape)} instead of {list(want3.shape)}; the result's matrix has shape {info['matrix_shape']} "
                         f"and clp labels {info['clp_labels']} (cut down to the stale clp_label index)", case3)


def run(ck):
    model_cls()
    reused_result_probe(ck)
    batch = []
    corpus_multi = []
    for c in core.load_corpus(PROP):
        ck.count("stream:corpus")
        if c["spec"]["kind"] == "multi":
            corpus_multi.append(c["spec"])
            continue
        check_case(ck, c["spec"], batch)
    flush(ck, batch)
    for s in malformed_specs(ck.rng):
        check_case(ck, s, batch, with_equivalence=False)
        ck.count("stream:malformed")
    flush(ck, batch)
    n = ck.n(1300, 30000)
    for i in range(n):
        spec = gen_case(ck.rng, i)
        if spec is None:
            ck.count("generator:gave-up")
            continue
        check_case(ck, spec, batch)
        ck.count("stream:random")
        if i < 3:
            ck.sample({"spec": spec})
        if len(batch) >= 150:
            flush(ck, batch)
    flush(ck, batch)
    # sparsity patterns
    pats = [s for nn in (1, 2, 3) for s in G.pattern_specs(nn)]
    if ck.quick:
        small = [s for s in pats if len(s["ic_comps"]) <= 2]
        big = [s for s in pats if len(s["ic_comps"]) == 3]
        pats = small + ck.rng.sample(big, 250)
    else:
        ck.extra["patterns_exhaustive_n_le_3"] = len(pats)
    for s in pats:
        check_case(ck, s, batch, with_equivalence=False)
        ck.count("stream:pattern")
        if len(batch) >= 200:
            flush(ck, batch)
    flush(ck, batch)
    permutation_stream(ck, ck.n(8, 120), batch)
    flush(ck, batch)
    zero_equal_stream(ck, ck.n(160, 4000), batch)
    time_unit_stream(ck, ck.n(200, 4000), batch)
    eig_order_probe(ck, batch)
    unit_stream(ck, ck.n(300, 4000))
    # result datasets
    pending = []
    k = 0
    want = ck.n(36, 250)
    tries = 0
    while k < want and tries < 4 * want:
        tries += 1
        spec = gen_case(ck.rng, tries)
        if spec is None or not spec["times"]:
            continue
        if spec["kind"] == "decay" and (set(spec["ic_comps"]) != {x for km in spec["kms"] for e in km for x in e[:2]} or spec["excl"]):
            continue   # simulate() needs every declared compartment in the clp table; keep it simple
        spec = dict(spec)
        spec["global_dimension"] = "pixel" if ck.rng.random() < 0.3 else "spectral"
        try:
            result_case(ck, spec, pending)
        except core.HarnessError:
            raise
        except Exception as e:
            ck.count("result:skipped:" + type(e).__name__)
            ck.diagnostic("result case raised", {"spec": spec, "error": repr(e)[:300]})
            continue
        k += 1
    multi_stream(ck, pending, batch, corpus_multi)
    if pending:
        answers = core.lean_driver(PROP, [l for l, _ in pending])
        for (l, cb), a in zip(pending, answers):
            if a in ("bad-op", "bad-line") or not (a.startswith("ok ") or l.startswith("multi ")):
                raise core.HarnessError(f"model rejected {l[:100]}: {a[:60]}")
            cb(a)


def search(ck):
    """oracle-only sweep on the real code"""
    model_cls()
    for i in range(ck.n(1500, 8000)):
        spec = gen_case(ck.rng, i)
        if spec is None:
            continue
        obs = observe(spec)
        oracle(ck, spec, obs)
        equivalence_oracle(ck, spec, obs)
        if ck.violations:
            return
    for nn in (1, 2, 3):
        for s in G.pattern_specs(nn):
            oracle(ck, s, observe(s))
            if ck.violations:
                return
    for i in range(ck.n(400, 3000)):
        spec = G.rand_zero_equal_spec(ck.rng)
        if spec is None:
            continue
        obs = observe(spec)
        oracle(ck, spec, obs)
        simple_megacomplex_oracle(ck, spec, obs)
        if ck.violations:
            return
    for i in range(ck.n(400, 3000)):
        spec = G.rand_time_unit_spec(ck.rng)
        if spec is None:
            continue
        obs = observe(spec)
        oracle(ck, spec, obs)
        equivalence_oracle(ck, spec, obs)
        if ck.violations:
            return
    pending, batch = [], []
    for i in range(ck.n(60, 400)):
        spec = G.rand_multi_spec(ck.rng)
        if spec is None:
            continue
        try:
            multi_result_case(ck, spec, pending, batch)
        except core.HarnessError:
            raise
        except Exception:
            continue
        if ck.violations:
            return


def replay(ck, case):
    model_cls()
    specs = []
    if "case" in case and "spec" in case["case"]:
        specs.append(case["case"]["spec"])
    for d in case.get("disagreements", []):
        if "spec" in d.get("case", {}):
            specs.append(d["case"]["spec"])
    if "spec" in case:
        specs.append(case["spec"])
    batch = []
    multi = [s for s in specs if s.get("kind") == "multi"]
    specs = [s for s in specs if s.get("kind") != "multi"]
    for s in specs:
        if str(s.get("tag", "")).startswith("reversed-eig/"):
            with reversed_eig():
                check_case(ck, s, batch, with_equivalence=False)
        else:
            check_case(ck, s, batch)
    flush(ck, batch)
    pending = []
    if str(case.get("key", "")).startswith("result") and not str(case.get("key", "")).startswith("result-multi"):
        for s in specs:
            result_case(ck, s, pending)
    for s in multi:
        multi_result_case(ck, s, pending, batch)
    flush(ck, batch)
    if pending:
        answers = core.lean_driver(PROP, [l for l, _ in pending])
        for (l, cb), a in zip(pending, answers):
            cb(a)
    for d in ck.disagreements:
        print("DISAGREEMENT", d["key"], d["what"])
    for v in ck.violations:
        print("VIOLATION-DETAIL", v["key"], v["what"])
