"""C02 — the layout glue of the data provider and the `link_clp: null` decision.

* `run_layout(ck)`    (1) layout correspondence: real `DataProvider` on re-laid-out `xarray.Dataset`s vs the Lean `layout` op
                      (2) layout-invariance oracle on the real objective (independent of the model)
                      (3) `link_clp: null` correspondence: real `OptimizationGroup` vs the Lean `linkable` op
* `search_layout(ck)` widened oracle-only sweep (2)
* `replay_layout(ck, case)` re-runs a recorded layout case

Model: lean/GlotaranModel/C02Layout.lean (`layoutOps`, hooked into `C02.driverStep`).
"""
import copy
import json
import warnings
from fractions import Fraction

import numpy as np

from harness import core, gen_scheme

PROP = "C02"

# Integer data with a float weight (dataset weight of float dtype, or ANY model weight) makes `DataProvider.__init__`
# raise numpy's UFuncTypeError (`data *= weight` cannot cast float64 to int).  Recorded as a defect of the real code;
# with this flag the check reports it as a violation (key `provider-raises:integer-data-float-weight`).
REPORT_INT_DATA_DEFECT = True
# float32 data stay float32 in the provider: `data *= weight` is rounded to single precision, and residual_nnls (its
# scaling `data / data_scale`) then works in single precision: penalties of NNLS groups differ by ~1e-7 relative from the
# float64 layout of the same (exactly representable) values.  Counted; with this flag reported as a violation
# (key `objective-differs:layout:float32:single-precision`).
REPORT_FLOAT32_PRECISION = True

DTYPES = ["float64", "float32", "int64", "int32"]
BUFFERS = ["C", "F", "strided", "tview"]
ORDERS = ["mg", "gm"]
WEIGHT_KINDS = ["none", "same", "other"]


# --------------------------------------------------------------------------------------------
# stored arrays
# --------------------------------------------------------------------------------------------
def make_buffer(logical, order, dtype, buf):
    """logical (model x global nested list) -> (array in the stored order with the requested dtype and memory layout,
    the owning base buffer).  The values of the view are exactly `logical` (transposed for 'gm')."""
    a = np.array(logical, dtype=dtype)
    stored = np.ascontiguousarray(a if order == "mg" else a.T)
    r, c = stored.shape
    if buf == "C":
        out = base = stored
    elif buf == "F":
        out = base = np.asfortranarray(stored)
    elif buf == "strided":
        base = np.full((2 * r + 1, 3 * c + 2), 99, dtype=dtype)
        out = base[1:2 * r + 1:2, 2:3 * c + 2:3]
        out[...] = stored
    elif buf == "tview":
        base = np.ascontiguousarray(stored.T)
        out = base.T
    else:
        raise ValueError(buf)
    assert out.shape == stored.shape and (out == stored).all()
    return out, base


def dims_of(order, model_dim="model", global_dim="global"):
    return (model_dim, global_dim) if order == "mg" else (global_dim, model_dim)


def make_dataset(lay, model_dim="model", global_dim="global", extra_coords=None, bare=False):
    """lay: dict(data, weight|None, model_axis, global_axis, data_order, weight_order, dtype, wdtype, buf, wbuf)
    -> (xr.Dataset, [owning buffers])"""
    import xarray as xr
    d, dbase = make_buffer(lay["data"], lay["data_order"], lay["dtype"], lay["buf"])
    coords = {model_dim: np.array(lay["model_axis"], dtype=np.float64), global_dim: np.array(lay["global_axis"], dtype=np.float64)}
    if bare:      # a global dimension without a coordinate variable
        del coords[global_dim]
    da = xr.DataArray(d, coords=coords, dims=dims_of(lay["data_order"], model_dim, global_dim))
    for k, (cdims, cval) in (extra_coords or {}).items():
        da = da.assign_coords({k: (cdims, cval) if cdims else cval})
    dset = da.to_dataset(name="data")
    bases = [dbase]
    if lay.get("weight") is not None:
        w, wbase = make_buffer(lay["weight"], lay["weight_order"], lay["wdtype"], lay["wbuf"])
        dset["weight"] = (dims_of(lay["weight_order"], model_dim, global_dim), w)
        bases.append(wbase)
    return dset, bases


def frac_matrix(a):
    return [[Fraction(v.item()) for v in row] for row in np.asarray(a)]


def mat(m):
    return core.lst(core.rats(r) for r in m)


def parse_mat(t):
    return [[Fraction(x) for x in row] for row in t]


def tiny_spec(dsets, groups, weights=()):
    """dsets: [dict(label, group, nm, ng, has_global)]"""
    out = []
    for d in dsets:
        nm, ng = d["nm"], d["ng"]
        out.append({"label": d["label"], "group": d["group"], "global_axis": [float(i + 1) for i in range(ng)],
                    "model_axis": [float(i) for i in range(nm)], "dims_order": "mg",
                    "data": [[0.0] * ng for _ in range(nm)], "weight": None, "scale": None,
                    "mcs": [{"labels": ["s1"], "index_dependent": False, "base": [[1.0] for _ in range(nm)], "pars": None, "scale": None}],
                    "gmcs": ([{"labels": ["g1"], "index_dependent": False, "base": [[1.0] for _ in range(ng)], "pars": None, "scale": None}]
                             if d.get("has_global") else [])})
    return {"groups": groups, "clp_link_tolerance": 0.0, "clp_link_method": "nearest", "parameters": {"p.1": 1.0},
            "datasets": out, "constraints": [], "relations": [], "penalties": [], "weights": list(weights)}


# --------------------------------------------------------------------------------------------
# (1) layout correspondence
# --------------------------------------------------------------------------------------------
def rand_layout_case(rng, combo=None):
    data_order, wkind, mw, dtype, buf = combo or (rng.choice(ORDERS), rng.choice(WEIGHT_KINDS), rng.random() < 0.4,
                                                  rng.choice(DTYPES), rng.choice(BUFFERS))
    nm, ng = rng.randint(1, 4), rng.randint(1, 4)
    integer = dtype.startswith("int")
    data = [[(rng.randint(-8, 8) if integer else rng.randint(-8, 8) + rng.choice([0.0, 0.5])) for _ in range(ng)] for _ in range(nm)]
    lay = {"data": data, "weight": None, "model_axis": [float(i) for i in range(nm)], "global_axis": [float(i + 1) for i in range(ng)],
           "data_order": data_order, "dtype": dtype, "buf": buf, "weight_order": None, "wdtype": None, "wbuf": None}
    if wkind != "none":
        lay["wdtype"] = rng.choice([dtype, "float64"]) if integer else rng.choice(["float64", "float64", "float32"])
        wint = lay["wdtype"].startswith("int")
        lay["weight"] = [[(rng.choice([1, 2, 3, 4]) if wint else rng.choice([1.0, 2.0, 0.5, 4.0, 3.0])) for _ in range(ng)] for _ in range(nm)]
        lay["weight_order"] = data_order if wkind == "same" else ("gm" if data_order == "mg" else "mg")
        lay["wbuf"] = rng.choice(BUFFERS)
    weights = []
    if mw:
        for _ in range(rng.randint(1, 2)):
            w = {"datasets": ["d1"], "value": rng.choice([2.0, 0.5, 3.0]), "global_interval": None, "model_interval": None}
            if rng.random() < 0.6:
                a, b = sorted((rng.randrange(ng), rng.randrange(ng)))
                w["global_interval"] = [lay["global_axis"][a], lay["global_axis"][b]]
            if rng.random() < 0.4:
                a, b = sorted((rng.randrange(nm), rng.randrange(nm)))
                w["model_interval"] = [lay["model_axis"][a], lay["model_axis"][b]]
            weights.append(w)
    return {"layout": lay, "weights": weights, "wkind": wkind}


def model_weight_matrix(lay, weights):
    """the model weight of `add_model_weight` for intervals whose bounds are axis points (C08 covers the general case)"""
    if not weights:
        return None
    nm, ng = len(lay["model_axis"]), len(lay["global_axis"])
    out = [[Fraction(1)] * ng for _ in range(nm)]
    for w in weights:
        gs = range(ng) if w["global_interval"] is None else range(lay["global_axis"].index(w["global_interval"][0]), lay["global_axis"].index(w["global_interval"][1]) + 1)
        ms = range(nm) if w["model_interval"] is None else range(lay["model_axis"].index(w["model_interval"][0]), lay["model_axis"].index(w["model_interval"][1]) + 1)
        for m in ms:
            for g in gs:
                out[m][g] *= Fraction(w["value"])
    return out


def real_layout(case):
    """real DataProvider on a one-dataset scheme whose data was replaced by the re-laid-out dataset"""
    from glotaran.optimization.data_provider import DataProvider
    lay = case["layout"]
    nm, ng = len(lay["model_axis"]), len(lay["global_axis"])
    spec = tiny_spec([{"label": "d1", "group": "default", "nm": nm, "ng": ng}],
                     {"default": {"link_clp": False, "residual_function": "variable_projection"}}, case["weights"])
    scheme, model, _, _ = gen_scheme.build(spec)
    dset, bases = make_dataset(lay)
    before = [b.copy() for b in bases]
    scheme.data["d1"] = dset
    dg = list(model.get_dataset_groups().values())[0]
    dg.set_parameters(scheme.parameters)
    out = {"error": None, "warned": False}
    with warnings.catch_warnings(record=True) as rec:
        warnings.simplefilter("always")
        try:
            p = DataProvider(scheme, dg)
            d, w = p.get_data("d1"), p.get_weight("d1")
            out["data"] = frac_matrix(d)
            out["weight"] = None if w is None else frac_matrix(w)
            out["global_dimension"] = p._global_dimensions["d1"]
        except Exception as e:  # noqa: BLE001
            out["error"] = f"{type(e).__name__}: {str(e)[:100]}"
    out["warned"] = any("Ignoring model weight" in str(r.message) for r in rec)
    out["caller_modified"] = any(a.shape != b.shape or not (a == b).all() for a, b in zip(before, bases))
    return out


def layout_line(case):
    lay = case["layout"]
    stored = lambda m, order: m if order == "mg" else [list(r) for r in zip(*m)]   # noqa: E731
    w = "none"
    if lay["weight"] is not None:
        w = core.lst([core.strs(dims_of(lay["weight_order"])), mat(stored(lay["weight"], lay["weight_order"]))])
    mw = model_weight_matrix(lay, case["weights"])
    return "layout {} {} {} {} {}".format(core.enc("model"), core.strs(dims_of(lay["data_order"])),
                                          mat(stored(lay["data"], lay["data_order"])), w, "none" if mw is None else mat(mw))


def judge_layout(ck, case, real, ans):
    lay = case["layout"]
    tag = f"data={lay['data_order']},weight={case['wkind']},mw={'y' if case['weights'] else 'n'}"
    ck.count("layout:combo:" + tag)
    ck.count("layout:dtype:" + lay["dtype"])
    ck.count("layout:buffer:" + lay["buf"])
    nontrivial = any(v != 0 for r in lay["data"] for v in r) and len(lay["data"]) * len(lay["data"][0]) > 1
    ck.case(("layout", json.dumps(case, sort_keys=True)), nontrivial)
    payload = {"layout_case": case}
    if real["caller_modified"]:
        ck.violation("layout:caller-array-modified", "DataProvider.__init__ modified the caller's data / weight buffer", payload)
    if not ans.startswith("ok "):
        raise core.HarnessError(f"model rejected layout line: {ans!r} for {layout_line(case)!r}")
    parts = dict(p.split("=", 1) for p in ans[3:].split(" "))
    m_data = parse_mat(core.parse_tree(parts["data"])[0])
    m_weight = None if parts["weight"] == "none" else parse_mat(core.parse_tree(parts["weight"])[0])
    if real["error"]:
        float_weight = (lay["weight"] is not None and not lay["wdtype"].startswith("int")) or (lay["weight"] is None and case["weights"])
        if lay["dtype"].startswith("int") and float_weight and real["error"].startswith("UFuncTypeError"):
            ck.count("layout:real-raises:integer-data-float-weight(UFuncTypeError)")
            if REPORT_INT_DATA_DEFECT:
                ck.violation("provider-raises:integer-data-float-weight", "DataProvider.__init__ raises UFuncTypeError for integer "
                             "data with a float weight (`data *= weight`)", {**payload, "error": real["error"]})
            return
        ck.disagree("layout:real-raises", f"DataProvider raised {real['error']}, model answers {ans[:80]}", payload)
        return
    if real["global_dimension"] != "global":
        ck.disagree("layout:global-dimension", f"inferred global dimension {real['global_dimension']!r}", payload)
    if real["data"] != m_data:
        ck.disagree("layout:data", f"get_data differs from the model: real {real['data']} model {m_data}", payload)
    if real["weight"] != m_weight:
        ck.disagree("layout:weight", f"get_weight differs from the model: real {real['weight']} model {m_weight}", payload)
    if bool(real["warned"]) != bool(lay["weight"] is not None and case["weights"]):
        ck.disagree("layout:warning", f"'Ignoring model weight' warning issued={real['warned']}", payload)
    if lay["weight"] is not None and case["weights"]:
        ck.count("layout:dataset-weight-wins")


def layout_correspondence(ck, cases=None):
    if cases is None:
        cases = []
        combos = [(o, w, mw, dt, b) for o in ORDERS for w in WEIGHT_KINDS for mw in (False, True) for dt in DTYPES for b in BUFFERS]
        for c in combos:                                   # every combination once …
            cases.append(rand_layout_case(ck.rng, c))
        for _ in range(ck.n(300, 4000)):                   # … and random ones
            cases.append(rand_layout_case(ck.rng))
    reals = [real_layout(c) for c in cases]
    answers = core.lean_driver(PROP, [layout_line(c) for c in cases])
    for c, r, a in zip(cases, reals, answers):
        judge_layout(ck, c, r, a)
    # the ops answer bad-op on malformed lines (never a default)
    bad = core.lean_driver(PROP, ["layout model [model,global] [[1]] none", "layout model [model,global] [[x]] none none",
                                  "linkable maybe [] []", "linkable none [[F,model]] []", "layout model [model] [[1]] none none"])
    if bad != ["bad-op"] * 4 + ["err StopIteration"]:
        raise core.HarnessError(f"layout ops: malformed lines answered {bad}")


# --------------------------------------------------------------------------------------------
# (2) layout invariance of the real objective
# --------------------------------------------------------------------------------------------
VARIATIONS = ["flip-data", "flip-weight", "flip-both", "noncontiguous", "float32", "all"]


def _f32_exact(m):
    a = np.array(m, dtype=np.float64)
    return bool((a.astype(np.float32).astype(np.float64) == a).all()) and bool((np.abs(a) < 2 ** 10).all())


def vary_layout(rng, ds, variation):
    """dataset of the spec -> layout dict of the same logical content under `variation`; None if not applicable"""
    base_order = ds.get("dims_order", "mg")
    other = "gm" if base_order == "mg" else "mg"
    lay = {"data": ds["data"], "weight": ds.get("weight"), "model_axis": ds["model_axis"], "global_axis": ds["global_axis"],
           "data_order": base_order, "weight_order": base_order, "dtype": "float64", "wdtype": "float64", "buf": "C", "wbuf": "C"}
    if variation in ("flip-data", "flip-both", "all"):
        lay["data_order"] = other
    if variation in ("flip-weight", "all"):
        lay["weight_order"] = other if variation == "flip-weight" else rng.choice(ORDERS)
    if variation == "flip-both":
        lay["weight_order"] = other
    if variation in ("noncontiguous", "all"):
        lay["buf"] = rng.choice(["F", "strided", "tview"])
        lay["wbuf"] = rng.choice(["F", "strided", "tview"])
    if variation in ("float32", "all"):
        # only when data, weight and every product are exactly representable
        ok = _f32_exact(ds["data"]) and (ds.get("weight") is None or _f32_exact(ds["weight"]))
        if ok:
            lay["dtype"] = "float32"
            lay["wdtype"] = rng.choice(["float32", "float64"])
        elif variation == "float32":
            return None
    if variation == "flip-weight" and ds.get("weight") is None:
        return None
    return lay


def evaluate(spec, layouts=None):
    """penalty vector of the real objective at the initial parameters; `layouts`: {label: layout dict} replaces scheme.data"""
    from glotaran.optimization.optimizer import Optimizer
    scheme, model, parameters, data = gen_scheme.build(spec)
    bases, before = [], []
    if layouts:
        for label, lay in layouts.items():
            dset, bs = make_dataset(lay)
            scheme.data[label] = dset
            bases += bs
        before = [b.copy() for b in bases]
    with warnings.catch_warnings():
        warnings.simplefilter("ignore")
        try:
            opt = Optimizer(scheme, verbose=False, raise_exception=True)
            labels, x0, _, _ = scheme.parameters.get_label_value_and_bounds_arrays(exclude_non_vary=True)
            opt._free_parameter_labels = labels
            pen = np.asarray(opt.objective_function(np.array(x0, dtype=float)), dtype=float).ravel()
        except Exception as e:  # noqa: BLE001
            return {"error": f"{type(e).__name__}: {str(e)[:100]}"}
    modified = any(not (a == b).all() for a, b in zip(before, bases))
    return {"error": None, "penalty": pen, "modified": modified}


def same_vector(u, v, rtol=1e-12):
    if len(u) != len(v):
        return False
    scale = max(1.0, float(np.max(np.abs(u))) if len(u) else 1.0)
    return bool(np.all(np.abs(u - v) <= rtol * scale))


def invariance_case(ck, spec, variations):
    base = evaluate(spec)
    ck.oracle_evals += 1
    if base["error"]:
        ck.count("layout:oracle:base-error:" + base["error"].split(":")[0])
        return
    for var in variations:
        layouts = {}
        for ds in spec["datasets"]:
            lay = vary_layout(ck.rng, ds, var)
            if lay is not None:
                layouts[ds["label"]] = lay
        if not layouts:
            ck.count("layout:oracle:not-applicable:" + var)
            continue
        res = evaluate(spec, layouts)
        ck.oracle_evals += 1
        ck.count("layout:oracle:" + var)
        nontrivial = bool(np.any(np.abs(base["penalty"]) > 1e-12))
        ck.case(("layout-invariance", var, json.dumps(spec, sort_keys=True, default=str), json.dumps(layouts, sort_keys=True)), nontrivial)
        payload = {"spec": spec, "layout_variation": var, "layouts": layouts}
        if res["error"]:
            ck.violation(f"objective-differs:layout:{var}:raises", f"the objective raises {res['error']} after re-laying-out the datasets "
                         f"({var}; same logical content)", payload)
            continue
        if res["modified"]:
            ck.violation("layout:caller-array-modified", f"evaluating the objective modified the caller's data / weight buffer ({var})", payload)
        single = any(l["dtype"] == "float32" for l in layouts.values())
        if single and not same_vector(base["penalty"], res["penalty"]) and same_vector(base["penalty"], res["penalty"], 1e-5):
            ck.count("layout:oracle:float32-single-precision-difference(1e-12<rel<1e-5)")
            if REPORT_FLOAT32_PRECISION:
                ck.violation("objective-differs:layout:float32:single-precision", "float32 data (exactly representable values) give a "
                             "penalty vector that differs at single precision from the float64 layout",
                             {**payload, "plain": [float(v) for v in base["penalty"]], "relaid": [float(v) for v in res["penalty"]]})
            continue
        if not same_vector(base["penalty"], res["penalty"]):
            ck.violation(f"objective-differs:layout:{var}", f"the penalty vector changes when the datasets are stored in another layout "
                         f"({var}; same logical content)", {**payload, "plain": [float(v) for v in base["penalty"]],
                                                            "relaid": [float(v) for v in res["penalty"]]})


def invariance_oracle(ck, n):
    for i in range(n):
        spec = gen_scheme.rand_spec(ck.rng)
        if i % 3 == 0:   # make dataset weights frequent: they are what the orientation is about
            for ds in spec["datasets"]:
                if ds.get("weight") is None and ck.rng.random() < 0.7:
                    ds["weight"] = [[ck.rng.choice([1.0, 2.0, 0.5, 4.0]) for _ in ds["global_axis"]] for _ in ds["model_axis"]]
        has_w = any(ds.get("weight") is not None for ds in spec["datasets"])
        pool = [v for v in VARIATIONS if has_w or v != "flip-weight"]
        invariance_case(ck, spec, ck.rng.sample(pool, 2))
        if ck.violations:
            break


# --------------------------------------------------------------------------------------------
# (3) link_clp: null
# --------------------------------------------------------------------------------------------
_LINK_MODEL = None


def link_model_class():
    """VerifModel's megacomplexes plus one with another model dimension ('model2') — defined here, no shared file edited"""
    global _LINK_MODEL
    if _LINK_MODEL is None:
        gen_scheme.model_class()
        from glotaran.model import Megacomplex, Model, megacomplex
        from harness import verif_megacomplex as vm

        @megacomplex()
        class VerifTableMegacomplexM2(Megacomplex):
            type: str = "verif-table-m2"
            dimension: str = "model2"
            key: str

            def calculate_matrix(self, dataset_model, global_axis, model_axis, **kwargs):
                return ["s1"], np.ones((len(model_axis), 1))

            def finalize_data(self, dataset_model, dataset, is_full_model=False, as_global=False):
                pass

        _LINK_MODEL = Model.create_class_from_megacomplexes([vm.VerifTableMegacomplex, vm.VerifGlobalTableMegacomplex, VerifTableMegacomplexM2])
    return _LINK_MODEL


def rand_link_case(rng):
    n = rng.choice([1, 2, 2, 3, 4])
    two_groups = n > 1 and rng.random() < 0.5
    gdim_pool = rng.choice([["global"], ["global"], ["global", "global2"], ["global2"]])
    dsets = []
    p_m2 = rng.choice([0.0, 0.0, 0.3, 1.0])
    p_glob = rng.choice([0.0, 0.0, 0.3])
    p_extra = rng.choice([0.0, 0.0, 0.3])
    bare = rng.random() < 0.06      # no dataset has a coordinate on its global dimension: zero "global dimensions"
    for i in range(n):
        group = "g1" if (not two_groups or i == 0 or rng.random() < 0.5) else "g2"
        d = {"label": f"d{i+1}", "group": group, "nm": rng.randint(1, 3), "ng": rng.randint(1, 3),
             "model_dim": "model2" if rng.random() < p_m2 else "model", "global_dim": rng.choice(gdim_pool),
             "has_global": rng.random() < p_glob, "order": rng.choice(ORDERS), "extra": [], "bare": bare}
        if not bare and rng.random() < p_extra:
            d["extra"].append(rng.choice(["scalar", "along-global", "along-model"]))
        dsets.append(d)
    groups = {"g1": {"link_clp": None, "residual_function": "variable_projection"}}
    if any(d["group"] == "g2" for d in dsets):
        groups["g2"] = {"link_clp": rng.choice([None, True, False]), "residual_function": "variable_projection"}
    return {"datasets": dsets, "groups": groups}


def coords_of(d):
    """coordinate names of the dataset's `data` variable, by construction"""
    names = [n for n in dims_of(d["order"], d["model_dim"], d["global_dim"]) if not (d.get("bare") and n == d["global_dim"])]
    for e in d["extra"]:
        names.append({"scalar": "temperature", "along-global": "wavenumber", "along-model": "channel"}[e])
    return names


def build_link_scheme(case):
    from glotaran.parameter import Parameters
    from glotaran.project import Scheme
    cls = link_model_class()
    mcs, dss, data = {}, {}, {}
    for d in case["datasets"]:
        key = f"{d['label']}#m"
        mcs[key] = {"type": "verif-table" if d["model_dim"] == "model" else "verif-table-m2", "key": key}
        gen_scheme.TABLES[key] = {"labels": ["s1"], "index_dependent": False, "base": [[1.0] for _ in range(d["nm"])], "pars": None, "scale": None}
        item = {"group": d["group"], "megacomplex": [key]}
        if d["has_global"]:
            gkey = f"{d['label']}#g"
            mcs[gkey] = {"type": "verif-table-global", "key": gkey}
            gen_scheme.TABLES[gkey] = {"labels": ["g1"], "index_dependent": False, "base": [[1.0] for _ in range(d["ng"])], "pars": None, "scale": None}
            item["global_megacomplex"] = [gkey]
        dss[d["label"]] = item
        lay = {"data": [[float(1 + m + 2 * g) for g in range(d["ng"])] for m in range(d["nm"])], "weight": None,
               "model_axis": [float(i) for i in range(d["nm"])], "global_axis": [float(i + 1) for i in range(d["ng"])],
               "data_order": d["order"], "dtype": "float64", "buf": "C"}
        extra = {}
        for e in d["extra"]:
            if e == "scalar":
                extra["temperature"] = ((), 77.0)
            elif e == "along-global":
                extra["wavenumber"] = ((d["global_dim"],), np.arange(d["ng"], dtype=float) * 10.0)
            else:
                extra["channel"] = ((d["model_dim"],), np.arange(d["nm"], dtype=float) + 100.0)
        data[d["label"]], _ = make_dataset(lay, d["model_dim"], d["global_dim"], extra, bool(d.get("bare")))
    model = cls(dataset_groups={g: {k: v for k, v in o.items() if v is not None} for g, o in case["groups"].items()},
                megacomplex=mcs, dataset=dss)
    parameters = Parameters.from_dict({"p": [["1", 1.0]]})
    scheme = Scheme(model=model, parameters=parameters, data=data, maximum_number_function_evaluations=1)
    return scheme, model


def real_linkable(case):
    from glotaran.optimization.data_provider import DataProviderLinked
    from glotaran.optimization.optimization_group import OptimizationGroup
    scheme, model = build_link_scheme(case)
    out = {}
    for gname, dg in model.get_dataset_groups().items():
        if case["groups"][gname]["link_clp"] is not None and gname != "g1":
            pass
        with warnings.catch_warnings():
            warnings.simplefilter("ignore")
            try:
                og = OptimizationGroup(scheme, dg)
                out[gname] = ("og", isinstance(og._data_provider, DataProviderLinked))
            except Exception as e:  # noqa: BLE001
                try:
                    dg.set_parameters(scheme.parameters)
                    lc = dg.link_clp
                    out[gname] = ("direct:" + type(e).__name__, bool(dg.is_linkable(scheme.parameters, scheme.data)) if lc is None else bool(lc))
                except Exception as e2:  # noqa: BLE001
                    out[gname] = ("error", f"{type(e2).__name__}: {str(e2)[:100]}")
    return out


def linkable_lines(case):
    """one line per group, in the order of model.get_dataset_groups() (= first appearance among the datasets)"""
    order = []
    for d in case["datasets"]:
        if d["group"] not in order:
            order.append(d["group"])
    all_coords = core.lst(core.strs(coords_of(d)) for d in case["datasets"])
    lines = []
    for g in order:
        lc = case["groups"][g]["link_clp"]
        mem = [d for d in case["datasets"] if d["group"] == g]
        lines.append("linkable {} {} {}".format(
            "none" if lc is None else core.bool_(lc),
            core.lst(core.lst([core.bool_(d["has_global"]), core.enc(d["model_dim"]), core.strs(coords_of(d))]) for d in mem), all_coords))
    return order, lines


def link_correspondence(ck, cases=None):
    if cases is None:
        cases = [rand_link_case(ck.rng) for _ in range(ck.n(300, 3000))]
    reals, lines, index = [], [], []
    for c in cases:
        reals.append(real_linkable(c))
        order, ls = linkable_lines(c)
        for g, l in zip(order, ls):
            index.append((len(reals) - 1, g))
            lines.append(l)
    answers = core.lean_driver(PROP, lines)
    for (ci, g), a in zip(index, answers):
        c, real = cases[ci], reals[ci]
        if a not in ("T", "F"):
            raise core.HarnessError(f"model rejected a linkable line: {a!r}")
        how, val = real.get(g, ("missing", None))
        mem = [d for d in c["datasets"] if d["group"] == g]
        lc = c["groups"][g]["link_clp"]
        ck.count(f"layout:link:link_clp={lc}:{'linked' if a == 'T' else 'unlinked'}")
        ck.count("layout:link:how=" + how.split(":")[0])
        if lc is None:
            if any(d["has_global"] for d in mem):
                ck.count("layout:link:auto:global-model")
            elif len({d["model_dim"] for d in mem}) > 1:
                ck.count("layout:link:auto:mixed-model-dimension")
            elif len({x for d in mem for x in coords_of(d)} - {mem[0]["model_dim"]}) == 1 and a == "F":
                ck.count("layout:link:auto:unlinked-because-of-foreign-dataset")
            if any(d.get("bare") for d in c["datasets"]):
                ck.count("layout:link:auto:no-global-coordinate")
            if any(d["extra"] for d in c["datasets"]):
                ck.count("layout:link:auto:extra-coordinate-somewhere")
        ck.case(("linkable", g, json.dumps(c, sort_keys=True)), lc is None and len(c["datasets"]) > 1)
        payload = {"link_case": c, "group": g}
        if how == "error":
            ck.disagree("layout:link:real-raises", f"is_linkable raised {val}", payload)
        elif val != (a == "T"):
            ck.disagree("layout:link", f"group {g}: real choice linked={val} ({how}), model {a}", payload)


# --------------------------------------------------------------------------------------------
def run_layout(ck):
    gen_scheme.model_class()
    layout_correspondence(ck)
    link_correspondence(ck)
    invariance_oracle(ck, ck.n(100, 1000))


def search_layout(ck):
    gen_scheme.model_class()
    invariance_oracle(ck, ck.n(300, 3000))


def replay_layout(ck, case):
    """re-run recorded layout cases (payload keys `layout_case`, `link_case`, `layout_variation`)"""
    gen_scheme.model_class()
    items = [case.get("case", {})] + [d.get("case", {}) for d in case.get("disagreements", [])]
    for it in items:
        if "layout_case" in it:
            layout_correspondence(ck, [it["layout_case"]])
        if "link_case" in it:
            link_correspondence(ck, [it["link_case"]])
        if "layout_variation" in it:
            spec = copy.deepcopy(it["spec"])
            base, res = evaluate(spec), evaluate(spec, it["layouts"])
            if not base["error"] and (res["error"] or not same_vector(base["penalty"], res["penalty"])):
                ck.violation(f"objective-differs:layout:{it['layout_variation']}", "the penalty vector changes when the datasets are "
                             "stored in another layout (same logical content)", it)
