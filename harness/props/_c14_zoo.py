"""C14 — model zoo over the BUILTIN megacomplexes (JSON-able case descriptions, so that they can be replayed).

A zoo case:
  {"kind": "zoo",
   "model": model dict (k_matrix entries as [[to, from, parameter], ...]),
   "parameters": [[label, value, {"vary": bool, "non-negative": bool}], ...],
   "data": {dataset label: {"time": [...], "spectral": [...],
                            "clp": {"labels": [...], "rows": [[value per label] per spectral point]} | None,
                            "truth": {"labels": [...], "rows": ...}   # generating clps / dataset scale
                            "scale": float | None}},
   "tol": link tolerance, "tags": [...], "recover": [labels varied in the recovery test] | None}
"""
from __future__ import annotations

import copy

import numpy as np

_CLS = None


def model_class():
    global _CLS
    if _CLS is None:
        from glotaran.builtin.megacomplexes.baseline import BaselineMegacomplex
        from glotaran.builtin.megacomplexes.clp_guide import ClpGuideMegacomplex
        from glotaran.builtin.megacomplexes.coherent_artifact import CoherentArtifactMegacomplex
        from glotaran.builtin.megacomplexes.damped_oscillation import DampedOscillationMegacomplex
        from glotaran.builtin.megacomplexes.decay import DecayMegacomplex
        from glotaran.builtin.megacomplexes.decay import DecayParallelMegacomplex
        from glotaran.builtin.megacomplexes.decay import DecaySequentialMegacomplex
        from glotaran.builtin.megacomplexes.pfid import PFIDMegacomplex
        from glotaran.builtin.megacomplexes.spectral import SpectralMegacomplex
        from glotaran.model import Model

        _CLS = Model.create_class_from_megacomplexes([
            DecayMegacomplex, DecayParallelMegacomplex, DecaySequentialMegacomplex, SpectralMegacomplex,
            BaselineMegacomplex, CoherentArtifactMegacomplex, DampedOscillationMegacomplex, ClpGuideMegacomplex,
            PFIDMegacomplex])
    return _CLS


def build(case):
    """case -> (model, parameters)"""
    from glotaran.parameter import Parameters

    md = copy.deepcopy(case["model"])
    for km in md.get("k_matrix", {}).values():
        km["matrix"] = {(t, f): p for t, f, p in km["matrix"]}
    model = model_class()(**md)
    parameters = Parameters.from_list([[l, v, dict(o)] for l, v, o in case["parameters"]])
    return model, parameters


def coords_of(case, label, order=None):
    d = case["data"][label]
    c = {"time": np.array(d["time"], dtype=float), "spectral": np.array(d["spectral"], dtype=float)}
    if order == "global-first":
        c = {"spectral": c["spectral"], "time": c["time"]}
    return c


def clp_array(d, rng=None, variant=None):
    """xarray clp of a dataset description (variant: None | 'transposed' | 'shifted-coords')"""
    import xarray as xr

    if d.get("clp") is None:
        return None
    labels, rows = d["clp"]["labels"], np.array(d["clp"]["rows"], dtype=float).reshape(len(d["clp"]["rows"]), len(d["clp"]["labels"]))
    gax = np.array(d["spectral"], dtype=float)
    if rows.shape[0] != gax.size:
        gax = np.arange(rows.shape[0], dtype=float)
    if variant == "shifted-coords":
        gax = gax + 1000.0
    da = xr.DataArray(rows, coords=[("spectral", gax), ("clp_label", labels)])
    if variant == "transposed":
        da = da.transpose("clp_label", "spectral")
    return da


# --------------------------------------------------------------------------------------------------
# random cases
# --------------------------------------------------------------------------------------------------
def _irregular(rng, start, n, lo, hi):
    xs, x = [], start
    for _ in range(n):
        xs.append(round(x, 6))
        x += rng.uniform(lo, hi)
    return xs


def _time_axis(rng, n, t_end, neg=True):
    """irregular, strictly increasing, a few points before zero"""
    start = -rng.uniform(0.2, 1.0) if neg else 0.0
    steps = [rng.uniform(0.5, 1.5) for _ in range(n - 1)]
    # denser at early times
    steps = [s * (0.3 + 1.7 * i / max(1, n - 2)) for i, s in enumerate(steps)]
    total = sum(steps)
    xs, x = [round(start, 6)], start
    for s in steps:
        x += s * (t_end - start) / total
        xs.append(round(x, 6))
    return xs


class _Params:
    def __init__(self):
        self.items = []

    def add(self, label, value, vary=True, nonneg=False):
        self.items.append([label, float(value), {"vary": bool(vary), "non-negative": bool(nonneg)}])
        return label


def rand_case(rng, *, recover=False, small=True, wide=False):
    """one random builtin-megacomplex case.  `recover`: restrict to the core kinetic configurations (sequential / parallel
    decay, no or gaussian IRF, no dataset scale).  `wide`: every configuration of the zoo that is not a full model, with
    every varying parameter listed in `recover` (the recovery stream decides by its stated rule which of them it tests)."""
    P = _Params()
    tags = []
    n_ds = rng.choice([1, 1, 2, 2, 3]) if not recover else rng.choice([1, 1, 2])
    full = (not recover) and (not wide) and rng.random() < 0.3
    nnls = rng.random() < 0.25
    if full or n_ds == 1:
        link = rng.choice([False, None])
    else:
        link = rng.choice([True, True, False, None])
    groups = {"default": {"link_clp": link,
                          "residual_function": "non_negative_least_squares" if nnls else "variable_projection"}}
    linked = (link is True) or (link is None and not full and n_ds > 1)
    tags.append("nnls" if nnls else "vp")
    tags.append(f"datasets={n_ds}")
    tags.append("linked" if linked else "unlinked")
    md = {"dataset_groups": {g: {k: v for k, v in o.items() if v is not None} for g, o in groups.items()},
          "megacomplex": {}, "k_matrix": {}, "initial_concentration": {}, "irf": {}, "shape": {}, "dataset": {}}
    data = {}
    n_spec = rng.randint(3, 6)
    base_spec = _irregular(rng, rng.uniform(580, 620), n_spec + 2, 4.0, 17.0)

    # shared kinetic megacomplex ---------------------------------------------------------------
    def new_decay(idx):
        kind = rng.choice(["decay-sequential", "decay-parallel", "decay"]) if not recover else rng.choice(["decay-sequential", "decay-parallel"])
        ncomp = rng.randint(1, 3)
        comps = [f"s{i+1}" for i in range(ncomp)]
        k0 = rng.uniform(1.5, 4.0)
        rates = []
        for i in range(ncomp):
            rates.append(P.add(f"k{idx}_{i+1}", k0, vary=True, nonneg=rng.random() < 0.3))
            k0 = k0 / rng.uniform(3.0, 6.0)
        name = f"dec{idx}"
        extra = {}
        if kind == "decay":
            sub = rng.choice(["chain", "branch", "parallel-j", "back"]) if ncomp > 1 else "parallel-j"
            tags.append("general:" + sub)
            if sub == "chain":
                mat = [[comps[i + 1], comps[i], rates[i]] for i in range(ncomp - 1)] + [[comps[-1], comps[-1], rates[-1]]]
                j = [1.0] + [0.0] * (ncomp - 1)
            elif sub == "branch":
                mat = [[comps[i], comps[0], rates[i - 1]] for i in range(1, ncomp)]
                extra_rates = [P.add(f"k{idx}_d{i+1}", rng.uniform(0.05, 0.3) * (i + 1), nonneg=False) for i in range(1, ncomp)]
                mat += [[comps[i], comps[i], extra_rates[i - 1]] for i in range(1, ncomp)]
                # last listed rate feeds nothing: use it as decay of the first compartment
                mat += [[comps[0], comps[0], rates[-1]]]
                j = [1.0] + [0.0] * (ncomp - 1)
            elif sub == "back":
                kb = P.add(f"k{idx}_b", rng.uniform(0.1, 0.5))
                mat = [[comps[1], comps[0], rates[0]], [comps[0], comps[1], kb], [comps[1], comps[1], rates[1]]]
                for i in range(2, ncomp):
                    mat.append([comps[i], comps[i], rates[i]])
                j = [1.0] + [0.0] * (ncomp - 1)
                if ncomp > 2:
                    j[2] = 1.0
            else:
                mat = [[c, c, r] for c, r in zip(comps, rates)]
                j = [rng.choice([1.0, 2.0, 0.5]) for _ in comps]
            md["k_matrix"][f"km{idx}"] = {"matrix": mat}
            jl = [P.add(f"j{idx}_{i+1}", v, vary=False) for i, v in enumerate(j)]
            md["initial_concentration"][f"j{idx}"] = {"compartments": comps, "parameters": jl}
            md["megacomplex"][name] = {"type": "decay", "k_matrix": [f"km{idx}"]}
            extra["initial_concentration"] = f"j{idx}"
        else:
            md["megacomplex"][name] = {"type": kind, "compartments": comps, "rates": rates}
        tags.append(kind)
        return name, comps, extra, min(v for l, v, _ in P.items if l.startswith(f"k{idx}_") and not l.endswith("b"))

    shared = None
    for di in range(n_ds):
        dl = f"ds{di+1}"
        dsd = {"group": "default", "megacomplex": []}
        labels = []
        # clp-guide dataset (only as an additional, linked dataset that shares a label with the first)
        if di > 0 and linked and not full and not recover and rng.random() < 0.25 and data["ds1"]["labels"] \
                and not data["ds1"].get("guide"):
            target = rng.choice([l for l in data["ds1"]["labels"] if not l.endswith("_baseline")] or data["ds1"]["labels"])
            md["megacomplex"][f"guide{di}"] = {"type": "clp-guide", "dimension": "time", "target": target}
            dsd["megacomplex"] = [f"guide{di}"]
            md["dataset"][dl] = dsd
            data[dl] = {"time": [0.0], "spectral": list(data["ds1"]["spectral"]), "labels": [target], "guide": True}
            tags.append("clp-guide")
            continue
        # decay part
        has_decay = recover or rng.random() < 0.85
        kmin = 1.0
        if has_decay:
            if shared is not None and rng.random() < 0.6:
                name, comps, extra, kmin = shared
                tags.append("shared-kinetics")
            else:
                name, comps, extra, kmin = new_decay(di + 1)
                if shared is None:
                    shared = (name, comps, extra, kmin)
            dsd["megacomplex"].append(name)
            dsd.update(extra)
            labels += [c for c in comps if c not in labels]
        pfid_pre = 0
        # irf
        r = rng.random()
        irf_kind = "none"
        if recover:
            irf_kind = rng.choice(["none", "gaussian"])
        elif r < 0.3:
            irf_kind = "none"
        elif r < 0.55:
            irf_kind = "gaussian"
        elif r < 0.7:
            irf_kind = "multi-gaussian"
        elif r < 0.88:
            irf_kind = "spectral-gaussian"
        else:
            irf_kind = "shifted"
        tags.append("irf:" + irf_kind)
        n_time = rng.randint(9, 16) if small else rng.randint(30, 50)
        t_end = min(4.0 / kmin, 40.0) if has_decay else 3.0
        spec = sorted(rng.sample(base_spec, n_spec)) if (not linked or di == 0 or rng.random() < 0.5) else list(data["ds1"]["spectral"])
        if irf_kind != "none":
            c = P.add(f"irf{di+1}_c", rng.uniform(0.05, 0.4), vary=True)
            w = P.add(f"irf{di+1}_w", rng.uniform(0.05, 0.25), vary=True)
            if irf_kind == "gaussian":
                md["irf"][f"irf{di+1}"] = {"type": "gaussian", "center": c, "width": w}
            elif irf_kind == "multi-gaussian":
                w2 = P.add(f"irf{di+1}_w2", rng.uniform(0.3, 0.6), vary=False)
                sc1 = P.add(f"irf{di+1}_s1", 1.0, vary=False)
                sc2 = P.add(f"irf{di+1}_s2", rng.uniform(0.1, 0.5), vary=False)
                md["irf"][f"irf{di+1}"] = {"type": "multi-gaussian", "center": [c], "width": [w, w2], "scale": [sc1, sc2]}
            elif irf_kind == "spectral-gaussian":
                dc = P.add(f"irf{di+1}_dc", round(sum(spec) / len(spec), 3), vary=False)
                d1 = P.add(f"irf{di+1}_d1", rng.uniform(-0.5, 0.5), vary=False)
                d2 = P.add(f"irf{di+1}_d2", rng.uniform(-0.2, 0.2), vary=False)
                item = {"type": "spectral-gaussian", "center": c, "width": w, "dispersion_center": dc,
                        "center_dispersion_coefficients": [d1, d2]}
                if rng.random() < 0.5:
                    item["width_dispersion_coefficients"] = [P.add(f"irf{di+1}_wd1", rng.uniform(0.0, 0.1), vary=False)]
                md["irf"][f"irf{di+1}"] = item
            else:
                md["irf"][f"irf{di+1}"] = {"type": "gaussian", "center": c, "width": w, "shift": []}
            dsd["irf"] = f"irf{di+1}"
        if not recover:
            if irf_kind != "none" and rng.random() < 0.35:
                order = rng.randint(1, 3)
                md["megacomplex"][f"coh{di+1}"] = {"type": "coherent-artifact", "order": order}
                if rng.random() < 0.4:
                    md["megacomplex"][f"coh{di+1}"]["width"] = P.add(f"coh{di+1}_w", rng.uniform(0.1, 0.3), vary=False)
                dsd["megacomplex"].append(f"coh{di+1}")
                labels += [f"coherent_artifact_{i}_coh{di+1}" for i in range(1, order + 1)]
                tags.append("coherent-artifact")
            if irf_kind != "none" and not full and rng.random() < 0.22:
                # (not in full models: the extra early time points make coherent-artifact x spectral-shape products of
                # ~1e-290 whose squares are denormal, and LAPACK then needs seconds per factorisation)
                # perturbed free induction decay: resonances (cm-1) inside the spectral window, negative dephasing rates,
                # signal before the IRF -> the time axis gets extra points at negative times (below)
                npf = rng.randint(1, 2)
                pl = [f"pf{di+1}{chr(97+i)}" for i in range(npf)]
                lo_, hi_ = min(spec), max(spec)
                fr = [P.add(f"pff{di+1}_{i+1}", round(lo_ + (hi_ - lo_) * (i + 0.5 + rng.uniform(-0.3, 0.3)) / npf, 3), vary=True) for i in range(npf)]
                rt = [P.add(f"pfr{di+1}_{i+1}", -rng.uniform(0.4, 1.5), vary=True) for i in range(npf)]
                md["megacomplex"][f"pfid{di+1}"] = {"type": "pfid", "labels": pl, "frequencies": fr, "rates": rt}
                dsd["megacomplex"].append(f"pfid{di+1}")
                labels += [f"{l}_cos" for l in pl] + [f"{l}_sin" for l in pl]
                tags.append("pfid")
                pfid_pre = 2 * npf + 3
            if rng.random() < 0.35 or not dsd["megacomplex"]:
                nosc = rng.randint(1, 2)
                ol = [f"osc{di+1}{chr(97+i)}" for i in range(nosc)]
                fr = [P.add(f"of{di+1}_{i+1}", rng.uniform(15, 60) * (i + 1), vary=True) for i in range(nosc)]
                rt = [P.add(f"or{di+1}_{i+1}", rng.uniform(0.2, 1.0), vary=True) for i in range(nosc)]
                md["megacomplex"][f"doas{di+1}"] = {"type": "damped-oscillation", "labels": ol, "frequencies": fr, "rates": rt}
                dsd["megacomplex"].append(f"doas{di+1}")
                labels += [f"{l}_cos" for l in ol] + [f"{l}_sin" for l in ol]
                tags.append("damped-oscillation" + ("+irf" if irf_kind != "none" else ""))
                t_end = min(t_end, 6.0)
            if rng.random() < 0.3:
                md["megacomplex"].setdefault("base", {"type": "baseline", "dimension": "time"})
                dsd["megacomplex"].append("base")
                labels.append(f"{dl}_baseline")
                tags.append("baseline")
            if len(dsd["megacomplex"]) > 1 and rng.random() < 0.3:
                dsd["megacomplex_scale"] = [P.add(f"ms{di+1}_{i+1}", rng.choice([1.0, 2.0, 0.5, 1.5]), vary=False)
                                            for i in range(len(dsd["megacomplex"]))]
                tags.append("megacomplex-scale")
        scale = None
        if rng.random() < 0.4 and not recover:
            scale = rng.choice([2.0, 0.5, 4.0, 0.25])
            dsd["scale"] = P.add(f"scale{di+1}", scale, vary=False)
            tags.append("dataset-scale")
        n_time = max(n_time, len(labels) + 3)
        if full and len(spec) < len(labels) + 1:
            spec = _irregular(rng, rng.uniform(580, 620), len(labels) + 1, 4.0, 17.0)
        if irf_kind == "shifted":
            md["irf"][f"irf{di+1}"]["shift"] = [P.add(f"irf{di+1}_sh{i+1}", rng.uniform(-0.1, 0.1), vary=False) for i in range(len(spec))]
        time = _time_axis(rng, n_time, t_end, neg=True)
        if pfid_pre:
            pre = sorted({round(-rng.uniform(0.05, 2.5), 6) for _ in range(pfid_pre)})
            time = sorted(set(pre) | set(time))
        md["dataset"][dl] = dsd
        data[dl] = {"time": time, "spectral": spec, "labels": labels, "scale": scale}

    # global side ------------------------------------------------------------------------------------
    if full:
        tags.append("full-model")
        for dl, d in data.items():
            shapes = {}
            order = list(d["labels"])
            rng.shuffle(order)
            for l in order:
                sh = f"sh_{dl}_{len(shapes)}"
                # at most one constant shape per dataset: two would make the global matrix rank deficient
                kind = rng.choice(["gaussian", "gaussian", "skewed-gaussian", "one"])
                if kind == "one" and any(md["shape"][x]["type"] == "one" for x in shapes.values()):
                    kind = "gaussian"
                if kind == "one":
                    md["shape"][sh] = {"type": "one"}
                else:
                    item = {"type": kind,
                            "amplitude": P.add(f"{sh}_a", rng.uniform(1, 9), vary=False),
                            "location": P.add(f"{sh}_l", rng.uniform(d["spectral"][0], d["spectral"][-1]), vary=False),
                            "width": P.add(f"{sh}_w", rng.uniform(10, 40), vary=False)}
                    if kind == "skewed-gaussian":
                        item["skewness"] = P.add(f"{sh}_s", rng.uniform(-0.5, 0.5), vary=False)
                    md["shape"][sh] = item
                shapes[l] = sh
            md["megacomplex"][f"spec_{dl}"] = {"type": "spectral", "shape": shapes}
            md["dataset"][dl]["global_megacomplex"] = [f"spec_{dl}"]
            d["clp"] = None
            d["truth"] = None
            d["global_labels"] = order
    else:
        # generating clps: truth(l, x) = generating / scale, shared by the datasets of a linked group
        truth_fn = {}

        def truth(l, x):
            key = (l, round(x, 6)) if linked else None
            if key is not None and key in truth_fn:
                return truth_fn[key]
            v = rng.uniform(0.0, 4.0) if nnls else rng.uniform(-3.0, 4.0)
            if rng.random() < 0.08:
                v = 0.0
            v = round(v, 4)
            if key is not None:
                truth_fn[key] = v
            return v

        for dl, d in data.items():
            s = d.get("scale") or 1.0
            rows_truth = [[truth(l, x) for l in d["labels"]] for x in d["spectral"]]
            order = list(range(len(d["labels"])))
            rng.shuffle(order)
            extra = ["unused_a", "zz"][: rng.choice([0, 0, 1, 2])]
            clp_labels = [d["labels"][j] for j in order] + extra
            rows = [[row[j] * s for j in order] + [rng.uniform(-5, 5) for _ in extra] for row in rows_truth]
            if extra:
                k = rng.randrange(len(clp_labels))
                clp_labels.insert(k, clp_labels.pop())
                for r_ in rows:
                    r_.insert(k, r_.pop())
            d["clp"] = {"labels": clp_labels, "rows": rows}
            d["truth"] = {"labels": list(d["labels"]), "rows": rows_truth}
    for k in ("k_matrix", "initial_concentration", "irf", "shape"):
        if not md[k]:
            del md[k]
    vary = [l for l, v, o in P.items if o["vary"]]
    case = {"kind": "zoo", "model": md, "parameters": P.items, "data": data, "tags": sorted(set(tags)),
            "recover": vary if (recover or wide) else None}
    return case
