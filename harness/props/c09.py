"""C09 — CLP linking aligns global axes faithfully.

Correspondence: real `DataProviderLinked(scheme, group)` tables and `DataProviderLinked.align_index`
against the Lean model (exact regime: dyadic axes, data and weights, equality).
Three-way correspondence: the same alignment cases are also sent to the alignment ops of the C02 driver
(`align`, `axes`, `aligntables`, and the stacked problems of `inputs`) — the model used by C02/C03/C08/C13/C14 —
and C09 model, C02 model and real code must all agree (the equality of the two models is also a theorem,
Lemmas/C09C02.lean).  `EstimationProviderLinked.get_result` is tied by prescribing the stacked residuals.
Oracle: the clauses of the property statement evaluated directly on the real tables with exact
fractions (independent of the model), and end-to-end through a one-evaluation `optimize`.
"""
from __future__ import annotations

import hashlib
import itertools
import json
import re
from fractions import Fraction as F

from harness import core
from harness.core import enc, rat, rats, lst
from harness.props import _c09_translate as TR

PROP = "C09"
REQUIRED_THEOREMS = [
    "alignIndex_spec", "alignIndex_links_iff_possible", "alignIndex_mono", "alignment_order_preserving",
    "accumulated_axis_is_union", "assignment_is_self_or_nearest_aligned", "injective_per_dataset_or_error",
    "aligned_rows_nodup", "error_iff_some_dataset_merges", "aligned_axis_strictly_increasing",
    "assignment_total_unique", "shares_clp_iff_same_aligned_point", "every_column_once",
    "reported_under_original_coordinate", "weights_default_to_ones",
    "aligned_rows_same_length", "member_points_in_axis_order", "reported_block_is_own_block",
    "c02_alignment_model_eq_c09", "c02_alignIndex_spec", "c02_assignment_is_self_or_nearest_aligned",
    "c02_injective_per_dataset_or_error", "c02_error_iff_some_dataset_merges",
    "c02_aligned_axis_strictly_increasing", "c02_assignment_total_unique",
    "c02_shares_clp_iff_same_aligned_point", "c02_every_column_once",
    "generated_align_index_eq_model", "generated_create_aligned_global_axes_eq_model",
    "generated_align_dataset_indices_eq_model", "generated_align_data_eq_model", "generated_align_groups_eq_model",
    "generated_align_weights_eq_model", "generated_provider_eq_model", "stacked_weight_is_own_column",
    "alignment_leaves_inputs_unchanged",
]
TRUSTED = [
    "model lean/GlotaranModel/C09.lean of glotaran/optimization/data_provider.py (DataProviderLinked.align_index, "
    "create_aligned_global_axes, align_data, align_dataset_indices, align_groups, align_weights): tied to the code by "
    "regeneration - harness/props/_c09_translate.py translates the source text of these functions on every run into "
    "lean/GlotaranModel/Generated/C09Fns.lean and the theorems generated_*_eq_model prove the translations equal to the model "
    "definitions for all inputs - and by differential execution",
    "the ast->Lean translator harness/props/_c09_translate.py with its signature table (which attributes a function reads and "
    "their types) and the vocabulary lean/GlotaranModel/C09Py.lean (numpy on exact rationals: a-s, a>=s, a[mask], abs, min, "
    "argmin = first minimum, unique; dicts = association lists in insertion order; KeyError and out-of-range reads are not "
    "modelled; xarray: DataArray = values along 'global' with their coordinate, concat = outer join)",
    "xarray's outer-join concat: the joined coordinate is the sorted union of the members' coordinates and "
    "every member contributes exactly at its own coordinate values (modelled as alignedAxis/members; observed "
    "on every correspondence case)",
    "numpy: np.unique sorts and removes duplicates, argmin returns the first minimum",
    "hand-written model of the residual part of EstimationProviderLinked.get_result (resultResidual/cutBlock in "
    "lean/GlotaranModel/C09.lean), tied by differential execution with prescribed stacked residuals",
    "the alignment part of lean/GlotaranModel/C02.lean (alignIndex, alignAxes, alignedAxisOf, memberIdx, linkedProblems) is "
    "proved equal to the C09 model (c02_alignment_model_eq_c09) and additionally executed on every case",
]
ASSUMPTIONS = [
    "no dataset's own global axis has a repeated coordinate (xarray refuses to join such an index); the axes need not be "
    "increasing: decreasing and shuffled own axes are part of the explored space since fix D27 (align_index and "
    "create_aligned_global_axes are additionally exercised on unsorted targets and on axes with repeated values)",
    "xarray's outer join returns the sorted union of the members' coordinates unless all members have the identical index, "
    "which it keeps as it is: for datasets that all have the same non-increasing axis the aligned axis is that axis and is "
    "not increasing (everything stays positionally consistent); this case is excluded from the statement and counted as "
    "unsorted:skipped-identical-non-increasing-axes",
    "dataset labels are such that concatenated group labels are unambiguous (d1, d2, …); substring/concatenation "
    "ambiguity of labels is C03's subject (hypothesis GroupLabelsUnambiguous of reported_under_original_coordinate)",
    "data and weights are finite (dropna is used by the code to remove the outer-join fill)",
    "generated_*_eq_model: dict keys (dataset labels) pairwise different, labels not empty (the fill value of align_groups), "
    "joined group labels unambiguous (align_weights looks group definitions up by them), every dataset has a data column per "
    "aligned point; the signature table of the translator fixes which attributes of self / scheme a function reads",
    "inputs unchanged: optimize() ADDS the variables data_left_singular_vectors / data_singular_values / "
    "data_right_singular_vectors to the input datasets (OptimizationGroup.__init__, add_svd=True, by design) and result.data[label] "
    "is a shallow copy sharing the data/weight arrays with the input; values, coordinates and dtypes of the existing variables "
    "are what the digest compares (counted under inputs:variable-added-to-input-dataset-by-optimize)",
    "alignment_leaves_inputs_unchanged is about the Store model (arrays are only appended); the link to the source is that the "
    "translator refuses any store into an array the function did not create, and the digest / np.shares_memory observations",
]
RULE = (
    "cases = (tolerance, method, ordered list of 2-4 datasets); a dataset's global axis is a subset of the grid "
    "0..5 (spacing 1) with a per-point offset from {0, ±1/4, ±1/2}, model-axis sizes 1-3, weights (powers of two) "
    "on some datasets, data columns pairwise distinct (8(2k+1) + row, also after weighting); tolerances {0, 1/4, 1/2, 1, 3/2}; methods "
    "nearest/backward/forward; every dataset order of a drawn axis set is a case of its own. For each case the real "
    "aligned_global_axis, get_aligned_dataset_indices(i), get_aligned_group_label(i), group_definitions, "
    "get_aligned_data(i), get_aligned_weight(i) or AlignDatasetError are compared for equality with the Lean model, "
    "and the statement's clauses are evaluated on the real tables. align_index is additionally compared on "
    "(x, target, tolerance, method) with targets of length <= 4 incl. unsorted and repeated values. A case is "
    "non-trivial when at least one point is linked to a point of another dataset or the alignment is refused; "
    "distinct = distinct (tolerance, method, axes in order, sizes, weight flags). quick: seeded sample of the bounded "
    "space + random larger cases + ~100 one-evaluation optimize runs; thorough: the bounded space exhaustively "
    "(see exhaustive_space) + larger samples. Three-way: every provider case is also run through the C02 driver "
    "(aligntables + the stacked problems of a linked group with a ones-megacomplex) and every align_index case through "
    "its `align` op; C09 model, C02 model and real code must agree on status, aligned axis, member datasets, member "
    "indices, stacked data and stacked weight. A separate stream sends lists of 1-4 raw axes (also unsorted and with "
    "repeated coordinates, where the accumulated axis of the two models used to differ) to the `axes` op of both drivers and "
    "to the real create_aligned_global_axes. Result stream: for every k-th accepted provider case the stacked residual "
    "of aligned point i is prescribed (1000 i + position), the real EstimationProviderLinked.get_result is compared with the "
    "model's resultResidual and with the cut computed from the provider's API tables. Regeneration: before the proofs are built "
    "the six alignment functions are translated from the source text of VERIF_REPO (generate); a function outside the translated "
    "subset becomes `untranslatable` and its generated_*_eq_model theorem fails. Array identity: every raw-axes case is also sent "
    "to the model's `refs` op (create_aligned_global_axes on a store of arrays) and compared with the real function: which arrays "
    "handed out ARE input arrays (identity / np.shares_memory), contents of the inputs afterwards, contents handed out. Inputs "
    "stream (harness/props/_c09_extra.py): digest (dtype, shape, dims, bytes) of every variable and coordinate of every input "
    "dataset before / after DataProviderLinked / after optimize() / after a second provider on the same scheme object, equal "
    "tables of the two providers, result coordinates = own coordinates, int64 global axes linked to float axes (tables equal to "
    "the all-float build, assignment allowed by the statement). Weighted stream: 2-3 datasets, some weighted with weights "
    "2^((2j+i+d) mod 5 - 2) varying along the global axis, later datasets moved by +-1/4, +-1/2, tolerance 1/2 or 1, three "
    "methods, both / three dataset orders: every member's segment of get_aligned_weight / get_aligned_data is its own weight "
    "column / own weighted data column at its own index; clp, residual, weighted residual of optimize() against numpy lstsq of "
    "exactly the assigned columns (rtol 1e-9)"
)

GEN_FILE = core.LEAN / "GlotaranModel" / "Generated" / "C09Fns.lean"


def _lean_accepts(text):
    """compile a candidate Generated/C09Fns.lean on the side: {function name: first error} for the functions Lean rejects
    (a translator that emits ill-typed Lean must not take the whole check down)"""
    scratch = core.LEAN / ".lake" / "scratch"
    scratch.mkdir(parents=True, exist_ok=True)
    f = scratch / "C09FnsCandidate.lean"
    f.write_text(text)
    try:
        with core.lake_lock():
            core._run(["lake", "build", "GlotaranModel.C09Py"], cwd=core.LEAN)
        with core.lake_lock(shared=True):
            rc, out, err = core._run(["lake", "env", "lean", str(f)], cwd=core.LEAN, timeout=600)
    finally:
        f.unlink(missing_ok=True)
    if rc == 0:
        return {}
    lines = text.splitlines()
    starts = [(i + 1, m.group(1)) for i, l in enumerate(lines) for m in [re.match(r"def (\w+) ", l)] if m]
    bad = {}
    for m in re.finditer(r":(\d+):\d+: error: ([^\n]*)", out + err):
        ln = int(m.group(1))
        owner = [name for start, name in starts if start <= ln]
        if owner and owner[-1] not in bad:
            bad[owner[-1]] = "Lean rejected the translation: " + m.group(2)[:120]
    return bad or {name: "Lean rejected the generated file" for _, name in starts}


def generate(ck):
    """regenerate lean/GlotaranModel/Generated/C09Fns.lean (function-level translation of the alignment functions of
    DataProviderLinked) from the source text of VERIF_REPO; written only when its content changes"""
    text, table = TR.render(core.REPO)
    GEN_FILE.parent.mkdir(parents=True, exist_ok=True)
    if not GEN_FILE.exists() or GEN_FILE.read_text() != text:
        reject = {}
        for _ in range(3):
            bad = _lean_accepts(text)
            if not bad:
                break
            reject.update(bad)
            text, table = TR.render(core.REPO, reject=reject)
        if not GEN_FILE.exists() or GEN_FILE.read_text() != text:
            GEN_FILE.write_text(text)
    for row in table:
        ck.count("generated:" + ("translated" if row["status"] == "translated" else "untranslatable"))
    ck.extra["generated_functions"] = table
    return [{
        "table": "functions of lean/GlotaranModel/Generated/C09Fns.lean (ast -> Lean, harness/props/_c09_translate.py)",
        "source": [TR.SRC_FILE],
        "source_sha1": TR.source_sha1(core.REPO),
        "sha1": hashlib.sha1(text.encode()).hexdigest(),
        "functions": table,
    }]


METHODS = ["nearest", "backward", "forward"]
TOLS = [F(0), F(1, 4), F(1, 2), F(1), F(3, 2)]
OFFSETS = [F(0), F(1, 4), F(-1, 4), F(1, 2), F(-1, 2)]


# ------------------------------------------------------------------------------------------
# cases
# ------------------------------------------------------------------------------------------
def mk_case(tol, method, datasets):
    """datasets: list of (axis [Fraction], msize, weighted) — labels d1.. by position"""
    return {
        "kind": "provider", "tol": str(F(tol)), "method": method,
        "datasets": [{"label": f"d{i + 1}", "msize": int(m), "axis": [str(F(x)) for x in ax], "weighted": bool(w)}
                     for i, (ax, m, w) in enumerate(datasets)],
    }


def case_sig(case):
    if case["kind"] == "align":
        return ("align", case["x"], tuple(case["target"]), case["tol"], case["method"])
    if case["kind"] == "axes":
        return ("axes", case["tol"], case["method"], tuple(map(tuple, case["axes"])))
    return ("provider", case["tol"], case["method"],
            tuple((d["label"], d["msize"], tuple(d["axis"]), d["weighted"]) for d in case["datasets"]))


def materialise(case):
    """concrete raw data / weight columns (exact dyadic numbers) of a provider case"""
    out, k = [], 0
    for d in case["datasets"]:
        axis = [F(x) for x in d["axis"]]
        m = d["msize"]
        cols, wcols = [], []
        for j in range(len(axis)):
            cols.append([F(8 * (2 * k + 1) + i) for i in range(m)])   # odd part 2k+1 identifies the column
            wcols.append([F(2) ** ((i + j + k) % 3 - 1) for i in range(m)])
            k += 1
        out.append({"label": d["label"], "msize": m, "axis": axis, "data": cols,
                    "weight": wcols if d["weighted"] else None})
    return out


def provider_line(case):
    dss = []
    for d in materialise(case):
        w = "none" if d["weight"] is None else lst(rats(c) for c in d["weight"])
        dss.append(lst([enc(d["label"]), str(d["msize"]), rats(d["axis"]), lst(rats(c) for c in d["data"]), w]))
    return f"provider {rat(F(case['tol']))} {case['method']} {lst(dss)}"


def align_line(case):
    return f"align {rat(F(case['x']))} {rats([F(t) for t in case['target']])} {rat(F(case['tol']))} {case['method']}"


# ------------------------------------------------------------------------------------------
# the real code
# ------------------------------------------------------------------------------------------
_G = {}


def _glot():
    if _G:
        return _G
    import numpy as np
    import xarray as xr
    from glotaran.model import Megacomplex, Model, megacomplex
    from glotaran.optimization.data_provider import AlignDatasetError, DataProviderLinked
    from glotaran.parameter import Parameters
    from glotaran.project import Scheme

    @megacomplex()
    class C09OnesMegacomplex(Megacomplex):
        """one compartment `c`, matrix column of ones: the clp of a stacked problem is the (weighted) mean"""
        type: str = "c09-ones-test-mc"
        dimension: str = "model"

        def calculate_matrix(self, dataset_model, global_axis, model_axis, **kwargs):
            return ["c"], np.ones((model_axis.size, 1))

        def finalize_data(self, dataset_model, dataset, is_full_model=False, as_global=False):
            pass

    _G.update(np=np, xr=xr, Model=Model.create_class_from_megacomplexes([C09OnesMegacomplex]),
              AlignDatasetError=AlignDatasetError, DPL=DataProviderLinked, Parameters=Parameters, Scheme=Scheme,
              models={})
    return _G


def build_scheme(case):
    g = _glot()
    np, xr = g["np"], g["xr"]
    dss = materialise(case)
    labels = tuple(d["label"] for d in dss)
    model = g["Model"](**{"megacomplex": {"m1": {"type": "c09-ones-test-mc"}},
                          "dataset": {l: {"megacomplex": ["m1"]} for l in labels}})
    data = {}
    for d in dss:
        m, n = d["msize"], len(d["axis"])
        vals = np.array([[float(d["data"][j][i]) for j in range(n)] for i in range(m)], dtype=float).reshape(m, n)
        ds = xr.DataArray(vals, coords=[("model", np.arange(m, dtype=float)),
                                        ("global", np.array([float(x) for x in d["axis"]], dtype=float))]
                          ).to_dataset(name="data")
        if d["weight"] is not None:
            w = np.array([[float(d["weight"][j][i]) for j in range(n)] for i in range(m)], dtype=float).reshape(m, n)
            ds["weight"] = xr.DataArray(w, coords=ds.data.coords)
        data[d["label"]] = ds
    scheme = g["Scheme"](model, g["Parameters"].from_list([1.0]), data, clp_link_tolerance=float(F(case["tol"])),
                         clp_link_method=case["method"], maximum_number_function_evaluations=1)
    group = scheme.model.get_dataset_groups()["default"]
    group.set_parameters(scheme.parameters)
    return scheme, group


def fr(v):
    return F(*float(v).as_integer_ratio())


def real_tables(case):
    """canonical observable of DataProviderLinked(scheme, group)"""
    g = _glot()
    scheme, group = build_scheme(case)
    try:
        dp = g["DPL"](scheme, group)
    except g["AlignDatasetError"]:
        return ("err", "AlignDataset")
    except Exception as e:  # anything else is an observable too
        return ("err", type(e).__name__)
    n = int(dp.aligned_global_axis.size)
    w = []
    for i in range(n):
        wi = dp.get_aligned_weight(i)
        w.append(None if wi is None else [fr(v) for v in wi])
    return ("ok",
            [fr(v) for v in dp.aligned_global_axis],
            [[int(k) for k in dp.get_aligned_dataset_indices(i)] for i in range(n)],
            [str(dp.get_aligned_group_label(i)) for i in range(n)],
            sorted((str(k), [str(x) for x in v]) for k, v in dp.group_definitions.items()),
            [[fr(v) for v in dp.get_aligned_data(i)] for i in range(n)],
            w)


def real_align(case):
    g = _glot()
    np = g["np"]
    r = g["DPL"].align_index(float(F(case["x"])), np.array([float(F(t)) for t in case["target"]], dtype=float),
                             float(F(case["tol"])), case["method"])
    return fr(r)


# ------------------------------------------------------------------------------------------
# model answers → the same canonical form
# ------------------------------------------------------------------------------------------
def parse_model_tables(ans: str):
    if ans.startswith("err "):
        return ("err", ans[4:])
    if not ans.startswith("ok "):
        raise core.HarnessError(f"C09 driver answered {ans!r}")
    parts = {}
    for tok in ans[3:].split(" "):
        k, v = tok.split("=", 1)
        parts[k] = core.parse_tree(v)[0]
    return ("ok",
            [F(x) for x in parts["axis"]],
            [[int(k) for k in row] for row in parts["idx"]],
            [core.dec(s) for s in parts["labels"]],
            sorted((core.dec(e[0]), [core.dec(x) for x in e[1]]) for e in parts["defs"]),
            [[F(x) for x in row] for row in parts["data"]],
            [None if row == "none" else [F(x) for x in row] for row in parts["w"]])


FIELDS = ["status", "aligned_global_axis", "get_aligned_dataset_indices", "get_aligned_group_label",
          "group_definitions", "get_aligned_data", "get_aligned_weight"]


def first_difference(a, b):
    if a[0] != b[0] or a[0] == "err":
        return f"implementation {a[:2]!r}, model {b[:2]!r}" if a[:2] != b[:2] else None
    for i in range(1, 7):
        if a[i] != b[i]:
            return f"{FIELDS[i]}: implementation {show(a[i])}, model {show(b[i])}"
    return None


def show(x):
    if isinstance(x, F):
        return str(x)
    if isinstance(x, (list, tuple)):
        return "[" + ",".join(show(y) for y in x) + "]"
    return str(x)


# ------------------------------------------------------------------------------------------
# oracle — written from the property statement, exact fractions, no argmin, no model
# ------------------------------------------------------------------------------------------
def side_ok(method, t, x):
    return method == "nearest" or (method == "forward" and t >= x) or (method == "backward" and t <= x)


def permitted(method, targets, x, tol):
    """already aligned points x may be linked to: within tolerance, on the permitted side"""
    return [t for t in targets if side_ok(method, t, x) and abs(t - x) <= tol]


def allowed_images(method, targets, x, tol):
    """what the statement allows x to be assigned to, given the already aligned points"""
    p = permitted(method, targets, x, tol)
    if not p:
        return {x}
    dmin = min(abs(t - x) for t in p)
    return {t for t in p if abs(t - x) == dmin}


def reference_branches(case, cap=64):
    """all outcomes the statement allows (several only when a point is equally near to two aligned points):
    list of ('ok', assignment) / ('err', dataset number)"""
    tol, method = F(case["tol"]), case["method"]
    axes = [[F(x) for x in d["axis"]] for d in case["datasets"]]
    done = []
    todo = [([], None)]
    while todo:
        assigned, acc = todo.pop()
        d = len(assigned)
        if d == len(axes):
            done.append(("ok", assigned))
            continue
        if acc is None:
            todo.append(([list(axes[0])], set(axes[0])))
            continue
        options = [sorted(allowed_images(method, acc, x, tol)) for x in axes[d]]
        for pick in itertools.product(*options):
            if len(done) + len(todo) > cap:
                break
            if len(set(pick)) != len(pick):
                done.append(("err", d))
            else:
                todo.append((assigned + [list(pick)], acc | set(pick)))
    return done


def check_align_value(ck, case, r):
    """statement on one align_index call"""
    ck.oracle_evals += 1
    x, tol, method = F(case["x"]), F(case["tol"]), case["method"]
    target = [F(t) for t in case["target"]]
    allowed = allowed_images(method, target, x, tol)
    if r in allowed:
        return
    key, what = classify(method, target, x, tol, r)
    ck.violation(f"align_index-{key}", f"align_index({x}, {show(target)}, tolerance={tol}, {method!r}) returned {r}: {what}",
                 case)


def classify(method, targets, x, tol, r):
    if r == x:
        p = permitted(method, targets, x, tol)
        return "not-linked-within-tolerance", (f"stays itself although the aligned point(s) {show(sorted(set(p)))} lie "
                                              f"within the tolerance on the permitted side")
    if r not in targets:
        return "not-an-aligned-point", "neither the point itself nor an already aligned point"
    if not side_ok(method, r, x):
        return f"{method}-wrong-side", f"linked to a point on the side {method!r} does not permit"
    if abs(r - x) > tol:
        return "out-of-tolerance", f"linked to a point at distance {abs(r - x)} > tolerance {tol}"
    return "not-nearest", "linked to a permitted point that is not the nearest permitted one"


def oracle_tables(ck, case, real):
    """the statement's clauses on the tables the real code produced"""
    ck.oracle_evals += 1
    branches = reference_branches(case)
    dss = materialise(case)
    tol, method = F(case["tol"]), case["method"]
    if real[0] == "err":
        if real[1] == "AlignDataset":
            if not any(b[0] == "err" for b in branches):
                ck.violation("refused-without-merge", "AlignDatasetError although no two points of one dataset would "
                             "be assigned to the same aligned point", case)
        else:
            key = "merge-not-refused" if all(b[0] == "err" for b in branches) else "unexpected-exception"
            ck.violation(key, f"DataProviderLinked raised {real[1]} (AlignDatasetError is the only documented refusal; "
                         f"statement allows outcomes {sorted({b[0] for b in branches})})", case)
        return None
    _, axis, idx, labels, defs, data, weights = real
    defs = dict(defs)
    n = len(axis)
    # aligned axis strictly increasing
    if any(not (axis[i] < axis[i + 1]) for i in range(n - 1)):
        ck.violation("axis-not-increasing", f"aligned_global_axis {show(axis)} is not strictly increasing", case)
        return None
    # assignment read off the tables: (dataset, own index) -> aligned positions
    where = {}
    for i in range(n):
        members = defs.get(labels[i])
        if members is None or len(members) != len(idx[i]):
            ck.violation("group-definition-mismatch", f"group_definitions[{labels[i]!r}]={members} does not match "
                         f"get_aligned_dataset_indices({i})={idx[i]}", case)
            return None
        for lab, j in zip(members, idx[i]):
            where.setdefault((lab, j), []).append(i)
    assignment = []
    for d in dss:
        row = []
        for j in range(len(d["axis"])):
            pos = where.get((d["label"], j), [])
            if len(pos) != 1:
                ck.violation("point-not-assigned-once", f"point {j} ({d['axis'][j]}) of dataset {d['label']} is assigned "
                             f"to {len(pos)} aligned points", case)
                return None
            row.append(axis[pos[0]])
        assignment.append(row)
    extra = set(where) - {(d["label"], j) for d in dss for j in range(len(d["axis"]))}
    if extra:
        ck.violation("phantom-point", f"tables mention points that no dataset has: {sorted(extra)}", case)
        return None
    if sorted({v for row in assignment for v in row}) != axis:
        ck.violation("axis-not-union", f"aligned_global_axis {show(axis)} is not the set of assigned points", case)
    # each point: itself, or the nearest permitted already aligned point within tolerance
    acc = set(assignment[0])
    if assignment[0] != dss[0]["axis"]:
        ck.violation("first-dataset-moved", "points of the first dataset are not assigned to themselves", case)
    for dnum in range(1, len(dss)):
        for j, x in enumerate(dss[dnum]["axis"]):
            r = assignment[dnum][j]
            if r not in allowed_images(method, acc, x, tol):
                key, what = classify(method, sorted(acc), x, tol, r)
                ck.violation(key, f"dataset {dss[dnum]['label']} point {x} (tolerance {tol}, {method}) against aligned "
                             f"points {show(sorted(acc))} is assigned to {r}: {what}", case)
                return None
        if len(set(assignment[dnum])) != len(assignment[dnum]):
            ck.violation("merge-not-refused", f"two points of dataset {dss[dnum]['label']} are assigned to the same "
                         f"aligned point ({show(assignment[dnum])}) and no AlignDatasetError was raised", case)
            return None
        acc |= set(assignment[dnum])
    # every data column exactly once, stacked in dataset order, weights alongside
    columns = {}
    for dnum, d in enumerate(dss):
        for j in range(len(d["axis"])):
            col = d["data"][j] if d["weight"] is None else [a * b for a, b in zip(d["data"][j], d["weight"][j])]
            columns[(dnum, j)] = col
    used = []
    for i in range(n):
        here = sorted((dnum, j) for dnum, d in enumerate(dss) for j in range(len(d["axis"])) if assignment[dnum][j] == axis[i])
        want = [v for p in here for v in columns[p]]
        if data[i] != want:
            ck.violation("stacked-data-wrong", f"get_aligned_data({i}) = {show(data[i])}, but the columns assigned to "
                         f"aligned point {axis[i]} stacked in dataset order are {show(want)}", case)
            return None
        used += here
        if any(dss[p[0]]["weight"] is not None for p in here):
            wantw = [v for p in here for v in (dss[p[0]]["weight"][p[1]] if dss[p[0]]["weight"] is not None
                                                else [F(1)] * dss[p[0]]["msize"])]
        else:
            wantw = None
        if weights[i] != wantw and not (wantw is None and weights[i] is not None and all(v == 1 for v in weights[i])
                                         and len(weights[i]) == len(want)):
            ck.violation("stacked-weight-wrong", f"get_aligned_weight({i}) = {show(weights[i]) if weights[i] is not None else None}, "
                         f"required {show(wantw) if wantw is not None else None}", case)
            return None
    if sorted(used) != sorted(columns):
        ck.violation("column-not-once", "not every data column enters the stacked problems exactly once", case)
        return None
    if ("ok", assignment) not in branches and len(branches) < 64:
        ck.violation("assignment-not-allowed", f"assignment {show(assignment)} is none of the outcomes the statement allows", case)
    return assignment


def oracle_end_to_end(ck, case):
    """one-evaluation optimize: clps shared iff same aligned point, results under the original coordinates"""
    g = _glot()
    from glotaran.optimization.optimize import optimize

    branches = reference_branches(case)
    oks = [b[1] for b in branches if b[0] == "ok"]
    if len(branches) != 1 or not oks:
        ck.count("e2e:skipped-ambiguous-or-refused")
        return
    assignment = oks[0]
    dss = materialise(case)
    residuals = sum(d["msize"] * len(d["axis"]) for d in dss)
    if residuals - 1 - len({v for row in assignment for v in row}) <= 0:
        ck.count("e2e:skipped-no-degrees-of-freedom")   # Result statistics divide by them (C13's subject)
        return
    scheme, group = build_scheme(case)
    group.link_clp = True
    ck.oracle_evals += 1
    try:
        result = optimize(scheme, verbose=False, raise_exception=True)
    except Exception as e:
        ck.violation("optimize-failed", f"optimize on a linkable scheme raised {type(e).__name__}: {e}", case)
        return
    ck.count("e2e:runs")
    # expected clp of an aligned point: weighted mean of everything stacked there (matrix = ones)
    groups = {}
    for dnum, d in enumerate(dss):
        for j in range(len(d["axis"])):
            groups.setdefault(assignment[dnum][j], []).append((dnum, j))
    anyw = {v: any(dss[p[0]]["weight"] is not None for p in ps) for v, ps in groups.items()}
    expect = {}
    for v, ps in groups.items():
        num = den = F(0)
        for dnum, j in ps:
            d = dss[dnum]
            for i in range(d["msize"]):
                w = d["weight"][j][i] if d["weight"] is not None else F(1)
                # data is always multiplied by its weight; the matrix rows only if the stacked problem is weighted
                yw = d["data"][j][i] * w
                a = w if anyw[v] else F(1)
                num += a * yw
                den += a * a
        expect[v] = num / den

    def close(a, b):
        return abs(float(a) - float(b)) <= 1e-9 * max(1.0, abs(float(a)), abs(float(b)))

    got = {}
    for dnum, d in enumerate(dss):
        ds = result.data[d["label"]]
        coords = [fr(v) for v in ds.clp.coords["global"].values]
        if coords != d["axis"]:
            ck.violation("clp-coordinate-changed", f"clp of dataset {d['label']} is reported on global coordinates "
                         f"{show(coords)}, the dataset's axis is {show(d['axis'])}", case)
            return
        vals = ds.clp.sel(clp_label="c").values
        for j in range(len(d["axis"])):
            got[(dnum, j)] = float(vals[j])
            want = expect[assignment[dnum][j]]
            if not close(vals[j], want):
                ck.violation("clp-under-wrong-coordinate", f"dataset {d['label']} coordinate {d['axis'][j]}: clp "
                             f"{float(vals[j])!r}, but the stacked problem of its aligned point "
                             f"{assignment[dnum][j]} has clp {float(want)!r}", case)
                return
        # residual under the original coordinate (unweighted residual = data - clp * 1)
        res = ds.residual.transpose("model", "global").values
        for j in range(len(d["axis"])):
            for i in range(d["msize"]):
                want = d["data"][j][i] - expect[assignment[dnum][j]]
                if not close(res[i, j], want):
                    ck.violation("residual-under-wrong-coordinate", f"dataset {d['label']} residual[{i},{j}] = "
                                 f"{float(res[i, j])!r}, required {float(want)!r}", case)
                    return
    pts = sorted(got)
    for a in range(len(pts)):
        for b in range(a + 1, len(pts)):
            p, q = pts[a], pts[b]
            if p[0] == q[0]:
                continue
            same = assignment[p[0]][p[1]] == assignment[q[0]][q[1]]
            if same and not close(got[p], got[q]):
                ck.violation("linked-points-different-clp", f"points {p} and {q} (dataset number, index) are assigned to the "
                             f"same aligned point but have clps {got[p]!r} / {got[q]!r}", case)
                return
            if not same and expect[assignment[p[0]][p[1]]] != expect[assignment[q[0]][q[1]]] and close(got[p], got[q]):
                ck.violation("unlinked-points-share-clp", f"points {p} and {q} are assigned to different aligned points "
                             f"but share the clp {got[p]!r}", case)
                return


# ------------------------------------------------------------------------------------------
# the C02 driver on the same cases (the alignment model shared by C02/C03/C08/C13/C14)
# ------------------------------------------------------------------------------------------
def c02_lines(case):
    """a linked group with one ones-megacomplex per dataset: `aligntables` + the stacked problems (`inputs`)"""
    dss = materialise(case)
    tol, method = rat(F(case["tol"])), case["method"]
    lines = [f"aligntables {tol} {method} {lst(rats(d['axis']) for d in dss)}", "reset", f"group T vp {tol} {method}"]
    for d in dss:
        m, n = d["msize"], len(d["axis"])
        data = lst(rats([d["data"][j][i] for j in range(n)]) for i in range(m))          # model x global
        w = "none" if d["weight"] is None else lst(rats([d["weight"][j][i] for j in range(n)]) for i in range(m))
        mc = lst([lst([lst([enc("c")]), lst(["d2", lst(rats([F(1)]) for _ in range(m))]), "none"])])
        lines.append(f"dataset {enc(d['label'])} {rats(d['axis'])} {data} {w} none {mc} []")
    lines.append("inputs")
    return lines


def parse_c02(answers):
    """answers of c02_lines -> ('ok', axis, member dataset numbers, member indices, stacked data, stacked weight or ones)"""
    tables, inputs = answers[0], answers[-1]
    for a in answers[1:-1]:
        if a != "ok":
            raise core.HarnessError(f"C02 driver answered {a!r} to a description line")
    if tables.startswith("err "):
        if inputs != "inputs [align-error]":
            raise core.HarnessError(f"C02 driver: aligntables {tables!r} but inputs {inputs[:80]!r}")
        return ("err", tables[4:])
    if not tables.startswith("ok ") or not inputs.startswith("inputs "):
        raise core.HarnessError(f"C02 driver answered {tables[:80]!r} / {inputs[:80]!r}")
    parts = {}
    for tok in tables[3:].split(" "):
        k, v = tok.split("=", 1)
        parts[k] = core.parse_tree(v)[0]
    groups = core.parse_tree(inputs[len("inputs "):])[0]
    if len(groups) != 1 or isinstance(groups[0], str):
        raise core.HarnessError(f"C02 driver: unexpected inputs {inputs[:120]!r}")
    problems = groups[0]
    axis = [F(x) for x in parts["axis"]]
    if [F(pr[0]) for pr in problems] != axis:
        return ("ok", axis, "axis of aligntables differs from the x of the stacked problems", None, None, None)
    return ("ok", axis,
            [[int(k) for k in row] for row in parts["ds"]],
            [[int(k) for k in row] for row in parts["idx"]],
            [[F(x) for x in pr[4]] for pr in problems],
            [[F(r[0]) for r in pr[3]] for pr in problems])      # matrix = ones * stacked weight, one column


def three_way_form(case, t):
    """C09-model / real canonical tables -> the form of parse_c02"""
    if t[0] == "err":
        return t[:2]
    _, axis, idx, labels, defs, data, weights = t
    num = {d["label"]: k for k, d in enumerate(case["datasets"])}
    defs = dict(defs)
    dsn = [[num.get(l, -1) for l in defs.get(lab, ["?"])] for lab in labels]
    w = [wi if wi is not None else [F(1)] * len(di) for wi, di in zip(weights, data)]
    return ("ok", axis, dsn, idx, data, w)


FIELDS3 = ["status", "aligned axis", "member datasets", "member indices", "stacked data", "stacked weight (or ones)"]


def three_way_difference(real3, c09_3, c02_3):
    for name, other in (("C09 model", c09_3), ("C02 model", c02_3)):
        if real3[:2] != other[:2] and (real3[0] == "err" or other[0] == "err"):
            return f"implementation {real3[:2]!r}, {name} {other[:2]!r}"
        if real3[0] == "ok":
            for i in range(1, 6):
                if real3[i] != other[i]:
                    return f"{FIELDS3[i]}: implementation {show(real3[i])}, {name} {show(other[i])}"
    return None


def c02_answers(cases):
    lines, spans = [], []
    for c in cases:
        ls = c02_lines(c)
        spans.append((len(lines), len(lines) + len(ls)))
        lines += ls
    out = core.lean_driver("C02", lines)
    return [parse_c02(out[a:b]) for a, b in spans]


# ------------------------------------------------------------------------------------------
# raw axes (also unsorted / repeated coordinates) on both drivers and the real create_aligned_global_axes
# ------------------------------------------------------------------------------------------
def real_axes(case):
    """the real `create_aligned_global_axes` run on a stub provider holding only the global axes"""
    import types
    g = _glot()
    np = g["np"]
    stub = types.SimpleNamespace(
        _global_axes={f"d{i + 1}": np.array([float(F(x)) for x in ax], dtype=float) for i, ax in enumerate(case["axes"])},
        align_index=g["DPL"].align_index)
    scheme = types.SimpleNamespace(clp_link_tolerance=float(F(case["tol"])), clp_link_method=case["method"])
    try:
        out = g["DPL"].create_aligned_global_axes(stub, scheme)
    except g["AlignDatasetError"]:
        return "err AlignDataset"
    return "ok " + lst(rats([fr(v) for v in out[f"d{i + 1}"]]) for i in range(len(case["axes"])))


def real_axes_refs(case):
    """array identity on the real `create_aligned_global_axes` (stub provider): which of the arrays handed out ARE input arrays,
    and whether every input array still has its contents.  Canonical form of the model's `refs` answer."""
    import types
    g = _glot()
    np = g["np"]
    ins = [np.array([float(F(x)) for x in ax], dtype=float) for ax in case["axes"]]
    before = [a.tobytes() for a in ins]
    stub = types.SimpleNamespace(_global_axes={f"d{i + 1}": a for i, a in enumerate(ins)}, align_index=g["DPL"].align_index)
    scheme = types.SimpleNamespace(clp_link_tolerance=float(F(case["tol"])), clp_link_method=case["method"])
    try:
        out = g["DPL"].create_aligned_global_axes(stub, scheme)
    except g["AlignDatasetError"]:
        return "err AlignDataset" if [a.tobytes() for a in ins] == before else "err AlignDataset, inputs modified"
    outs = [out[f"d{i + 1}"] for i in range(len(ins))]
    refs, fresh = [], len(ins)
    for o in outs:
        hit = [k for k, a in enumerate(ins) if o is a or (isinstance(o, np.ndarray) and np.shares_memory(o, a))]
        if hit:
            refs.append(hit[0])
        else:                      # a new object: the model numbers them n, n+2, n+4, … (its own np.unique arrays in between)
            refs.append(fresh)
            fresh += 2
    return ("ok " + lst(str(r) for r in refs) + " " + lst(rats([fr(v) for v in a]) for a in ins)
            + " " + lst(rats([fr(v) for v in o]) for o in outs))


def axes_line(case):
    return f"axes {rat(F(case['tol']))} {case['method']} {lst(rats([F(x) for x in ax]) for ax in case['axes'])}"


def random_axes_case(rng):
    n = rng.randint(1, 4)
    axes = []
    for d in range(n):
        k = rng.randint(1, 4)
        ax = [F(rng.randint(0, 16), 4) for _ in range(k)]
        mode = rng.random()
        if mode < 0.4:
            ax = sorted(set(ax))
        elif mode < 0.6 and d > 0:
            ax = list(dict.fromkeys(ax))          # unsorted, no repetition
        axes.append([str(x) for x in ax])
    return {"kind": "axes", "tol": str(rng.choice(TOLS)), "method": rng.choice(METHODS), "axes": axes}


def compare_axes(ck, cases, tag):
    if not cases:
        return
    lines = [axes_line(c) for c in cases]
    m09 = core.lean_driver(PROP, lines)
    m02 = core.lean_driver("C02", lines)
    mrefs = core.lean_driver(PROP, ["refs" + l[len("axes"):] for l in lines])
    bad = 0
    for n, (case, a09, a02) in enumerate(zip(cases, m09, m02)):
        try:
            real = real_axes(case)
        except (AttributeError, TypeError):
            ck.count("create_aligned_global_axes-not-callable-on-a-stub")
            return
        unsorted_first = [F(x) for x in case["axes"][0]] != sorted({F(x) for x in case["axes"][0]})
        ck.case(("axes", case["tol"], case["method"], tuple(map(tuple, case["axes"]))), real.startswith("err") or len(case["axes"]) > 1)
        ck.count(f"stream:{tag}")
        ck.count("axes:" + ("first-axis-unsorted-or-repeated" if unsorted_first else "first-axis-increasing"))
        ck.count("axes-outcome:" + real.split(" ")[0])
        if mrefs is not None:
            rr = real_axes_refs(case)
            ck.count("refs:" + ("first-axis-is-the-input-array" if rr.startswith("ok [0") else rr.split(" ")[0]))
            if rr != mrefs[n] and bad < 3:
                bad += 1
                ck.disagree("axes-array-identity", f"create_aligned_global_axes {case['axes']} tol={case['tol']} {case['method']}: arrays "
                            f"handed out / inputs afterwards: implementation {rr}, model {mrefs[n]}", case)
        if not (real == a09 == a02):
            bad += 1
            if bad <= 3:
                ck.disagree("axes-three-way", f"create_aligned_global_axes {case['axes']} tol={case['tol']} {case['method']}: "
                            f"implementation {real}, C09 model {a09}, C02 model {a02}", case)


# ------------------------------------------------------------------------------------------
# EstimationProviderLinked.get_result with prescribed stacked residuals
# ------------------------------------------------------------------------------------------
def prescribed_residuals(sizes):
    return [[F(1000 * i + k) for k in range(n)] for i, n in enumerate(sizes)]


def real_result(case, residuals):
    """residual columns per dataset reported by the real get_result when the stacked residuals are `residuals`;
    also the global coordinates they are reported under"""
    g = _glot()
    np = g["np"]
    from glotaran.optimization.optimization_group import OptimizationGroup

    scheme, group = build_scheme(case)
    group.link_clp = True
    og = OptimizationGroup(scheme, group)
    og.calculate(scheme.parameters)
    ep = og._estimation_provider
    ep._residuals = [np.array([float(v) for v in r], dtype=float) for r in residuals]
    _, res = ep.get_result()
    out, coords = [], []
    for d in case["datasets"]:
        da = res[d["label"]]
        gdim = [x for x in da.dims if x != "model"][0]
        vals = da.transpose("model", gdim).values
        out.append([[fr(vals[i, j]) for i in range(vals.shape[0])] for j in range(vals.shape[1])])
        coords.append([fr(v) for v in da.coords[gdim].values])
    return out, coords


def result_line(case, residuals):
    return provider_line(case).replace("provider ", "result ", 1) + " " + lst(rats(r) for r in residuals)


def oracle_result(ck, case, real):
    """oracle on the real get_result, from the provider's API tables only: the column reported for (d, j) is the
    segment of the stacked residual of the aligned point holding (d, j), at the offset of d among the members stacked
    there, and it is reported under the dataset's own coordinates.  Returns (prescribed residuals, real columns | None)"""
    residuals = prescribed_residuals([len(col) for col in real[5]])
    ck.oracle_evals += 1
    try:
        got, coords = real_result(case, residuals)
    except AttributeError:
        ck.count("get_result-not-reachable")
        return residuals, None
    except Exception as e:
        ck.violation("get_result-failed", f"get_result on an accepted alignment raised {type(e).__name__}: {e}", case)
        return residuals, None
    dss = materialise(case)
    _, axis, idx, labels, defs, data, weights = real
    defs = dict(defs)
    want = [[None] * len(d["axis"]) for d in dss]
    num = {d["label"]: k for k, d in enumerate(dss)}
    for i in range(len(axis)):
        off = 0
        for lab, j in zip(defs[labels[i]], idx[i]):
            dn = num.get(lab)
            if dn is None or not 0 <= j < len(want[dn]):
                ck.violation("aligned-dataset-index-out-of-range", f"get_aligned_dataset_indices({i}) = {idx[i]} for the group "
                             f"{defs[labels[i]]}: dataset {lab} has no global index {j}", case)
                return residuals, None
            want[dn][j] = residuals[i][off: off + dss[dn]["msize"]]
            off += dss[dn]["msize"]
    for dn, d in enumerate(dss):
        if coords[dn] != d["axis"]:
            ck.violation("residual-coordinate-changed", f"get_result reports dataset {d['label']} on global coordinates "
                         f"{show(coords[dn])}, its axis is {show(d['axis'])}", case)
        elif got[dn] != want[dn]:
            ck.violation("residual-block-under-wrong-coordinate",
                         f"get_result, dataset {d['label']}: columns {show(got[dn])}, but the blocks of its points in the "
                         f"stacked residuals of their aligned points are {show(want[dn])}", case)
    return residuals, got


def compare_results(ck, items, tag):
    """items: (case, real tables) of accepted provider cases"""
    if not items:
        return
    todo = []
    for case, real in items:
        ck.count(f"stream:{tag}")
        residuals, got = oracle_result(ck, case, real)
        if got is not None:
            todo.append((case, residuals, got))
    answers = core.lean_driver(PROP, [result_line(c, r) for c, r, _ in todo])
    for (case, residuals, got), ans in zip(todo, answers):
        if len([d for d in ck.disagreements if d["key"] == "get_result-model-vs-impl"]) >= 3:
            break
        if not ans.startswith("ok "):
            ck.disagree("get_result-model-vs-impl", f"implementation returned residuals, model answered {ans}", case)
            continue
        mod = [[[F(x) for x in col] for col in ds] for ds in core.parse_tree(ans[3:])[0]]
        if mod != got:
            ck.disagree("get_result-model-vs-impl", f"get_result residual columns: implementation {show(got)}, model {show(mod)}", case)


# ------------------------------------------------------------------------------------------
# comparison
# ------------------------------------------------------------------------------------------
def is_nontrivial(case, real):
    if real[0] == "err":
        return True
    return any(len(row) > 1 for row in real[2])


def compare_providers(ck, cases, tag, e2e_every=0, result_every=5):
    if not cases:
        return
    lines = [provider_line(c) for c in cases]
    model = core.lean_driver(PROP, lines)
    model02 = c02_answers(cases)
    for_results = []
    for n, (case, ans) in enumerate(zip(cases, model)):
        real = real_tables(case)
        mod = parse_model_tables(ans)
        if real[0] == "ok" or real[1] == "AlignDataset":
            d3 = three_way_difference(three_way_form(case, real), three_way_form(case, mod), model02[n])
            ck.count("three-way:compared")
            if d3 and len([d for d in ck.disagreements if d["key"] == "three-way"]) < 3:
                ck.disagree("three-way", d3, case)
        if real[0] == "ok" and result_every and n % result_every == 0:
            for_results.append((case, real))
        ck.case(case_sig(case), is_nontrivial(case, real))
        ck.count(f"stream:{tag}")
        ck.count(f"datasets:{len(case['datasets'])}")
        ck.count(f"method:{case['method']}")
        ck.count(f"tol:{case['tol']}")
        ck.count("outcome:" + (real[1] if real[0] == "err" else "ok"))
        if real[0] == "ok":
            ck.count("linked-points", sum(len(r) - 1 for r in real[2]))
            ck.count("weighted-aligned-points", sum(1 for w in real[6] if w is not None))
        oracle_tables(ck, case, real)
        diff = first_difference(real, mod)
        if diff:
            small = shrink(ck, case) if len(ck.disagreements) < 2 else case
            ck.disagree("model-vs-impl", diff, small)
        if e2e_every and n % e2e_every == 0 and real[0] == "ok":
            oracle_end_to_end(ck, case)
    compare_results(ck, for_results, "get_result")


def provider_differs(case):
    return first_difference(real_tables(case), parse_model_tables(core.lean_driver(PROP, [provider_line(case)])[0])) is not None


def shrink(ck, case):
    """drop datasets / points while the disagreement persists (a little)"""
    best = case
    for _ in range(6):
        cands = []
        ds = best["datasets"]
        if len(ds) > 2:
            for i in range(1, len(ds)):
                cands.append(dict(best, datasets=ds[:i] + ds[i + 1:]))
        for i, d in enumerate(ds):
            for j in range(len(d["axis"])):
                if len(d["axis"]) > 1:
                    nd = dict(d, axis=d["axis"][:j] + d["axis"][j + 1:])
                    cands.append(dict(best, datasets=ds[:i] + [nd] + ds[i + 1:]))
        for c in cands[:12]:
            try:
                if provider_differs(c):
                    best = c
                    break
            except Exception:
                pass
        else:
            break
    return best


def compare_align(ck, cases, tag):
    if not cases:
        return
    model = core.lean_driver(PROP, [align_line(c) for c in cases])
    model02 = core.lean_driver("C02", [align_line(c) for c in cases])
    bad = 0
    for case, ans, ans02 in zip(cases, model, model02):
        try:
            r = real_align(case)
        except AttributeError:
            ck.count("align_index-unavailable")
            return
        ck.case(case_sig(case), r != F(case["x"]))
        ck.count(f"stream:{tag}")
        ck.count("align:" + ("linked" if r != F(case["x"]) else "kept"))
        check_align_value(ck, case, r)
        if ans != rat(r) or ans02 != rat(r):
            ans = f"{ans} (C09) / {ans02} (C02)"
            bad += 1
            if bad <= 3:
                ck.disagree("align_index-model-vs-impl",
                            f"align_index({case['x']}, {case['target']}, {case['tol']}, {case['method']}): implementation {r}, model {ans}",
                            case)


# ------------------------------------------------------------------------------------------
# generators
# ------------------------------------------------------------------------------------------
def random_axis(rng, grid_n, max_points, offsets=True):
    k = rng.randint(1, min(max_points, grid_n))
    pts = sorted(rng.sample(range(grid_n), k))
    if offsets:
        mode = rng.random()
        if mode < 0.3:
            o = rng.choice(OFFSETS)
            ax = [F(p) + o for p in pts]
        else:
            ax = [F(p) + rng.choice(OFFSETS) for p in pts]
    else:
        ax = [F(p) for p in pts]
    ax = sorted(set(ax))
    return ax


def random_case(rng, ndatasets, grid_n, max_points):
    dss = []
    for d in range(ndatasets):
        ax = random_axis(rng, grid_n, max_points, offsets=(d > 0 or rng.random() < 0.5))
        dss.append((ax, rng.randint(1, 3), rng.random() < 0.4))
    return mk_case(rng.choice(TOLS), rng.choice(METHODS), dss)


def unsorted_case(rng, ndatasets, grid_n, max_points):
    """a random case in which some datasets' own global axes are decreasing or shuffled"""
    case = random_case(rng, ndatasets, grid_n, max_points)
    changed = False
    for d in case["datasets"]:
        mode = rng.random()
        if mode < 0.45 and len(d["axis"]) > 1:
            d["axis"] = d["axis"][::-1]
            changed = True
        elif mode < 0.7 and len(d["axis"]) > 2:
            ax = list(d["axis"])
            rng.shuffle(ax)
            changed = changed or ax != d["axis"]
            d["axis"] = ax
    if not changed:
        big = max(case["datasets"], key=lambda d: len(d["axis"]))
        big["axis"] = big["axis"][::-1]
    return case


def join_is_sorted_union(case):
    """xarray's outer join returns the sorted union unless all members have the identical index (then it is kept as
    is): false when the aligned axes (computed from the statement, not from the code) can all be the same
    non-increasing list"""
    for b in reference_branches(case):
        if b[0] != "ok":
            continue
        rows = b[1]
        increasing = all(a < c for a, c in zip(rows[0], rows[0][1:]))
        if all(r == rows[0] for r in rows) and not increasing:
            return False
    return True


def all_orders(case):
    out = []
    ds = case["datasets"]
    for perm in itertools.permutations(range(len(ds))):
        out.append(dict(case, datasets=[dict(ds[p], label=f"d{n + 1}") for n, p in enumerate(perm)]))
    return out


def bounded_space(full):
    """the bounded space: 2 datasets on a 3-point grid (every offset pattern of the second dataset),
    3 datasets on a 2-point grid; every method and dataset order"""
    grid3 = [F(0), F(1), F(2)]
    first = [[F(0)], [F(1)], [F(0), F(1)], [F(0), F(2)], [F(0), F(1), F(2)]]
    second = []
    for choice in itertools.product([None] + OFFSETS, repeat=3):
        ax = sorted({g + o for g, o in zip(grid3, choice) if o is not None})
        if ax:
            second.append(ax)
    for tol in (F(0), F(1, 2), F(1), F(3, 2)):
        for method in METHODS:
            for a in first:
                for b in second:
                    for order in ((a, b), (b, a)):
                        yield mk_case(tol, method, [(order[0], 2, False), (order[1], 1, True)])
    grid2 = [F(0), F(1)]

    def axes2(offsets):
        out = []
        for choice in itertools.product([None] + offsets, repeat=2):
            ax = sorted({g + o for g, o in zip(grid2, choice) if o is not None})
            if ax:
                out.append(ax)
        return out

    for tol in (F(1, 2), F(1)):
        for method in METHODS:
            for b in axes2(OFFSETS):
                for c in axes2([F(0), F(1, 4), F(-1, 2)]):
                    base = mk_case(tol, method, [([F(0), F(1)], 1, False), (b, 2, True), (c, 1, False)])
                    yield from all_orders(base)


def align_space():
    vals = [F(k, 4) for k in range(0, 9, 1)]          # 0 .. 2 in quarters
    tvals = [F(0), F(1, 2), F(1), F(3, 2), F(2)]
    for n in range(0, 4):
        for target in itertools.product(tvals, repeat=n):
            for x in vals:
                for tol in (F(0), F(1, 4), F(1, 2), F(1)):
                    for method in METHODS:
                        yield {"kind": "align", "x": str(x), "target": [str(t) for t in target], "tol": str(tol),
                               "method": method}


def scaled(case, k):
    """the same case in other units: every coordinate and the tolerance multiplied by 2**k (exact).  The statement is
    scale free; an absolute epsilon in the code is not (round-2 seeded change C09-4: `<= tolerance or np.isclose(...)`
    links points that are out of tolerance once the axis is in nanoseconds-written-as-seconds)."""
    f = F(2) ** k
    c = json.loads(json.dumps(case))
    c["tol"] = str(F(c["tol"]) * f)
    if c["kind"] == "align":
        c["x"] = str(F(c["x"]) * f)
        c["target"] = [str(F(t) * f) for t in c["target"]]
    elif c["kind"] == "axes":
        c["axes"] = [[str(F(x) * f) for x in ax] for ax in c["axes"]]
    else:
        for d in c["datasets"]:
            d["axis"] = [str(F(x) * f) for x in d["axis"]]
    return c


def random_align(rng):
    n = rng.randint(0, 6)
    target = [F(rng.randint(0, 24), 4) for _ in range(n)]
    if rng.random() < 0.5:
        target = sorted(set(target))
    return {"kind": "align", "x": str(F(rng.randint(-2, 26), 4)), "target": [str(t) for t in target],
            "tol": str(rng.choice(TOLS + [F(-1), F(3)])), "method": rng.choice(METHODS)}


REGRESSION = [
    # D2: forward used the argmin of the filtered differences to index the unfiltered axis
    {"kind": "align", "x": "11/2", "target": ["1", "5", "6"], "tol": "1", "method": "forward"},
    {"kind": "align", "x": "11/2", "target": ["6", "1", "5"], "tol": "1", "method": "backward"},
]


def run_cases(ck, cases, tag, e2e_every=0):
    compare_align(ck, [c for c in cases if c["kind"] == "align"], tag)
    compare_axes(ck, [c for c in cases if c["kind"] == "axes"], tag)
    compare_providers(ck, [c for c in cases if c["kind"] == "provider"], tag, e2e_every, result_every=1)


def run(ck):
    rng = ck.rng
    corpus = [c.get("case", c) for c in core.load_corpus(PROP)]
    run_cases(ck, REGRESSION + corpus, "corpus", e2e_every=1)
    # align_index on its own
    space = list(align_space())
    if ck.quick:
        rng.shuffle(space)
        space = space[:6000]
    compare_align(ck, space, "align-bounded")
    compare_align(ck, [random_align(rng) for _ in range(ck.n(3000, 40000))], "align-random")
    # create_aligned_global_axes on raw axes, also unsorted / repeated coordinates: both models and the real function
    compare_axes(ck, [random_axes_case(rng) for _ in range(ck.n(2400, 30000))], "axes-three-way")
    # providers: bounded space
    if ck.quick:
        bounded = list(bounded_space(full=False))
        rng.shuffle(bounded)
        compare_providers(ck, bounded[:1100], "bounded-sample", e2e_every=25)
        ck.extra["bounded_space_size"] = len(bounded)
    else:
        total, batch = 0, []
        for c in bounded_space(full=False):
            batch.append(c)
            if len(batch) >= 2000:
                compare_providers(ck, batch, "bounded-exhaustive", e2e_every=97, result_every=15)
                total += len(batch)
                batch = []
        compare_providers(ck, batch, "bounded-exhaustive", e2e_every=97, result_every=15)
        total += len(batch)
        ck.exhaustive = True
        ck.extra["exhaustive_space"] = (
            f"all {total} provider cases: 2 datasets (one of {{0}},{{1}},{{0,1}},{{0,2}},{{0,1,2}}, the other every subset of the "
            "grid {0,1,2} with every per-point offset pattern from {0,±1/4,±1/2}) x tolerances {0,1/2,1,3/2} x 3 methods x both "
            "orders; 3 datasets ({0,1}, every subset of {0,1} with every offset pattern, every subset of {0,1} with offsets "
            "from {0,1/4,-1/2}) x tolerances {1/2,1} x 3 methods x all 6 orders; plus every align_index call with targets of "
            "length <= 3 over {0,1/2,1,3/2,2}, x in quarters of [0,2], 4 tolerances, 3 methods")
    # random larger ones, every order of each drawn axis set for small n
    larger = []
    for _ in range(ck.n(90, 900)):
        nd = rng.choice([2, 3, 3, 4])
        base = random_case(rng, nd, 6, 5)
        orders = all_orders(base)
        rng.shuffle(orders)
        larger += orders[: (6 if nd <= 3 else 4)]
    compare_providers(ck, larger, "random-larger", e2e_every=ck.n(6, 12), result_every=ck.n(5, 10))
    # the same kinds of cases in other units (2^-30 ~ 1e-9 and 2^20)
    compare_align(ck, [scaled(random_align(rng), k) for k in (-30, 20) for _ in range(ck.n(400, 4000))], "align-scaled")
    compare_providers(ck, [scaled(c, k) for k in (-30, 20) for c in rng.sample(larger, min(len(larger), ck.n(60, 600)))],
                      "random-larger-scaled", e2e_every=ck.n(20, 40), result_every=ck.n(10, 20))
    # non-increasing dataset axes (decreasing / shuffled): alignment tables, get_result and e2e (fix D27)
    uns = []
    for _ in range(ck.n(260, 2000)):
        c = unsorted_case(rng, rng.choice([2, 2, 3, 4]), 6, 5)
        if join_is_sorted_union(c):
            uns.append(c)
        else:
            ck.count("unsorted:skipped-identical-non-increasing-axes")
    compare_providers(ck, uns, "non-increasing-axes", e2e_every=ck.n(4, 12), result_every=1)
    # inputs are never modified / second provider on the same scheme / results under original coordinates, integer axes
    # linked to float axes; weighted linked groups: every stacked column carries its own weight (harness/props/_c09_extra.py)
    from harness.props import _c09_extra as X
    X.run_inputs_unchanged(ck, rng.sample(larger, min(len(larger), ck.n(40, 400))) + rng.sample(uns, min(len(uns), ck.n(12, 120))),
                           "inputs-unchanged", max_optimize=ck.n(30, 300))
    X.run_weighted(ck, ck.n(50, 600), "weighted-own-column", max_optimize=ck.n(40, 400))
    for c in (larger[:2] + [REGRESSION[0]]):
        ck.sample(c)


def search(ck):
    """widened oracle-only sweep on the real code"""
    rng = ck.rng
    for c in REGRESSION:
        check_align_value(ck, c, real_align(c))
    for c in align_space():
        check_align_value(ck, c, real_align(c))
        if ck.violations:
            return
    for _ in range(ck.n(1500, 15000)):
        if rng.random() < 0.3:
            c = unsorted_case(rng, rng.choice([2, 3, 4]), 6, 5)
            if not join_is_sorted_union(c):
                continue
        else:
            c = random_case(rng, rng.choice([2, 3, 4]), 6, 5)
        real = real_tables(c)
        oracle_tables(ck, c, real)
        if not ck.violations and real[0] == "ok" and rng.random() < 0.15:
            oracle_result(ck, c, real)
        if not ck.violations and real[0] == "ok" and rng.random() < 0.1:
            oracle_end_to_end(ck, c)
        if ck.violations:
            return
    from harness.props import _c09_extra as X
    X.run_inputs_unchanged(ck, [random_case(rng, rng.choice([2, 3]), 6, 5) for _ in range(ck.n(60, 600))], "search-inputs",
                           max_optimize=ck.n(30, 300))
    if not ck.violations:
        X.run_weighted(ck, ck.n(80, 800), "search-weighted", max_optimize=ck.n(40, 400))


def replay(ck, case):
    cases = []
    if "disagreements" in case:
        cases = [d["case"] for d in case["disagreements"]]
    else:
        cases = [case.get("case", case)]
    from harness.props import _c09_extra as X
    for c in cases:
        if X.is_extra_case(c):
            X.replay_case(ck, c)
            continue
        if c.get("kind") == "axes":
            print("create_aligned_global_axes on the real code:", real_axes(c))
        elif c.get("kind") == "align":
            r = real_align(c)
            print(f"align_index({c['x']}, {c['target']}, tolerance={c['tol']}, {c['method']!r}) = {r} on the real code; "
                  f"allowed by the statement: {sorted(map(str, allowed_images(c['method'], [F(t) for t in c['target']], F(c['x']), F(c['tol']))))}")
        else:
            real = real_tables(c)
            print("real tables:", json.dumps([show(x) if not isinstance(x, str) else x for x in real]))
            if real[0] == "ok":
                oracle_end_to_end(ck, c)
        run_cases(ck, [c], "replay")
    for d in ck.disagreements:
        print("DISAGREEMENT", d["what"])
    for v in ck.violations:
        print("VIOLATED:", v["what"])
