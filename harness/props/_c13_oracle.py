"""C13 — the statement evaluated on a `Result` (plus the spec it came from), independent of the Lean model.

Integer statistics are compared exactly; float statistics are recomputed with `fractions.Fraction` from the
arrays the Result reports (regime R: every double is an exact rational; stated tolerances below).
"""
from __future__ import annotations

import math
from fractions import Fraction

import numpy as np

from harness import gen_scheme
from harness.props import c02
from harness.props import _c13_gen as gen

EPS = 2.0 ** -52
# |float(np.sum(v**2)) - exact| <= (log2(n)+2) eps * exact for pairwise summation; 64 eps leaves room for any order
TOL_SUM = 64 * EPS
TOL_OP = 8 * EPS            # one or two correctly rounded operations (division, sqrt, multiplication)
TOL_PEN = 1e-10             # penalties recomputed from the reported clps / from a fresh objective evaluation
TOL_COV_SYM = 1e-9          # relative to max |C|
COND_LIMIT = 1e-4           # Penrose identities are evaluated when 1e3 * kappa(JtJ) * eps stays below this


def F(x):
    return Fraction(float(x))


def fsum_sq(a):
    return sum((F(v) ** 2 for v in np.asarray(a, dtype=float).ravel()), Fraction(0))


def rel_close(a: Fraction, b: Fraction, tol: float, floor: Fraction = Fraction(0)) -> bool:
    return abs(a - b) <= Fraction(tol) * max(abs(a), abs(b)) + floor


def isnan(x):
    return isinstance(x, float) and x != x or (hasattr(x, "dtype") and bool(np.isnan(x)))


# ------------------------------------------------------------------------------------------------
# expectations derived from the spec (label semantics of the statement, no provider code)
# ------------------------------------------------------------------------------------------------
def group_order(spec):
    order = []
    for ds in spec["datasets"]:
        if ds["group"] not in order:
            order.append(ds["group"])
    return order


def expected_clps(spec):
    """number of linear coefficients that remain after relations and constraints, per group.
    returns list of ints (group order) or None if the alignment is ambiguous"""
    P = spec["parameters"]
    out = []
    for g in group_order(spec):
        members = [ds for ds in spec["datasets"] if ds["group"] == g]
        n = 0
        if not gen_scheme.resolve_linked(spec, g):
            for ds in members:
                if ds.get("gmcs"):
                    model_labels = {l for mc in ds["mcs"] for l in mc["labels"]}
                    global_labels = {l for mc in ds["gmcs"] for l in mc["labels"]}
                    n += len(model_labels) * len(global_labels)
                    continue
                labels = _labels(ds)
                for x in ds["global_axis"]:
                    n += len(_remaining(spec, labels, x))
        else:
            aligned = c02._align([ds["global_axis"] for ds in members], spec.get("clp_link_tolerance", 0.0),
                                 spec.get("clp_link_method", "nearest"))
            if aligned is None:
                return None
            for v in sorted({v for al in aligned for v in al}):
                union = []
                for ds, al in zip(members, aligned):
                    if v in al:
                        union += [l for l in _labels(ds) if l not in union]
                n += len(_remaining(spec, union, v))
        out.append(n)
    return out


def _labels(ds):
    out = []
    for mc in ds["mcs"]:
        out += [l for l in mc["labels"] if l not in out]
    return out


def _remaining(spec, labels, x):
    """labels that keep a free coefficient at axis value x"""
    targets = {r["target"] for r in spec.get("relations", [])
               if r["target"] in labels and r["source"] in labels and c02._applies(r.get("interval"), x)}
    rest = [l for l in labels if l not in targets]
    removed = set()
    for c in spec.get("constraints", []):
        if c["target"] in rest:
            a = c02._applies(c.get("interval"), x)
            if c["type"] == "only":
                a = not a
            if a:
                removed.add(c["target"])
    return [l for l in rest if l not in removed]


def expected_points(spec):
    return sum(len(ds["model_axis"]) * len(ds["global_axis"]) for ds in spec["datasets"])


def penalties_from_result(spec, res, P):
    """equal-area penalties recomputed from the clps the result datasets report, per group"""
    out = []
    for g in group_order(spec):
        members = [ds for ds in spec["datasets"] if ds["group"] == g]
        pens = []
        if not gen_scheme.resolve_linked(spec, g):
            for ds in members:
                if ds.get("gmcs"):
                    continue
                r = res.data[ds["label"]]
                labels = [str(x) for x in r.clp.coords["clp_label"].values]
                c = np.asarray(r.clp.transpose("global", "clp_label").values, dtype=float)
                lab_idx = [labels for _ in ds["global_axis"]]
                clp_idx = [dict(zip(labels, row)) for row in c]
                pens += c02._penalties(spec, lab_idx, clp_idx, ds["global_axis"], P)
        else:
            aligned = c02._align([ds["global_axis"] for ds in members], spec.get("clp_link_tolerance", 0.0),
                                 spec.get("clp_link_method", "nearest"))
            axis = sorted({v for al in aligned for v in al})
            lab_idx, clp_idx = [], []
            for v in axis:
                union, vals = [], {}
                for ds, al in zip(members, aligned):
                    if v not in al:
                        continue
                    r = res.data[ds["label"]]
                    labels = [str(x) for x in r.clp.coords["clp_label"].values]
                    row = np.asarray(r.clp.transpose("global", "clp_label").values, dtype=float)[al.index(v)]
                    for l, x in zip(labels, row):
                        if l not in union:
                            union.append(l)
                            vals[l] = float(x)
                lab_idx.append(union)
                clp_idx.append(vals)
            pens += c02._penalties(spec, lab_idx, clp_idx, axis, P)
        out.append(pens)
    return out


def reevaluate(res):
    """the objective re-evaluated at the optimised parameters by a fresh Optimizer: (vector, per-group penalties, benign).
    The parameter values are handed over as they are (no round trip through the optimiser's log space).
    `benign`: every matrix handed to the linear solver has condition number <= 1e6 and column norms within [1e-6, 1e6]."""
    from glotaran.optimization import estimation_provider as ep
    from glotaran.optimization.optimizer import Optimizer
    opt = Optimizer(res.scheme, verbose=False, raise_exception=True)
    opt._parameters = res.optimized_parameters.copy()
    benign = [True]
    orig = ep.EstimationProvider.calculate_residual

    def spy(self, matrix, data):
        m = np.asarray(matrix, dtype=float)
        if m.size:
            norms = np.linalg.norm(m, axis=0)
            with np.errstate(all="ignore"):
                if not (np.all(np.isfinite(m)) and norms.min() >= 1e-6 and norms.max() <= 1e6 and np.linalg.cond(m) <= 1e6):
                    benign[0] = False
        return orig(self, matrix, data)
    ep.EstimationProvider.calculate_residual = spy
    try:
        pen = np.asarray(opt.calculate_penalty(), dtype=float).ravel()
    finally:
        ep.EstimationProvider.calculate_residual = orig
    return pen, [[float(v) for v in g.get_additional_penalties()] for g in opt._optimization_groups], benign[0]


def se_close(got, want, nn_value, err):
    """equality of standard errors: relative 1e-12, plus — for the back-transformed ones — the absolute rounding error
    of exp(err) - 1 (8 eps * exp(err)) times the value, so that exp(e) - 1 and expm1(e) are both accepted"""
    if got != got or want != want:
        return got != got and want != want
    tol = 1e-12 * max(abs(got), abs(want)) + 1e-300
    if nn_value is not None and err == err and err < 700:
        tol += 8 * EPS * abs(nn_value) * max(1.0, math.exp(err))
    return abs(got - want) <= tol


def nn_standard_error(value, err):
    """the documented back-transformation of a log-space error (np.log/np.exp: the code's own elementary functions)"""
    v = np.float64(value)
    lv = v + 1e-10 if v == 1 else v
    with np.errstate(all="ignore"):
        if np.float64(err) < np.abs(np.log(lv)):
            return float(v * (np.exp(np.float64(err)) - 1.0))
    return float(np.abs(v))


# ------------------------------------------------------------------------------------------------
# covariance certificates (exact arithmetic on the reported doubles)
# ------------------------------------------------------------------------------------------------
def fmat(a):
    a = np.asarray(a, dtype=float)
    return [[F(v) for v in row] for row in a]


def mmul(a, b):
    bt = list(zip(*b)) if b else []
    return [[sum((x * y for x, y in zip(r, c)), Fraction(0)) for c in bt] for r in a]


def mT(a):
    return [list(r) for r in zip(*a)] if a else []


def mmax(a):
    return max((abs(v) for r in a for v in r), default=Fraction(0))


def msub(a, b):
    return [[x - y for x, y in zip(r, s)] for r, s in zip(a, b)]


def covariance_certificates(J, C):
    """returns dict(name -> (residual, allowed, checked))  — Penrose conditions of C w.r.t. A = J^T J, symmetry, PSD"""
    J = np.asarray(J, dtype=float)
    C = np.asarray(C, dtype=float)
    n = J.shape[1]
    out = {}
    out["shape"] = (0 if C.shape == (n, n) else 1, 0, True)
    if C.shape != (n, n):
        return out, {}
    if not np.all(np.isfinite(C)):
        out["finite"] = (1, 0, True)
        return out, {"sv": [float(x) for x in (np.linalg.svd(J, compute_uv=False) if J.size else [])]}
    Jq, Cq = fmat(J), fmat(C)
    A = mmul(mT(Jq), Jq)
    nA, nC = mmax(A), mmax(Cq)
    sym = mmax(msub(Cq, mT(Cq)))
    out["symmetric"] = (float(sym), TOL_COV_SYM * float(nC), True)
    sv = np.linalg.svd(J, compute_uv=False) if J.size else np.zeros(0)
    smax = float(sv.max()) if sv.size else 0.0
    numerically_zero = 1e-12 * smax
    nz = [float(s) for s in sv if s > numerically_zero]
    info = {"sv": [float(s) for s in sv], "rank": len(nz), "n": n}
    if not nz:
        # J = 0 (numerically): the pseudo-inverse of 0 is 0
        out["pinv-of-zero"] = (float(nC), 0.0, smax == 0.0)
        return out, info
    kappa = (smax / min(nz)) ** 2
    info["kappa_JtJ"] = kappa
    # singular values in the grey zone between "numerically zero" and well above it make the numerical rank ambiguous
    grey = any(numerically_zero * 1e-4 < s <= numerically_zero for s in sv)
    allowed = 1e3 * kappa * EPS
    checked = allowed <= COND_LIMIT and not grey
    info["penrose_checked"] = checked
    if checked:
        AC = mmul(A, Cq)
        ACA = mmul(AC, A)
        CAC = mmul(Cq, AC)
        out["penrose1:ACA=A"] = (float(mmax(msub(ACA, A)) / nA) if nA else 0.0, allowed, True)
        out["penrose2:CAC=C"] = (float(mmax(msub(CAC, Cq)) / nC) if nC else (1.0 if nA else 0.0), allowed, True)
        out["penrose3:AC-symmetric"] = (float(mmax(msub(AC, mT(AC)))), allowed, True)
    else:
        for name in ("penrose1:ACA=A", "penrose2:CAC=C", "penrose3:AC-symmetric"):
            out[name] = (0.0, allowed, False)
    # positive semi-definite: x^T C x >= 0 for the coordinate vectors, their pairwise sums/differences and C's own rows
    # x = e_k: C_kk ; x = e_k +- e_l: C_kk + C_ll +- (C_kl + C_lk)
    worst = Fraction(0)
    for k in range(n):
        worst = min(worst, Cq[k][k])
        for l in range(k):
            cross = Cq[k][l] + Cq[l][k]
            worst = min(worst, Cq[k][k] + Cq[l][l] + cross, Cq[k][k] + Cq[l][l] - cross)
    out["psd:coordinate-forms"] = (float(-worst), 1e-9 * float(nC) * 4, True)
    if n:
        ev = np.linalg.eigvalsh((C + C.T) / 2)
        out["psd:min-eigenvalue"] = (float(max(0.0, -ev.min())), 1e-9 * float(max(abs(ev).max(), 0.0)) + 0.0, True)
    return out, info


# ------------------------------------------------------------------------------------------------
# the statement
# ------------------------------------------------------------------------------------------------
def weighted_residual_of(r):
    return r.weighted_residual if "weighted_residual" in r else r.residual


def check_result(ck, spec, res, case):
    """every clause of C13 on one successful Result.  Calls ck.violation(key, what, case) for each failing clause.
    returns a dict of facts for the evidence / the model comparison"""
    V = lambda key, what: ck.violation(key, what, case)
    facts = {}
    ck.oracle_evals += 1
    P_opt = {p.label: float(p.value) for p in res.optimized_parameters.all()}
    groups = group_order(spec)
    linked = {g: gen_scheme.resolve_linked(spec, g) for g in groups}
    tag = lambda: ",".join(sorted({"linked" if linked[g] else "unlinked" for g in groups}))

    # --- reported data ------------------------------------------------------------------------------
    for ds in spec["datasets"]:
        if ds["label"] not in res.data:
            V("result-missing-dataset", f"no result dataset {ds['label']!r}")
            return facts
    n_points = 0
    for ds in spec["datasets"]:
        r = res.data[ds["label"]]
        shp = tuple(r.residual.shape)
        M, G = len(ds["model_axis"]), len(ds["global_axis"])
        if sorted(shp) != sorted((M, G)):
            V("result-shape", f"{ds['label']!r}: residual has shape {shp}, data is {M} x {G}")
        n_points += int(np.prod(shp))
    add_pen = res.additional_penalty
    if add_pen is None or len(add_pen) != len(groups):
        V("additional-penalty-groups", f"additional_penalty has {None if add_pen is None else len(add_pen)} entries for {len(groups)} groups")
        return facts
    add_pen = [[float(v) for v in g] for g in add_pen]
    n_pen = sum(len(g) for g in add_pen)

    # --- integer statistics -------------------------------------------------------------------------
    N, nfree, nclp, dof = res.number_of_residuals, res.number_of_free_parameters, res.number_of_clps, res.degrees_of_freedom
    facts.update(N=N, nfree=nfree, nclp=nclp, dof=dof)
    if N != expected_points(spec) + n_pen or N != n_points + n_pen:
        V("number-of-residuals", f"number_of_residuals={N} but the datasets hold {expected_points(spec)} points "
          f"(result datasets: {n_points}) and there are {n_pen} penalties")
    want_free = gen.free_labels(spec)
    if nfree != len(want_free) or list(res.free_parameter_labels) != want_free:
        V("number-of-free-parameters", f"number_of_free_parameters={nfree}, free_parameter_labels={list(res.free_parameter_labels)} "
          f"but the varying parameters are {want_free}")
    exp = expected_clps(spec)
    facts["expected_clps"] = exp
    if exp is not None and nclp != sum(exp):
        V("number-of-clps:" + tag() + (":full-model" if any(d.get("gmcs") for d in spec["datasets"]) else "")
          + (":items" if spec.get("constraints") or spec.get("relations") else ""),
          f"number_of_clps={nclp} but {sum(exp)} linear coefficients remain after constraints and relations (per group {exp})")
    if dof != N - nfree - nclp:
        V("degrees-of-freedom", f"degrees_of_freedom={dof} != {N} - {nfree} - {nclp}")
    J = np.asarray(res.jacobian, dtype=float)
    if J.shape != (N, nfree):
        V("jacobian-shape", f"jacobian has shape {J.shape}, expected ({N}, {nfree})")

    # --- chi-square, cost ----------------------------------------------------------------------------
    chi = F(res.chi_square)
    ss_res = sum((fsum_sq(weighted_residual_of(res.data[ds["label"]]).values) for ds in spec["datasets"]), Fraction(0))
    ss_pen = sum((F(v) ** 2 for g in add_pen for v in g), Fraction(0))
    facts.update(chi=float(chi), ss_res=float(ss_res), ss_pen=float(ss_pen))
    if not rel_close(chi, ss_res + ss_pen, TOL_SUM):
        V("chi-square-decomposition:" + tag() + (":penalties" if n_pen else ""),
          f"chi_square={float(chi)!r} but sum of squared weighted residuals of the result datasets + squared additional "
          f"penalties = {float(ss_res + ss_pen)!r} (difference {float(chi - ss_res - ss_pen):.3e})")
    cost = F(res.cost)
    if not rel_close(cost * 2, chi, TOL_SUM):
        V("cost-ne-half-chi-square", f"cost={float(cost)!r} but chi_square/2={float(chi) / 2!r}")
    try:
        pen_vec, pen_groups, facts["solver_benign"] = reevaluate(res)
    except Exception as e:  # pragma: no cover
        V("reevaluation-raises", f"re-evaluating the objective at the optimised parameters raised {type(e).__name__}: {e}")
        pen_vec = None
    if pen_vec is not None:
        ss = fsum_sq(pen_vec)
        if len(pen_vec) != N:
            V("number-of-residuals-vs-objective", f"number_of_residuals={N} but the objective at the optimised parameters has {len(pen_vec)} entries")
        if not rel_close(cost * 2, ss, 1e-12):
            V("cost-ne-objective", f"cost={float(cost)!r} but 0.5*|objective(optimised parameters)|^2={float(ss) / 2!r}")
        if not rel_close(chi, ss, 1e-12):
            V("chi-square-ne-objective", f"chi_square={float(chi)!r} but |objective(optimised parameters)|^2={float(ss)!r}")
        for gi, (got, want) in enumerate(zip(add_pen, pen_groups)):
            scale = max([1e-300] + [abs(v) for v in got + want])
            if len(got) != len(want) or any(abs(a - b) > TOL_PEN * scale for a, b in zip(got, want)):
                V("additional-penalty-stale:" + ("linked" if linked[groups[gi]] else "unlinked"),
                  f"additional_penalty[{gi}]={got} but the penalties of the objective at the optimised parameters are {want}")
    try:
        from_clps = penalties_from_result(spec, res, P_opt)
    except Exception as e:  # pragma: no cover
        from_clps = None
        ck.diagnostic("penalties_from_result crashed", {"error": repr(e)})
    if from_clps is not None:
        for gi, (got, want) in enumerate(zip(add_pen, from_clps)):
            scale = max([1e-300] + [abs(v) for v in got + want] + [abs(float(v)) for d in spec["datasets"] if not d.get("gmcs")
                                                                    for v in np.asarray(res.data[d["label"]].clp.values).ravel()])
            if len(got) != len(want) or any(abs(a - b) > 1e-9 * scale for a, b in zip(got, want)):
                V("additional-penalty-vs-clps:" + ("linked" if linked[groups[gi]] else "unlinked"),
                  f"additional_penalty[{gi}]={got} but the equal-area penalties of the reported clps are {want}")

    # --- reduced chi-square, rmse --------------------------------------------------------------------
    red = res.reduced_chi_square
    if dof != 0:
        if not rel_close(F(red), chi / dof, TOL_OP):
            V("reduced-chi-square", f"reduced_chi_square={red!r} != chi_square/degrees_of_freedom={float(chi / dof)!r}")
        rmse = res.root_mean_square_error
        if chi / dof >= 0:
            if isnan(rmse) or not rel_close(F(rmse) ** 2, F(red), 4 * TOL_OP):
                V("root-mean-square-error", f"root_mean_square_error={rmse!r} but sqrt(reduced_chi_square)={math.sqrt(max(float(red), 0.0))!r}")
        elif not isnan(float(rmse)):
            V("root-mean-square-error", f"root_mean_square_error={rmse!r} for negative reduced chi-square {red!r}")
    elif math.isfinite(float(red)) and chi != 0:
        # dof = 0: chi_square / dof has no finite value (the code raises ZeroDivisionError and no Result exists)
        V("reduced-chi-square-at-zero-dof", f"degrees_of_freedom = 0 but reduced_chi_square = {red!r} (chi_square = {float(chi)!r})")
    facts["rmse"] = float(res.root_mean_square_error)
    if dof == 0:
        return facts

    # --- per-dataset rmse ----------------------------------------------------------------------------
    for ds in spec["datasets"]:
        r = res.data[ds["label"]]
        size = len(ds["model_axis"]) * len(ds["global_axis"])
        want = fsum_sq(r.residual.values) / size
        got = F(r.attrs["root_mean_square_error"]) ** 2
        if not rel_close(got, want, TOL_SUM):
            V("dataset-rmse", f"{ds['label']!r}: attrs['root_mean_square_error']={float(r.attrs['root_mean_square_error'])!r} "
              f"but sqrt(mean(residual^2))={math.sqrt(float(want))!r}")
        wwant = fsum_sq(weighted_residual_of(r).values) / size
        wgot = F(r.attrs["weighted_root_mean_square_error"]) ** 2
        if not rel_close(wgot, wwant, TOL_SUM):
            V("dataset-weighted-rmse" + (":weighted" if "weighted_residual" in r else ":unweighted"),
              f"{ds['label']!r}: attrs['weighted_root_mean_square_error']={float(r.attrs['weighted_root_mean_square_error'])!r} "
              f"but sqrt(mean(weighted_residual^2))={math.sqrt(float(wwant))!r}")

    # --- what a user reads off the Result: chi-square from the per-dataset weighted RMSE attributes -------------------
    from_rmse = sum((Fraction(len(ds["model_axis"]) * len(ds["global_axis"])) * F(res.data[ds["label"]].attrs["weighted_root_mean_square_error"]) ** 2
                     for ds in spec["datasets"]), Fraction(0)) + ss_pen
    if not rel_close(chi, from_rmse, 1e-12 + 8 * TOL_SUM):
        V("chi-square-vs-dataset-rmse:" + tag(),
          f"chi_square={float(chi)!r} but sum over datasets of size x weighted_root_mean_square_error^2 + squared penalties = {float(from_rmse)!r}")
    # witness class of `unweighted_rmse_not_chi_square_counterexample`: with a weight the unweighted RMSE attributes do not add up to chi-square
    if any("weighted_residual" in res.data[ds["label"]] for ds in spec["datasets"]):
        unw = sum((Fraction(len(ds["model_axis"]) * len(ds["global_axis"])) * F(res.data[ds["label"]].attrs["root_mean_square_error"]) ** 2
                   for ds in spec["datasets"]), Fraction(0)) + ss_pen
        ck.count("oracle:weighted-result:unweighted-rmse-sum-" + ("equals" if rel_close(chi, unw, 1e-9) else "differs-from") + "-chi-square")
    check_report(ck, spec, res, case)

    # --- covariance ----------------------------------------------------------------------------------
    C = np.asarray(res.covariance_matrix, dtype=float)
    if not np.all(np.isfinite(J)):
        ck.count("oracle:jacobian-non-finite")
        return facts
    certs, info = covariance_certificates(J, C)
    facts["cov"] = info
    for name, (resid, allowed, checked) in certs.items():
        if not checked:
            ck.count("oracle:cov-skipped:" + name.split(":")[0])
            continue
        ck.count("oracle:cov-checked:" + name.split(":")[0])
        if not (resid <= allowed):
            key = "covariance-" + name.split(":")[0]
            if name.startswith("penrose1") and info.get("sv") and all(s * s <= EPS for s in info["sv"] if s > 1e-12 * max(info["sv"])):
                key = "covariance-penrose1:all-singular-values-below-sqrt-eps"
            elif name.startswith("penrose1") and any(s * s <= EPS for s in info.get("sv", []) if s > 1e-12 * max(info["sv"])):
                key = "covariance-penrose1:some-singular-values-below-sqrt-eps"
            V(key, f"covariance matrix is not the symmetric positive semi-definite pseudo-inverse of J^T J: {name} residual {resid:.3e} "
              f"> allowed {allowed:.3e} (singular values of J: {info.get('sv')})")

    # --- standard errors -----------------------------------------------------------------------------
    if C.shape == (nfree, nfree) and not isnan(float(res.root_mean_square_error)):
        with np.errstate(all="ignore"):
            errs = float(res.root_mean_square_error) * np.sqrt(np.diag(C))
        for label, err in zip(res.free_parameter_labels, errs):
            p = res.optimized_parameters.get(label)
            got = float(p.standard_error)
            want = nn_standard_error(p.value, err) if p.non_negative else float(err)
            ok = se_close(got, want, float(p.value) if p.non_negative else None, float(err))
            if not ok:
                V("standard-error" + (":non-negative" if p.non_negative else ""),
                  f"standard_error of {label!r} is {got!r}, expected {want!r} (rmse x sqrt(diag) = {float(err)!r}, value {float(p.value)!r})")
            if got < 0:
                V("standard-error-negative", f"standard_error of {label!r} is {got!r}")
        # a parameter whose column of the Jacobian is exactly zero (nothing depends on it): a singular direction — its row and
        # column of the pseudo-inverse are zero and its standard error is 0, not inf / nan (Lean: stderr_of_singular_direction).
        # Judged only where the Penrose identities are (well-conditioned J^T J): next to a tiny singular value LAPACK may
        # rotate the zero direction into the kept ones, and 1/s^2 amplifies that rounding.
        if J.shape == (N, nfree) and np.all(np.isfinite(C)) and res.root_mean_square_error == res.root_mean_square_error \
                and info.get("penrose_checked"):
            cmax = float(np.abs(C).max()) if C.size else 0.0
            for j, label in enumerate(res.free_parameter_labels):
                if N and not np.any(J[:, j]):
                    ck.count("oracle:zero-jacobian-column")
                    got = float(res.optimized_parameters.get(label).standard_error)
                    big = float(res.root_mean_square_error) * math.sqrt(max(cmax, 0.0))
                    if float(np.abs(C[j, :]).max()) > 1e-9 * cmax or float(np.abs(C[:, j]).max()) > 1e-9 * cmax or not (abs(got) <= 1e-4 * big):
                        V("standard-error-of-singular-direction", f"column {j} of the Jacobian is zero but covariance row {C[j, :].tolist()} / "
                          f"standard_error of {label!r} = {got!r} (expected 0; max |C| = {cmax!r})")
        fixed = [p for p in res.optimized_parameters.all() if p.label not in res.free_parameter_labels]
        for p in fixed:
            if not isnan(float(p.standard_error)):
                V("standard-error-on-fixed-parameter", f"fixed parameter {p.label!r} got standard_error {p.standard_error!r}")
    return facts


# ------------------------------------------------------------------------------------------------
# the report: Result.markdown() against the fields of the Result
# ------------------------------------------------------------------------------------------------
REPORT_ROWS = [("Number of residuals", "number_of_residuals", int), ("Number of free parameters", "number_of_free_parameters", int),
               ("Number of conditionally linear parameters", "number_of_clps", int), ("Degrees of freedom", "degrees_of_freedom", int),
               ("Chi Square", "chi_square", float), ("Reduced Chi Square", "reduced_chi_square", float),
               ("Root Mean Square Error (RMSE)", "root_mean_square_error", float)]


def table_rows(md):
    rows = []
    for line in str(md).splitlines():
        line = line.strip()
        if line.startswith("|") and line.endswith("|") and set(line) - set("|-: "):
            rows.append([c.strip() for c in line[1:-1].split("|")])
    return rows


def same_shown(cell, value):
    """the cell shows `value` to the three significant digits of the format .2e"""
    want = format(float(value), ".2e")
    if cell == want:
        return True
    try:
        return float(cell) == float(want) or (float(cell) != float(cell) and float(want) != float(want))
    except ValueError:
        return False


def check_report(ck, spec, res, case):
    V = lambda key, what: ck.violation(key, what, case)
    labels = [ds["label"] for ds in spec["datasets"]]
    if any(("|" in l or "\n" in l) for l in labels):
        ck.count("report:skipped:label-with-bar")
        return
    import dataclasses
    variants = [("as-is", res)]
    if not getattr(ck, "_c13_zero_report_done", False):
        ck._c13_zero_report_done = True
        # the same report for a Result whose float statistics are exactly zero (a perfect fit)
        variants.append(("zero-statistics", dataclasses.replace(res, chi_square=0.0, reduced_chi_square=0.0, root_mean_square_error=0.0)))
    for vname, r in variants:
        try:
            rows = table_rows(r.markdown(with_model=False))
        except Exception as e:
            V("report-raises", f"Result.markdown raised {type(e).__name__}: {e}")
            return
        ck.count("report:checked:" + vname)
        cells = {row[0]: row[1:] for row in rows if len(row) >= 2}
        for label, field, kind in REPORT_ROWS:
            value = getattr(r, field)
            if label not in cells:
                V("report-row-missing", f"the report has no row {label!r}")
                continue
            cell = cells[label][0]
            ok = (cell == str(int(value))) if kind is int else same_shown(cell, value)
            if not ok:
                V("report-value:" + field + (":zero" if vname == "zero-statistics" else ""),
                  f"the report shows {cell!r} in row {label!r} but result.{field} = {value!r}")
        if len(r.data) > 1 and vname == "as-is":
            header = next((row for row in rows if row and row[0] == "RMSE (per dataset)"), None)
            if header is None or header[1:] != ["weighted", "unweighted"]:
                V("report-rmse-table", f"per-dataset RMSE table header is {header}")
                continue
            for k, (label, ds) in enumerate(r.data.items(), start=1):
                row = cells.get(f"{k}.{label}:")
                if row is None or len(row) != 2:
                    V("report-rmse-table", f"no row for dataset {label!r} in the per-dataset RMSE table")
                    continue
                for name, cell, value in (("weighted", row[0], ds.attrs["weighted_root_mean_square_error"]), ("unweighted", row[1], ds.attrs["root_mean_square_error"])):
                    if not same_shown(cell, float(value)):
                        V("report-rmse-table:" + name, f"dataset {label!r}: the report shows {cell!r} under {name!r} but the attribute is {float(value)!r}")
