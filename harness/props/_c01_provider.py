"""C01 — the EstimationProvider glue around the two kernels (goal 3 of the C01 extension).

Real code: optimize() on one-dataset schemes (unlinked and linked group; both residual-function keys and a group that
does not set the option; dataset weights; index-dependent matrices; zero / only constraints with and without intervals).
API-level observables: Result.data['d1'].clp BY LABEL, .weighted_residual (the residual that enters the fit; = .residual
for an unweighted dataset), .residual, exceptions.  Internal observable (diagnostic only): the (matrix, data) handed to
EstimationProvider.calculate_residual at every global index, captured by a monkeypatch.

Model: lean/GlotaranModel/C01Provider.lean, operation `estimate` (reduceColumns, weightMatrix / weightData, dispatch on the
group's key or the regenerated default, kernel, retrieveClps).

Oracle (independent of the model, numpy long double, from the spec alone): per global index the weighted full matrix,
the kept columns by LABEL, the certificate of the property for the kept clp (c01.oracle on the reduced weighted problem),
removed labels report exactly 0, weighted_residual == w*data - (w*matrix) @ clp and residual == data - matrix @ clp.
"""
from __future__ import annotations

import itertools
import json
import warnings
from fractions import Fraction

import numpy as np

from harness import core
from harness.props import c01

LD = c01.LD
KEYS = (None, "variable_projection", "non_negative_least_squares")
CONSTRAINT_KINDS = ("none", "zero", "zero-interval", "none", "only", "zero-interval", "two", "zero-first")
WEIGHTS = (0.25, 0.5, 1.0, 2.0, 4.0)


# ------------------------------------------------------------------------------------------
# specs
# ------------------------------------------------------------------------------------------
def _int_matrix(rng, m, n):
    """small integer matrix, full column rank, modest condition (every column subset is then full rank too)"""
    for _ in range(200):
        a = np.array([[rng.randint(-3, 5) for _ in range(n)] for _ in range(m)], dtype=float)
        if np.linalg.matrix_rank(a) == n and np.linalg.cond(a) < 60:
            return a
    a = np.zeros((m, n))
    for j in range(n):
        a[j, j] = 2.0
        a[(j + 1) % m, j] += 1.0
    return a


def make_spec(rng, i):
    """the i-th spec of the stream: the features cycle (so every combination class is reached), the numbers are random"""
    rf = KEYS[i % 3]
    link = (False, True, None)[(i // 3) % 3]
    weighted = (i % 7) not in (0, 3)          # moduli 3, 9, 7, 5, 8: every combination of the five features within 2520 specs, most within 360
    idx_dep = (i % 5) in (1, 3)
    ckind = CONSTRAINT_KINDS[i % len(CONSTRAINT_KINDS)]
    n = rng.randint(2, 4)
    m = rng.randint(n + 2, 9)
    G = rng.randint(2, 4)
    labels = [f"s{j+1}" for j in range(n)]
    if rng.random() < 0.3:
        rng.shuffle(labels)                       # label order of the megacomplex is not alphabetical
    par = rng.choice([1.0, 1.0, 2.0, 0.5])
    gax = [float(x) for x in range(G)] if rng.random() < 0.6 else [1.5 + 0.5 * x for x in range(G)]
    base = [_int_matrix(rng, m, n) for _ in range(G)] if idx_dep else _int_matrix(rng, m, n)
    W = None
    if weighted:
        W = np.array([[rng.choice(WEIGHTS) for _ in range(G)] for _ in range(m)])
        if np.all(W == W[0, 0]):
            W[rng.randrange(m), rng.randrange(G)] *= 2.0
    cons = []
    mid = gax[G // 2]
    if ckind == "zero":
        cons.append({"type": "zero", "target": rng.choice(labels[:-1]), "interval": None})
    elif ckind == "zero-first":
        cons.append({"type": "zero", "target": labels[0], "interval": None})
    elif ckind == "zero-interval":
        cons.append({"type": "zero", "target": rng.choice(labels[:-1]),
                     "interval": rng.choice([[gax[0] - 1.0, gax[0]], [mid, gax[-1] + 1.0], [mid - 0.25, mid + 0.25]])})
    elif ckind == "only":
        cons.append({"type": "only", "target": rng.choice(labels), "interval": rng.choice([[gax[0], mid], [mid, mid]])})
    elif ckind == "two":
        t = rng.sample(labels, 2) if n >= 3 else [labels[0], labels[0]]
        cons.append({"type": "zero", "target": t[0], "interval": [gax[0] - 0.5, mid]})
        cons.append({"type": "zero", "target": t[1], "interval": [mid, gax[-1]]})
    # data: per index a combination with a NEGATIVE coefficient (the two kernels differ), distinct coefficients (a clp
    # under a wrong label is visible) and dyadic noise outside the column space (weighting changes the solution)
    Y = np.zeros((m, G))
    for g in range(G):
        A = (base[g] if idx_dep else base) * par
        c0 = np.array(rng.sample([-3.0, -2.0, -1.0, 1.0, 2.0, 3.0, 4.0, 5.0], n))
        if not (c0 < 0).any():
            c0[rng.randrange(n)] *= -1.0
        noise = np.array([rng.choice([-1.0, -0.5, 0.0, 0.5, 1.0, 1.5]) for _ in range(m)])
        if not noise.any():
            noise[0] = 1.0
        Y[:, g] = A @ c0 + noise
    spec = {"groups": {"default": {"link_clp": link, "residual_function": rf}}, "parameters": {"p.1": par},
            "datasets": [{"label": "d1", "group": "default", "global_axis": gax, "model_axis": [float(x) for x in range(m)],
                          "data": Y.tolist(), "weight": None if W is None else W.tolist(), "scale": None,
                          "mcs": [{"labels": labels, "index_dependent": idx_dep,
                                   "base": [b.tolist() for b in base] if idx_dep else base.tolist(),
                                   "pars": ["p.1"] * n, "scale": None}],
                          "gmcs": []}],
            "constraints": cons, "relations": []}
    return spec


def fixed_specs():
    """hand-made specs every run: the smallest scheme of every class (weighted, index dependent, zero constraint on the
    FIRST label, only constraint, no key, linked)"""
    A = [[1.0, 1.0, 0.0], [1.0, 2.0, 1.0], [1.0, 3.0, 0.0], [1.0, 4.5, 2.0], [0.0, 1.0, 3.0]]
    A2 = [[2.0, 0.0, 1.0], [0.0, 1.0, 1.0], [1.0, 1.0, 0.0], [3.0, -1.0, 2.0], [1.0, 0.0, -2.0]]
    Y = [[3.0, -3.0, 1.0], [2.0, -2.0, 4.5], [1.0, -1.0, -2.0], [0.25, 5.0, 0.5], [-1.0, 2.0, 7.0]]
    W = [[1.0, 2.0, 0.5], [2.0, 1.0, 1.0], [0.5, 4.0, 2.0], [1.0, 1.0, 0.25], [4.0, 0.5, 1.0]]
    out = []
    for k, (rf, link, w, dep, cons) in enumerate([
            (None, False, None, False, []),
            (None, True, W, False, []),
            ("variable_projection", False, W, False, [{"type": "zero", "target": "s1", "interval": None}]),
            ("non_negative_least_squares", True, W, True, [{"type": "zero", "target": "s1", "interval": [0.5, 1.5]}]),
            (None, None, None, True, [{"type": "only", "target": "s2", "interval": [0.0, 0.5]}]),
            ("variable_projection", True, W, True, [{"type": "zero", "target": "s2", "interval": [1.0, 2.0]},
                                                     {"type": "zero", "target": "s1", "interval": [2.0, 3.0]}]),
    ]):
        out.append({"groups": {"default": {"link_clp": link, "residual_function": rf}}, "parameters": {"p.1": 1.0},
                    "datasets": [{"label": "d1", "group": "default", "global_axis": [0.0, 1.0, 2.0],
                                  "model_axis": [0.0, 1.0, 2.0, 3.0, 4.0], "data": Y, "weight": w, "scale": None,
                                  "mcs": [{"labels": ["s1", "s2", "s3"], "index_dependent": dep,
                                           "base": [A, A2, A] if dep else A, "pars": ["p.1"] * 3, "scale": None}],
                                  "gmcs": []}],
                    "constraints": cons, "relations": []})
    return out


# ------------------------------------------------------------------------------------------
# the harness' own reading of a spec (independent of the model and of the code)
# ------------------------------------------------------------------------------------------
def _in(iv, x):
    lo, hi = min(iv), max(iv)
    return lo <= x <= hi


def removed_at(spec, labels, x):
    """labels whose clp a constraint fixes to zero at global axis value x (zero: inside its interval / everywhere;
    only: outside its interval), in label order"""
    rem = set()
    for c in spec.get("constraints", []):
        if c["target"] not in labels:
            continue
        iv = c.get("interval")
        inside = True if iv is None else _in(iv, x)
        if (c["type"] == "zero" and inside) or (c["type"] == "only" and not inside):
            rem.add(c["target"])
    return [l for l in labels if l in rem]


def expected(spec):
    ds = spec["datasets"][0]
    mc = ds["mcs"][0]
    labels = list(mc["labels"])
    par = spec["parameters"]["p.1"]
    G = len(ds["global_axis"])
    base = np.array(mc["base"], dtype=float)
    mats = [(base[g] if mc["index_dependent"] else base) * par for g in range(G)]
    Y = np.array(ds["data"], dtype=float)
    W = None if ds.get("weight") is None else np.array(ds["weight"], dtype=float)
    rem = [removed_at(spec, labels, x) for x in ds["global_axis"]]
    return labels, mats, Y, W, rem


# ------------------------------------------------------------------------------------------
# real code
# ------------------------------------------------------------------------------------------
def run_real(spec):
    """optimize() with calculate_residual instrumented; returns dict(error=..) or the observables"""
    from harness import gen_scheme
    from glotaran.optimization import estimation_provider as ep
    from glotaran.optimization.optimize import optimize
    gen_scheme.model_class()
    captured = []
    orig = ep.EstimationProvider.calculate_residual

    def spy(self, matrix, data):
        captured.append((np.array(matrix, dtype=float, copy=True), np.array(data, dtype=float, copy=True)))
        return orig(self, matrix, data)

    ep.EstimationProvider.calculate_residual = spy
    try:
        scheme, _, _, _ = gen_scheme.build(spec)
        with warnings.catch_warnings():
            warnings.simplefilter("ignore")
            res = optimize(scheme, verbose=False, raise_exception=True)
        ds = res.data["d1"]
        out = {"error": None, "clp_labels": [str(x) for x in ds.clp.coords["clp_label"].values],
               "clp": ds.clp.transpose("global", "clp_label"),
               "residual": np.asarray(ds.residual.transpose("model", "global").values, dtype=float),
               "weighted_residual": (np.asarray(ds.weighted_residual.transpose("model", "global").values, dtype=float)
                                     if "weighted_residual" in ds else None),
               "data": np.asarray(ds.data.transpose("model", "global").values, dtype=float),
               "matrix": ds.matrix, "captured": captured}
        return out
    except Exception as e_:
        return {"error": type(e_).__name__, "message": str(e_)[:160], "captured": captured}
    finally:
        ep.EstimationProvider.calculate_residual = orig


def solves(kernel, A, y, c):
    """is c the solution the kernel's property asks for on (A, y)?"""
    if A.shape[1] != len(c):
        return False
    if A.shape[1] == 0:
        return True
    return kernel in c01.classify_output(A, y, np.asarray(c, dtype=float), None)


def diagnose(kernel, key, labels, kept, mats, Y, W, g, Cg, Rg):
    """a specific class name for a (clp, residual) pair that is NOT the optimum / residual of the right problem: of which
    wrong problem is it the optimum / residual?  (oracle side only: it names the class of the failing input, it never
    clears a violation)"""
    n = len(labels)
    A, y = mats[g], Y[:, g]
    w = np.ones(len(y)) if W is None else W[:, g]
    Aw, yw = A * w[:, None], y * w
    idx = [labels.index(l) for l in kept]
    ck_ = np.array([Cg[j] for j in idx])
    right = solves(kernel, Aw[:, idx], yw, ck_)

    def fits(A_, y_, c_=ck_):
        """(A_, y_) explains the output: c_ solves it (when the clp are wrong) / the residual is y_ - A_ c_ (when they are right)"""
        if not right:
            return solves(kernel, A_, y_, c_)
        r_ = y_ - A_ @ c_ if A_.shape[1] == len(c_) else None
        return r_ is not None and np.allclose(r_, Rg, rtol=1e-9, atol=1e-9 * (1.0 + np.abs(y_).max()))

    if W is not None:
        if fits(A[:, idx], yw):
            return "provider-unweighted-matrix"
        if fits(Aw[:, idx], y):
            return "provider-unweighted-data"
        if fits(A[:, idx], y):
            return "provider-weight-ignored"
    for h in range(Y.shape[1]):
        if h == g:
            continue
        wh = np.ones(len(y)) if W is None else W[:, h]
        if fits(Aw[:, idx], Y[:, h] * wh):
            return "provider-data-of-other-index"
        if fits((mats[h] * wh[:, None])[:, idx], yw):
            return "provider-matrix-of-other-index"
        if fits((mats[h] * wh[:, None])[:, idx], Y[:, h] * wh):
            return "provider-result-of-other-index"
        if W is not None and (fits((A * wh[:, None])[:, idx], yw) or fits(Aw[:, idx], y * wh)):
            return "provider-weight-of-other-index"
    other = "nnls" if kernel == "vp" else "vp"
    if not right and solves(other, Aw[:, idx], yw, ck_):
        return "provider-wrong-default" if key is None else "provider-wrong-kernel"
    if len(kept) < n and not right:
        vals = list(Cg)                      # the reported numbers are right, but under other labels?
        for perm in itertools.permutations(range(n), len(kept)):
            cand = np.array([vals[p] for p in perm])
            if not np.array_equal(cand, ck_) and solves(kernel, Aw[:, idx], yw, cand):
                return "provider-clp-under-wrong-label"
        for cols in itertools.combinations(range(n), len(kept)):
            if list(cols) != idx and solves(kernel, Aw[:, list(cols)], yw, ck_):
                return "provider-wrong-columns-removed"
        if solves(kernel, Aw, yw, np.asarray(Cg)):
            return "provider-constraint-not-applied"
    return None


# ------------------------------------------------------------------------------------------
# one spec: real code, oracle, model lines
# ------------------------------------------------------------------------------------------
def check_spec(ck, spec, entries, verbose=False):
    from scipy.linalg import lapack
    case = {"provider_spec": spec}
    grp = spec["groups"]["default"]
    key = grp.get("residual_function")
    kernel = "nnls" if key == "non_negative_least_squares" else "vp"      # no key: the documented default is VP
    labels, mats, Y, W, rem = expected(spec)
    m, G, n = Y.shape[0], Y.shape[1], len(labels)
    ds = spec["datasets"][0]
    ck.case(("provider", json.dumps(spec, sort_keys=True)), True)
    ck.count("provider:key=" + str(key))
    ck.count("provider:link_clp=" + str(grp.get("link_clp")))
    ck.count("provider:weighted=" + str(W is not None))
    ck.count("provider:index-dependent=" + str(ds["mcs"][0]["index_dependent"]))
    ck.count("provider:constraints=" + ("+".join(c["type"] + ("" if c.get("interval") is None else "-interval")
                                                   for c in spec["constraints"]) or "none"))
    real = run_real(spec)
    if verbose:
        print("REAL provider", {k: (v if k in ("error", "message", "clp_labels") else "...") for k, v in real.items()})
    if real["error"]:
        ck.violation("provider-raises:" + real["error"], f"optimize raised {real['error']}: {real.get('message')} on a one-dataset "
                     f"scheme (key {key!r}, weight {W is not None}, constraints {spec['constraints']})", case)
        return
    if sorted(real["clp_labels"]) != sorted(labels):
        ck.violation("provider-clp-labels", f"Result clp labels {real['clp_labels']} are not the labels {labels} of the matrix", case)
        return
    if not np.array_equal(real["data"], Y):
        ck.violation("provider-data-changed", "Result.data differs from the input data", case)
        return
    # the matrix of the result (unweighted, full labels), by label
    try:
        Mres = real["matrix"]
        for g in range(G):
            Mg = Mres.isel({"global": g}) if "global" in Mres.dims else Mres
            Mg = np.asarray(Mg.transpose("model", "clp_label").sel(clp_label=labels).values, dtype=float)
            if not np.array_equal(Mg, mats[g]):
                ck.diagnostic("provider: Result matrix differs from base*parameter of the spec (parameter moved?)", {**case, "index": g})
                ck.count("provider:result-matrix-differs")
                break
    except Exception as e_:
        ck.diagnostic("provider: Result matrix could not be read by label", {**case, "error": repr(e_)})
    C = np.stack([np.asarray(real["clp"].sel(clp_label=l).values, dtype=float) for l in labels], axis=1)     # global x label
    Rw = real["weighted_residual"] if real["weighted_residual"] is not None else real["residual"]
    if W is not None and real["weighted_residual"] is None:
        ck.violation("provider-no-weighted-residual", "weighted dataset: the result has no weighted_residual", case)
        return
    cap = real["captured"][-G:] if len(real["captured"]) >= G else None
    has_items = bool(spec["constraints"])
    for g in range(G):
        A, y = mats[g], Y[:, g]
        w = np.ones(m) if W is None else W[:, g]
        Aw, yw = A * w[:, None], y * w
        kept = [l for l in labels if l not in rem[g]]
        idx = [labels.index(l) for l in kept]
        Ak = Aw[:, idx]
        kappa = c01.cond_of(Ak)
        where = f"Result.data['d1'] at global index {g} (key {key!r}, {'weighted' if W is not None else 'unweighted'}, removed {rem[g]})"
        ck.count(f"provider:removed={len(rem[g])}/{n}")
        bad_here = []
        # (1) removed labels report exactly 0
        nz = [l for l in rem[g] if C[g, labels.index(l)] != 0.0]
        if nz:
            cls = diagnose(kernel, key, labels, kept, mats, Y, W, g, C[g], Rw[:, g])
            k_ = cls if cls in ("provider-clp-under-wrong-label", "provider-constraint-not-applied", "provider-wrong-columns-removed") \
                else "provider-removed-clp-nonzero"
            bad_here.append((k_, f"clp of the constrained label(s) {nz} is {[float(C[g, labels.index(l)]) for l in nz]}, not 0", {}))
        # (2) the kept clp are optimal for the reduced weighted problem; the residual is the one of that problem
        out = {"error": None, "clp": C[g, idx].copy(), "residual": Rw[:, g].copy(), "clp_shape": (len(idx),), "residual_shape": Rw[:, g].shape}
        inst = {"family": "provider", "ykind": "gen", "A": c01.hx(Ak), "y": c01.hx(yw), "m": m, "n": len(idx), "layout": "C",
                "ylayout": "colslice", "kernels": [kernel]}
        bad = c01.oracle(ck, kernel, inst, Ak, yw, out, kappa)
        if bad and not bad_here:
            cls = diagnose(kernel, key, labels, kept, mats, Y, W, g, C[g], Rw[:, g])
            for k_, what, obs in bad:
                bad_here.append((cls or ("provider:" + k_), what + (f" [{cls}]" if cls else ""), obs))
        # (3) the same residual from the FULL labelled vector on the full weighted matrix, and the unweighted residual
        Al, cl = Aw.astype(LD), C[g].astype(LD)
        den = c01.l2(yw.astype(LD)) + c01.l2(Al.ravel()) * c01.l2(cl)
        tol = LD(c01.gamma(m, n)) * den
        if c01.l2(Rw[:, g].astype(LD) - (yw.astype(LD) - Al @ cl)) > tol and not bad_here:
            bad_here.append(("provider-residual-ne-data-minus-matrix-clp", "|weighted_residual - (w*data - (w*matrix) @ clp)| beyond the tolerance "
                             "for the full labelled clp vector", {}))
        den_u = c01.l2(y.astype(LD)) + c01.l2(A.astype(LD).ravel()) * c01.l2(cl)
        if c01.l2(real["residual"][:, g].astype(LD) - (y.astype(LD) - A.astype(LD) @ cl)) > LD(c01.gamma(m, n)) * den_u * LD(max(w.max(), 1.0) / min(w.min(), 1.0)) \
                and not bad_here:
            bad_here.append(("provider-unweighted-residual-ne-data-minus-matrix-clp", "|residual - (data - matrix @ clp)| beyond the tolerance", {}))
        for k_, what, obs in bad_here:
            ck.violation(k_, where + ": " + what, {**case, "index": g, "observed": obs, "clp_by_label": dict(zip(labels, c01.hx(C[g])))})
        if verbose:
            print(f"REAL index {g}: clp", dict(zip(labels, C[g].tolist())), "removed", rem[g], "oracle", [b[0] for b in bad_here] or "ok")
        # internal observable: what was handed to the kernel
        if cap is not None:
            cm, cd = cap[g]
            if cm.shape != Ak.shape or not np.array_equal(cm, Ak) or not np.array_equal(cd, yw):
                ck.count("provider:internal-kernel-input-differs")
                ck.diagnostic("provider: the (matrix, data) handed to calculate_residual differ from the reduced weighted problem of the spec",
                              {**case, "index": g, "captured_matrix": cm.tolist(), "expected_matrix": Ak.tolist(),
                               "captured_data": cd.tolist(), "expected_data": yw.tolist()})
            else:
                ck.count("provider:internal-kernel-input-agrees")
        # model lines
        if entries is not None:
            if len(idx):
                qr, tau, _, _ = lapack.dgeqrf(Ak)
                qrs, taus = c01.pmat(qr), core.rats(tau)
            else:
                qrs, taus = "[]", "[]"
            lines = [f"set {c01.pmat(A)} {core.rats(y)}",
                     "estimate {} {} {} {} {} {} {}".format("none" if key is None else core.enc(key), core.bool_(has_items), core.strs(labels),
                                                            core.strs(rem[g]), "none" if W is None else core.rats(w), qrs, taus)]
            entries.append({"lines": lines, "case": case, "g": g, "labels": labels, "kept": kept, "C": C[g], "Rw": Rw[:, g], "Ak": Ak, "yw": yw,
                            "Aw": Aw, "kappa": kappa, "kernel": kernel, "explained": bool(bad_here), "cap": None if cap is None else cap[g]})


def judge_provider(ck, e, ans):
    """model vs implementation for one global index (tolerances of c01.judge_calc)"""
    a = ans[1]
    case, g = e["case"], e["g"]
    if ans[0] != "ok" or a in ("bad-op", "bad-line"):
        raise core.HarnessError(f"model rejected a provider protocol line: {e['lines'][1][:160]}")

    def dis(key, what, **obs):
        d = {"key": key, "what": what, "case": {**case, "index": g, **obs}}
        if e["explained"]:
            d["explained"] = True            # the oracle reports this input as a violation already
        ck.disagreements.append(d)

    if not a.startswith("estimate ["):
        dis("provider-model-outcome", f"model answered {a!r}, the implementation returned a result")
        return
    t = core.parse_tree(a)
    cm = np.array([c01.to_float(Fraction(x)) for x in t[1]], dtype=float)
    rm = np.array([c01.to_float(Fraction(x)) for x in t[2]], dtype=float)
    red = [core.dec(x) for x in t[3]]
    Mk = np.array([[c01.to_float(Fraction(x)) for x in row] for row in t[4]], dtype=float).reshape(len(e["yw"]), len(red))
    dk = np.array([c01.to_float(Fraction(x)) for x in t[5]], dtype=float)
    # the harness factorised the matrix it believes the kernel gets: the model must have handed the same one to its kernel
    if red != e["kept"] or not np.array_equal(Mk, e["Ak"]) or not np.array_equal(dk, e["yw"]):
        raise core.HarnessError("provider: the model's kernel input differs from the harness' reduced weighted problem "
                                f"(labels {red} vs {e['kept']}) — machinery inconsistency")
    if e["cap"] is not None:
        cmx, cdx = e["cap"]
        same = cmx.shape == Mk.shape and np.array_equal(cmx, Mk) and np.array_equal(cdx, dk)
        ck.count("provider:model-kernel-input-" + ("agrees" if same else "differs"))
        if not same:
            ck.diagnostic("provider: kernel input of the model differs from the captured one", {**case, "index": g})
    labels, C = e["labels"], e["C"]
    if len(cm) != len(labels):
        dis("provider-clp-shape", f"model reports {len(cm)} clp for {len(labels)} labels")
        return
    # removed labels: exactly zero on both sides
    for j, l in enumerate(labels):
        if l not in e["kept"] and (cm[j] != 0.0 or C[j] != 0.0):
            dis("provider-removed-label", f"label {l!r} is constrained to zero: model {cm[j]!r}, implementation {C[j]!r}", label=l)
    m, n = e["Aw"].shape
    Al = e["Aw"].astype(LD)
    den = c01.l2(e["yw"].astype(LD)) + c01.l2(Al.ravel()) * c01.l2(C)
    tol = LD(c01.gamma_nnls(m, n)) * LD(max(1.0, min(e["kappa"], 1e12))) * den
    dc = c01.l2(Al @ (C.astype(LD) - cm.astype(LD)))
    dr = c01.l2(e["Rw"].astype(LD) - rm.astype(LD))
    c01.track(ck, "provider:model:clp", dc, tol)
    c01.track(ck, "provider:model:residual", dr, tol)
    ck.count("provider:model-compared")
    if dc > tol or dr > tol:
        dis("provider-vs-model", f"labelled clp / weighted residual at index {g} differ from the model's estimateAt: |A(c_impl-c_model)| = "
            f"{float(dc):.3g}, |r_impl-r_model| = {float(dr):.3g} > {float(tol):.3g}",
            impl_clp=dict(zip(labels, c01.hx(C))), model_clp=dict(zip(labels, c01.hx(cm))))


def flush_entries(ck, entries):
    if not entries:
        return
    lines = [l for e in entries for l in e["lines"]]
    ans = core.lean_driver(c01.PROP, lines)
    for i, e in enumerate(entries):
        judge_provider(ck, e, ans[2 * i: 2 * i + 2])
    entries.clear()


def provider_stream(ck, batch, count):
    """`batch is None`: oracle only (widened search); otherwise also the model (own protocol batch, flushed here)"""
    import time
    t0 = time.time()
    entries = None if batch is None else []
    specs = fixed_specs() + [make_spec(ck.rng, i) for i in range(count)]
    for i, spec in enumerate(specs):
        check_spec(ck, spec, entries)
        ck.count("stream:provider")
        if i in (2, 7):
            ck.sample({"provider_spec": spec})
        if batch is None and ck.violations:
            return
    flush_entries(ck, entries)
    ck.extra["provider_stream"] = {"specs": len(specs), "wall_s": round(time.time() - t0, 1)}


def replay_provider(ck, case):
    spec = case["provider_spec"]
    entries = []
    check_spec(ck, spec, entries, verbose=True)
    try:
        lines = [l for e in entries for l in e["lines"]]
        ans = core.lean_driver(c01.PROP, lines)
        for i, e in enumerate(entries):
            print("MODEL index", e["g"], ans[2 * i + 1][:300])
            judge_provider(ck, e, ans[2 * i: 2 * i + 2])
        # the kernel inputs alone (operation `prepared`): labels, matrix and data the model hands to its kernel
        prep = []
        for e in entries:
            est = e["lines"][1].split(" ")
            prep += [e["lines"][0], "prepared " + " ".join(est[3:6])]
        for e, a in zip(entries, core.lean_driver(c01.PROP, prep)[1::2]):
            print("MODEL kernel input at index", e["g"], a[:300])
    except core.HarnessError as e_:
        print("MODEL unavailable:", e_)
