"""C08 — interval-scoped constraints, relations, penalties and weights act on their interval."""
from __future__ import annotations

import copy
import itertools
import json
import types
import warnings
from fractions import Fraction

import numpy as np

from harness import core, gen_scheme
from harness.gen_scheme import INF, _num
from harness.props import _c08_fns as fns
from harness.props import _c08_oracle as orc
from harness.props import c02, c03

PROP = "C08"
REQUIRED_THEOREMS = [
    "applies_iff",
    "applies_list",
    "no_interval_everywhere",
    "only_is_complement",
    "applies_mono",
    "applies_list_mono",
    "only_antitone",
    "does_interval_item_apply_at_index",
    "slice_reversed",
    "slice_infinite_reaches_ends",
    "slice_covers_inside",
    "slice_within_nearest",
    "slice_outside_is_nearest",
    "slice_mono",
    "area_slice_covers_inside",
    "area_slice_eq_axis_slice",
    "area_indices_spec",
    "area_reversed",
    "area_slice_outside_is_nearest",
    "area_slice_mono",
    "dataset_weight_wins_and_warns",
    "no_matching_weight_unchanged",
    "model_weight_no_warning",
    "weight_selection_by_label",
    "weight_block_spec",
    "weight_covers_inside",
    "weight_outside_is_nearest",
    "effective_weight_spec",
    "zero_constraint_acts_on_interval",
    "only_constraint_acts_outside_interval",
    "relation_ratio_inside",
    "relation_no_effect_outside",
    # model weights in both dimensions
    "weight_outside_is_nearest_model",
    "weight_block_is_product_of_slices",
    # any number of constraints / relations at one index, tie to C02's reduced_problem_equiv in both directions
    "reduced_labels_iff",
    "zeroed_labels_are_union_of_applying_constraints",
    "free_label_keeps_estimate",
    "related_targets_get_param_times_source",
    "constrained_model_is_reduced_problem",
    # linked groups with a link tolerance: decided at the aligned coordinate, inherited by the members
    "member_inside_aligned_outside_iff",
    "member_and_aligned_disagree_only_across_a_bound",
    "member_inside_aligned_outside_within_tol",
    "linked_items_act_on_aligned_coordinate",
    "aligned_coordinate_is_first_members_own",
    "linked_constraint_affects_members_iff_aligned_inside",
    "linked_area_acts_on_aligned_axis",
    "linked_reported_clps_follow_aligned_decision",
    # the functions as written in the source, translated on every run (Generated/C08Fns.lean) = the model
    "generated_has_interval_eq_model",
    "generated_interval_item_applies_eq_model",
    "generated_applies_eq_model",
    "generated_does_interval_item_apply_eq_model",
    "generated_slice_eq_model",
    "generated_slice_in_range",
    "generated_get_area_eq_model",
    "generated_apply_constraints_eq_model",
    # items are re-read on every evaluation
    "applies_reads_current_interval",
    # unlinked groups with several datasets: every dataset's equal-area penalties once
    "penalties_all_datasets_once",
]
GEN_FILE = core.LEAN / "GlotaranModel" / "Generated" / "C08Fns.lean"
TRUSTED = [
    "hand-written model lean/GlotaranModel/C08.lean (on top of C02.lean / C03.lean: applies, axisSlice, areaSlice, getArea, "
    "apply_relations / apply_constraints / retrieve_clps, clp penalties, add_model_weight, number_of_clps); applies / has_interval "
    "(with method dispatch), does_interval_item_apply, get_axis_slice_from_interval, _get_area and the loop body of apply_constraints "
    "are additionally proved equal to definitions regenerated from the source text on every run (generated_*_eq_model); "
    "add_model_weight, apply_relations, retrieve_clps, calculate_clp_penalties, number_of_clps are tied by differential execution only",
    "the function-level translator harness/props/_c08_fns.py: the parameter types it gives to the translated functions, its table of "
    "builtins, and the vocabulary lean/GlotaranModel/C08Py.lean (floats with infinities, the interval attribute as tuple-or-list, Python "
    "ints / indexing / range / slice, np.abs(axis - v).argmin(), clp label tables); warnings.warn is dropped by the translation",
    "LAPACK / scipy.optimize.nnls numerics in the end-to-end stream (clps compared with the exact rational model and with an "
    "independent numpy reference at relative 1e-9; zeros and relation ratios compared exactly)",
    "scipy.optimize.least_squares with max_nfev=1 evaluates the model at the initial parameters",
    "numpy slicing / xarray positional indexing of `weight[idx] *= value` (observed through the weight arrays, not modelled below "
    "the level of 'entries with start <= i < stop are multiplied')",
    "the alignment of linked groups (which member point is merged into which aligned point) is C09's subject: the model uses C02's "
    "alignAxes (proved equal to the C09 model), the oracle its own Python reading of align_index; xarray's outer join is trusted",
]
ASSUMPTIONS = [
    "axes are strictly increasing lists of finite numbers (the property's quantifier); interval bounds are finite numbers or +-inf",
    "megacomplex outputs are inputs of the model (test megacomplexes with prescribed integer matrices)",
    "unit streams call the real functions directly (IntervalItem.applies, does_interval_item_apply, get_axis_slice_from_interval, "
    "_get_area, add_model_weight on a DataProvider whose axes/weight were set by the harness); the end-to-end stream goes through optimize()",
]
RULE = (
    "unit streams, exact regime: every strictly increasing axis of 1-5 points drawn from a 9-point non-uniform dyadic grid x every pair "
    "of bounds from {-inf, below, far below, on each point, 1/4-1/2-3/4 between neighbours, above, far above, +inf}^2 (reversed and "
    "degenerate included) for get_axis_slice_from_interval and single-interval _get_area (thorough: all of them, quick: all axes of <= 3 "
    "points of a 5-point grid plus a seeded sample of the large space), lists of 1-3 intervals and presence masks for _get_area, every "
    "item kind (zero/only/relation) x interval forms (none, tuple, list) x every candidate index for applies / does_interval_item_apply, "
    "seeded add_model_weight cases (1-3 weight items, label selection incl. prefix labels, global/model intervals, dataset weight "
    "present or not); one-step widenings of every interval for monotonicity; end-to-end: one-evaluation optimize() on random "
    "schemes (linked and unlinked groups, VP/NNLS, index-(in)dependent matrices, link tolerance 0 / 1/4 / 1/2 / 1 with the three link "
    "methods and global axes of later datasets moved off the grid by dyadic offsets of at most 1/2 so that member points are merged "
    "into aligned points of earlier datasets) carrying constraints, relations, equal-area penalties and model weights with such "
    "intervals; in schemes with merged member points 60 % of the constraint / relation intervals are aimed at the gap between a member's "
    "own coordinate and its aligned coordinate (a bound strictly between them, on one of them, or a degenerate interval on one of "
    "them), so that the two coordinates disagree about membership; constraints, relations and penalties of a linked group are read on "
    "the ALIGNED coordinate of the shared clp, model weights on the dataset's own axes. "
    "ITEMS ARE RE-READ: unit cases use an item (applies at x), assign a new interval (same object / deep copy made after the first use / "
    "evolve copy as made by fill_item; tuple, list, None, half-infinite), and ask again — the answer must be that of the new interval, the "
    "untouched original keeps the old one; end-to-end cases optimise a scheme, reassign the intervals of its constraints, relations, "
    "penalties and weights on the SAME model object (85 % of the items, 35 % half-infinite) and optimise again — the second result is "
    "compared with the model of the new scheme, with the oracle, and with the result of a model built fresh with the new intervals; "
    "a directed end-to-end stream of unlinked groups with 2-3 datasets and at least one equal-area penalty. "
    "Each case is run on the real code, on the Lean model (exact equality of slices, "
    "truth values, collected indices, weight arrays, number_of_clps, warnings; clps/penalties at 1e-9; for linked groups the model's "
    "per-aligned-point decisions `linkDecisions`: every label the model removes at the aligned coordinate is exactly 0 / in exact ratio at "
    "every member's own index) and through an independent "
    "oracle that reads the property statement on the real outputs. non-trivial = the interval separates the axis (some point inside "
    "and some outside) or an end-to-end scheme with at least one interval item; distinct = distinct case description"
)
RTOL = 1e-9
PEN_RTOL = 1e-6   # additional_penalty sums nnls clps, which scipy delivers to ~1e-8 only


def generate(ck):
    """regenerate lean/GlotaranModel/Generated/C08Fns.lean (function-level translation of interval_item.py, clp_constraint.py,
    matrix_provider.py, data_provider.py, estimation_provider.py) from the source text of VERIF_REPO.  Source outside the
    translator's subset does not stop the check: the function is emitted as `Py.Untranslatable`, the `generated_*_eq_model`
    theorems about it stop compiling and the verdict logic takes over (failing-input search, else no-failing-input-found)."""
    import hashlib
    results, texts = fns.translate_all(core.REPO)
    text = fns.render(results)
    GEN_FILE.parent.mkdir(parents=True, exist_ok=True)
    if not GEN_FILE.exists() or GEN_FILE.read_text() != text:
        GEN_FILE.write_text(text)
    broken = {r.key: r.reason for r in results if isinstance(r, fns.Broken)}
    if broken:
        ck.extra["untranslatable"] = broken
        for k, v in broken.items():
            print(f"[{PROP}] translator: {k} is outside the translated subset ({v}); its generated_*_eq_model theorem will not compile")
    return [{
        "table": "function-level transcription (lean/GlotaranModel/Generated/C08Fns.lean)",
        "source": fns.SOURCES,
        "source_sha1": fns.source_sha1(texts),
        "sha1": hashlib.sha1(text.encode()).hexdigest(),
        "functions": [r.key for r in results if not isinstance(r, fns.Broken)],
        "untranslatable": broken,
    }]


# =================================================================================================
# JSON <-> python
# =================================================================================================
def J(x):
    """number -> JSON-able (inf as string)"""
    if x == INF:
        return "inf"
    if x == -INF:
        return "-inf"
    return x


def N(x):
    return _num(x)


def iv_tuple(iv):
    return (N(iv[0]), N(iv[1]))


def ivs_proto(ivs):
    """None | [lo,hi] | [[lo,hi],...] -> protocol text"""
    if ivs is None:
        return "none"
    if ivs and isinstance(ivs[0], (list, tuple)):
        items = ivs
    else:
        items = [ivs]
    return core.lst(core.lst([core.erat(N(a)), core.erat(N(b))]) for a, b in items)


def pair_proto(iv):
    if iv is None:
        return "none"
    return core.lst([core.erat(N(iv[0])), core.erat(N(iv[1]))])


def item_interval(ivs):
    """JSON interval -> what a model item gets (None, tuple, list of tuples)"""
    return gen_scheme._interval(ivs)


# =================================================================================================
# real code adapters (unit level)
# =================================================================================================
def real_slice(iv, axis):
    from glotaran.optimization.data_provider import DataProvider
    try:
        s = DataProvider.get_axis_slice_from_interval(iv_tuple(iv), np.array(axis, dtype=np.float64))
    except Exception as e:  # noqa
        return {"error": type(e).__name__}
    n = len(axis)
    return {"start": int(s.start), "stop": int(s.stop), "step": s.step,
            "affected": list(range(n))[s]}


def make_item(kind, ivs):
    from glotaran.model import OnlyConstraint, ZeroConstraint
    from glotaran.model.clp_relation import ClpRelation
    kw = {} if ivs is None else {"interval": item_interval(ivs)}
    if kind == "zero":
        return ZeroConstraint(target="t", **kw)
    if kind == "only":
        return OnlyConstraint(target="t", **kw)
    return ClpRelation(source="s", target="t", parameter="p.1", **kw)


def real_applies(kind, ivs, x):
    try:
        return {"value": bool(make_item(kind, ivs).applies(x))}
    except Exception as e:  # noqa
        return {"error": type(e).__name__}


def real_reassign(kind, first, second, x, via):
    """use an item, then assign `item.interval = second` (on the same object / on a deep copy made after the first use /
    on an `evolve` copy as made by fill_item) and ask again: (answer before, answer after, answer of the untouched original)"""
    import importlib
    gi = importlib.import_module("glotaran.model.item")       # the module (the package exports the decorator under the same name)
    try:
        it = make_item(kind, first)
        before = bool(it.applies(x))
        if via == "same":
            target = it
        elif via == "deepcopy":
            target = copy.deepcopy(it)
        else:
            target = gi.evolve(it)
        target.interval = item_interval(second)
        after = bool(target.applies(x))
        again = bool(target.applies(x))
        orig = bool(it.applies(x))
        return {"before": before, "value": after, "again": again, "original": orig}
    except Exception as e:  # noqa
        return {"error": type(e).__name__}


def real_does(kind, ivs, index):
    from glotaran.optimization.matrix_provider import MatrixProvider
    try:
        with warnings.catch_warnings(record=True) as rec:
            warnings.simplefilter("always")
            v = MatrixProvider.does_interval_item_apply(make_item(kind, ivs), index)
        return {"value": bool(v), "warned": any("Interval property" in str(r.message) for r in rec)}
    except Exception as e:  # noqa
        return {"error": type(e).__name__}


def real_area(ivs, axis, mask, flat):
    from glotaran.optimization.estimation_provider import _get_area
    n = len(axis)
    clps = [np.array([-1.0, float(i)]) for i in range(n)]
    if flat:
        labels = ["b", "a"]
    else:
        labels = [["b", "a"] if m else ["b"] for m in mask]
    try:
        out = _get_area("a", labels, clps, [iv_tuple(iv) for iv in ivs], np.array(axis, dtype=np.float64))
    except Exception as e:  # noqa
        return {"error": type(e).__name__}
    return {"indices": [int(v) for v in np.asarray(out).ravel()]}


def real_weight(case):
    from glotaran.model.weight import Weight
    from glotaran.optimization.data_provider import DataProvider
    label = case["label"]
    dp = DataProvider.__new__(DataProvider)
    dsw = None if case["dsweight"] is None else np.array(case["dsweight"], dtype=np.float64)
    dp._weight = {label: dsw}
    dp._model_axes = {label: np.array(case["maxis"], dtype=np.float64)}
    dp._global_axes = {label: np.array(case["gaxis"], dtype=np.float64)}
    items = []
    for it in case["items"]:
        kw = {"datasets": list(it["datasets"]), "value": it["value"]}
        if it.get("global_interval") is not None:
            kw["global_interval"] = iv_tuple(it["global_interval"])
        if it.get("model_interval") is not None:
            kw["model_interval"] = iv_tuple(it["model_interval"])
        items.append(Weight(**kw))
    model = types.SimpleNamespace(weights=items)
    try:
        with warnings.catch_warnings(record=True) as rec:
            warnings.simplefilter("always")
            dp.add_model_weight(model, label, "model", "global")
    except Exception as e:  # noqa
        return {"error": type(e).__name__ + ":" + str(e)[:80]}
    w = dp._weight[label]
    return {"weight": None if w is None else np.asarray(w, dtype=float).tolist(),
            "same_object": w is dsw,
            "warned": any("Ignoring model weight" in str(r.message) for r in rec)}


# =================================================================================================
# one case = real run + oracle now, model lines queued
# =================================================================================================
def nontrivial_iv(iv, axis):
    ins = [orc.inside(iv_tuple(iv), a) for a in axis]
    return any(ins) and not all(ins)


def check_case(ck, case, batch, model=True):
    kind = case["kind"]
    ck.count("kind:" + kind)
    lines, real, nt = [], None, True
    if kind == "slice":
        iv, axis = case["interval"], case["axis"]
        real = real_slice(iv, axis)
        ck.oracle_evals += 1
        orc.slice_oracle(ck, iv_tuple(iv), axis, real, case)
        nt = nontrivial_iv(iv, axis)
        ck.count("slice:" + orc.classify_iv(iv_tuple(iv), axis))
        lines = [f"slice {core.erat(N(iv[0]))} {core.erat(N(iv[1]))} {core.rats(axis)}"]
    elif kind == "slice-mono":
        axis = case["axis"]
        inner, outer = real_slice(case["inner"], axis), real_slice(case["outer"], axis)
        ck.oracle_evals += 1
        orc.mono_oracle(ck, "slice", case, inner.get("affected"), outer.get("affected"))
        real = {"inner": inner, "outer": outer}
        lines = [f"slice {core.erat(N(iv[0]))} {core.erat(N(iv[1]))} {core.rats(axis)}" for iv in (case["inner"], case["outer"])]
        nt = nontrivial_iv(case["inner"], axis)
    elif kind == "applies":
        real = real_applies(case["item"], case["interval"], case["x"])
        ck.oracle_evals += 1
        orc.applies_oracle(ck, case, real)
        ck.count("applies:" + case["item"] + ":" + orc.interval_form(case["interval"]))
        lines = [f"applies {case['item']} {ivs_proto(case['interval'])} {core.rat(case['x'])}"]
        nt = case["interval"] is not None
    elif kind == "reassign":
        real = real_reassign(case["item"], case["first"], case["second"], case["x"], case["via"])
        ck.oracle_evals += 1
        # the statement, read on the interval the item carries NOW (and on the old one for the untouched original)
        orc.applies_oracle(ck, {"item": case["item"], "interval": case["second"], "x": case["x"], "kind": "reassign",
                                "first": case["first"], "via": case["via"]}, real)
        if "error" not in real:
            if real["again"] != real["value"]:
                ck.violation("reassign-second-call-differs", "applies() answers differently on the second call after the assignment", {**case, "observed": real})
            old = {"value": real["before"]}
            orc.applies_oracle(ck, {"item": case["item"], "interval": case["first"], "x": case["x"], "kind": "reassign-before"}, old)
            if case["via"] != "same" and real["original"] != real["before"]:
                ck.violation("reassign-copy-changes-original", "assigning the interval of a copy changed the answer of the original item",
                             {**case, "observed": real})
        ck.count("reassign:" + case["via"])
        ck.count("reassign-to:" + orc.interval_form(case["second"]))
        lines = [f"applies {case['item']} {ivs_proto(case['first'])} {core.rat(case['x'])}",
                 f"applies {case['item']} {ivs_proto(case['second'])} {core.rat(case['x'])}"]
        nt = case["first"] != case["second"]
    elif kind == "does":
        real = real_does(case["item"], case["interval"], case["index"])
        ck.oracle_evals += 1
        orc.does_oracle(ck, case, real)
        idx = "none" if case["index"] is None else core.rat(case["index"])
        lines = [f"does {core.bool_(case['item'] == 'only')} {ivs_proto(case['interval'])} {idx}"]
    elif kind == "area":
        ivs, axis, mask = case["intervals"], case["axis"], case["mask"]
        real = real_area(ivs, axis, mask, case.get("flat", False))
        singles = [real_area([iv], axis, mask, case.get("flat", False)) for iv in ivs] if len(ivs) > 1 else [real]
        ck.oracle_evals += 1
        orc.area_oracle(ck, case, real, singles)
        for iv in ivs:
            ck.count("area:" + orc.classify_iv(iv_tuple(iv), axis))
        lines = [f"area {ivs_proto(ivs)} {core.rats(axis)} {core.lst(core.bool_(m) for m in mask)}"]
        nt = any(nontrivial_iv(iv, axis) for iv in ivs)
    elif kind == "area-mono":
        axis, mask = case["axis"], case["mask"]
        inner, outer = real_area([case["inner"]], axis, mask, False), real_area([case["outer"]], axis, mask, False)
        ck.oracle_evals += 1
        orc.mono_oracle(ck, "area", case, inner.get("indices"), outer.get("indices"))
        real = {"inner": inner, "outer": outer}
        lines = [f"area {ivs_proto([iv])} {core.rats(axis)} {core.lst(core.bool_(m) for m in mask)}" for iv in (case["inner"], case["outer"])]
    elif kind == "weight":
        real = real_weight(case)
        ck.oracle_evals += 1
        orc.weight_oracle(ck, case, real)
        ck.count("weight:" + ("dataset-weight" if case["dsweight"] is not None else "no-dataset-weight")
                 + ("+matching" if any(case["label"] in it["datasets"] for it in case["items"]) else "+none-matching"))
        dsw = "none" if case["dsweight"] is None else core.lst(core.rats(r) for r in case["dsweight"])
        items = core.lst(core.lst([core.strs(it["datasets"]), pair_proto(it.get("global_interval")),
                                   pair_proto(it.get("model_interval")), core.rat(it["value"])]) for it in case["items"])
        lines = [f"mweight {core.enc(case['label'])} {dsw} {core.rats(case['maxis'])} {core.rats(case['gaxis'])} {items}"]
    elif kind in ("e2e", "e2e-reassign"):
        return check_e2e(ck, case, batch, model)
    else:
        raise core.HarnessError(f"unknown case kind {kind!r}")
    ck.case(json.dumps(case, sort_keys=True, default=str), nt)
    if model:
        batch.append({"case": case, "real": real, "lines": lines})


def judge_unit(ck, b, ans):
    case, real = b["case"], b["real"]
    kind = case["kind"]
    if any(a in ("bad-op", "bad-line") for a in ans):
        raise core.HarnessError(f"model rejected a protocol line: {b['lines'][:1]}")

    def dis(what, model_val):
        ck.disagree("model-vs-impl:" + kind, what, {**case, "real": real, "model": model_val})

    if kind == "slice":
        m = [int(x) for x in core.parse_tree(ans[0])[0]]
        if "error" in real:
            dis("implementation raised, model returns a slice", m)
        elif [real["start"], real["stop"]] != m or real["step"] is not None:
            dis(f"slice({real['start']}, {real['stop']}) vs model {m}", m)
    elif kind in ("slice-mono",):
        for a, r in zip(ans, (real["inner"], real["outer"])):
            m = [int(x) for x in core.parse_tree(a)[0]]
            if "error" in r or [r["start"], r["stop"]] != m:
                dis("slice differs", m)
    elif kind == "applies":
        m = ans[0] == "T"
        if "error" in real or real["value"] != m:
            dis(f"applies: {real} vs model {m}", m)
    elif kind == "reassign":
        m = [a == "T" for a in ans]
        if "error" in real:
            dis(f"reassigning the interval raised {real['error']}", m)
        elif [real["before"], real["value"]] != m or (case["via"] != "same" and real["original"] != m[0]):
            dis(f"item used, interval reassigned ({case['via']}): answers {real} vs model (before, after) {m} — the item is not re-read", m)
    elif kind == "does":
        t = core.parse_tree(ans[0])[0]
        m = {"value": t[0] == "T", "warned": t[1] == "T"}
        if real != m:
            dis(f"does_interval_item_apply: {real} vs model {m}", m)
    elif kind == "area":
        m = [int(Fraction(x)) for x in core.parse_tree(ans[0])[0]]
        if "error" in real or real["indices"] != m:
            dis(f"_get_area collects {real} vs model {m}", m)
    elif kind == "area-mono":
        for a, r in zip(ans, (real["inner"], real["outer"])):
            m = [int(Fraction(x)) for x in core.parse_tree(a)[0]]
            if "error" in r or r["indices"] != m:
                dis("_get_area differs", m)
    elif kind == "weight":
        t = core.parse_tree(ans[0])[0]
        mw = None if t[0] == "none" else [[float(Fraction(v)) for v in row] for row in t[0]]
        m = {"weight": mw, "warned": t[1] == "T"}
        if "error" in real:
            dis(f"add_model_weight raised {real['error']}", m)
        elif real["weight"] != mw or real["warned"] != m["warned"]:
            dis("add_model_weight: weight array / warning differ from the model", m)


# =================================================================================================
# end to end
# =================================================================================================
def reassign_items(model, spec):
    """`item.interval = ...` (and the interval attributes of penalties / weights) on the items of a model object that has
    been used already, to the intervals of `spec` (same items, same order)"""
    for it, c in zip(model.clp_constraints, spec.get("constraints", [])):
        it.interval = item_interval(c.get("interval"))
    for it, r in zip(model.clp_relations, spec.get("relations", [])):
        it.interval = item_interval(r.get("interval"))
    for it, q in zip(model.clp_penalties, spec.get("penalties", [])):
        it.source_intervals = item_interval(q["source_intervals"])
        it.target_intervals = item_interval(q["target_intervals"])
    for it, w in zip(model.weights, spec.get("weights", [])):
        it.global_interval = item_interval(w.get("global_interval"))
        it.model_interval = item_interval(w.get("model_interval"))


def run_real_e2e(spec, first=None):
    """optimize(scheme of spec); with `first`: build the scheme of `first`, optimise it, reassign the intervals of its items
    to those of `spec` on the SAME model object and optimise again — the second result is returned"""
    from glotaran.optimization import matrix_provider as mp
    from glotaran.optimization.optimize import optimize
    out = {"error": None, "warnings": []}
    if first is None:
        scheme, model, parameters, data = gen_scheme.build(spec)
    else:
        scheme, model, parameters, data = gen_scheme.build(first)
        try:
            with warnings.catch_warnings():
                warnings.simplefilter("ignore")
                optimize(scheme, verbose=False, raise_exception=True)
        except ZeroDivisionError:
            out["error"] = "dof-zero"
            return out
        except Exception as e:  # noqa
            out["error"] = type(e).__name__ + ":(first run) " + str(e)[:120]
            return out
        reassign_items(model, spec)
    providers = []
    orig_init = mp.MatrixProviderLinked.__init__

    def spy_init(self, *a, **k):
        orig_init(self, *a, **k)
        providers.append(self)

    mp.MatrixProviderLinked.__init__ = spy_init
    try:
        with warnings.catch_warnings(record=True) as rec:
            warnings.simplefilter("always")
            res = optimize(scheme, verbose=False, raise_exception=True)
    except ZeroDivisionError:
        out["error"] = "dof-zero"
        return out
    except Exception as e:  # noqa
        out["error"] = type(e).__name__ + ":" + str(e)[:120]
        return out
    finally:
        mp.MatrixProviderLinked.__init__ = orig_init
    out["result"] = res
    out["warnings"] = [str(r.message) for r in rec]
    # internal tables of the linked providers (diagnostic level only): aligned axis, full and reduced labels per aligned point
    out["linked_tables"] = []
    for pr in providers:
        try:
            axis = [float(v) for v in pr._data_provider.aligned_global_axis]
            out["linked_tables"].append({
                "axis": axis,
                "full": [list(pr.aligned_full_clp_labels[i]) for i in range(len(axis))],
                "reduced": [list(pr.get_aligned_matrix_container(i).clp_labels) for i in range(len(axis))]})
        except Exception as e:  # noqa  (a refactoring of the internals must not break the check)
            out["linked_tables"].append({"unreadable": type(e).__name__})
    return out


def canon_warnings(msgs):
    """(weight-ignored labels, penalty warnings) as sorted lists"""
    import re
    wl, pw = set(), set()
    for m in msgs:
        mm = re.match(r"Ignoring model weight for dataset '(.*)' because", m)
        if mm:
            wl.add(mm.group(1))
        mm = re.match(r"Ignoring equal area penalty, (target|source) clp (.*) not present\.", m)
        if mm:
            pw.add(f"{mm.group(1)}:{mm.group(2)}")
    return sorted(wl), sorted(pw)


def e2e_lines(spec):
    lines = gen_scheme.spec_lines(spec)          # dataset weights from the spec; model weights below
    n_desc = len(lines)
    for w in spec.get("weights", []):
        lines.append("weight " + core.lst([core.strs(w["datasets"]), pair_proto(w.get("global_interval")),
                                           pair_proto(w.get("model_interval")), core.rat(w["value"])]))
    for ds in spec["datasets"]:
        lines.append(f"maxis {core.enc(ds['label'])} {core.rats(ds['model_axis'])}")
    return lines + ["linkdec", "weights", "results", "parts", "nclps", "penwarn"], n_desc


def same_results(spec, a, b):
    """are two Results of the same scheme identical in what C08 observes (clp, weight, additional_penalty)"""
    for ds in spec["datasets"]:
        ra, rb = a.data[ds["label"]], b.data[ds["label"]]
        if ("weight" in ra) != ("weight" in rb):
            return f"weight of {ds['label']!r} present in one result only"
        if "weight" in ra and not np.array_equal(c03.arr(ra.weight, "model", "global"), c03.arr(rb.weight, "model", "global")):
            return f"weight of {ds['label']!r}"
        if tuple(ra.clp.dims) != tuple(rb.clp.dims):
            return f"clp dimensions of {ds['label']!r}"
        ca, cb = np.asarray(ra.clp.values, dtype=float), np.asarray(rb.clp.values, dtype=float)
        if ca.shape != cb.shape or not np.allclose(ca, cb, rtol=RTOL, atol=1e-12) or not np.array_equal(ca == 0, cb == 0):
            return f"clp of {ds['label']!r}"
    pa = [np.asarray(x).ravel().tolist() for x in (a.additional_penalty or [])]
    pb = [np.asarray(x).ravel().tolist() for x in (b.additional_penalty or [])]
    if len(pa) != len(pb) or any(not pen_close(u, v) for u, v in zip(pa, pb)):
        return "additional_penalty"
    if int(a.number_of_clps) != int(b.number_of_clps):
        return "number_of_clps"
    return None


def check_e2e(ck, case, batch, model=True):
    spec = case["spec"]
    real = run_real_e2e(spec, case.get("first"))
    if case.get("first") is not None:
        ck.count("e2e-reassign:" + ("linked" if any(gen_scheme.resolve_linked(spec, g) for g in spec["groups"]) else "unlinked"))
        if not real["error"]:
            # independent of the model: a used model object whose intervals were reassigned behaves like a model built
            # with the new intervals
            fresh = run_real_e2e(spec)
            if not fresh["error"]:
                diff = same_results(spec, real["result"], fresh["result"])
                if diff is not None:
                    ck.violation("reassigned-interval-not-reread",
                                 f"optimise, reassign the intervals of the items on the same model object, optimise again: {diff} "
                                 "differs from the result of a model built with the new intervals", case)
    for t in c02.classify(spec):
        ck.count("e2e:" + t)
    for t in orc.classify_spec(spec):
        ck.count("e2e-item:" + t)
    before = len(ck.violations) + len(ck.known_hits)
    if real["error"]:
        ck.count("e2e-real-error:" + real["error"].split(":")[0])
        if real["error"] != "dof-zero" and not real["error"].startswith("AlignDatasetError"):
            both = any(ds.get("weight") is not None and any(ds["label"] in w["datasets"] for w in spec.get("weights", []))
                       for ds in spec["datasets"])
            key = "optimize-raises:" + real["error"].split(":")[0] + (":dataset-and-model-weight" if both else "")
            ck.violation(key, f"optimize raised {real['error']}", case)
    else:
        ck.oracle_evals += 1
        real["canon_warnings"] = canon_warnings(real["warnings"])
        orc.e2e_oracle(ck, spec, real["result"], real["canon_warnings"], case)
    has_items = any(spec.get(k) for k in ("constraints", "relations", "penalties", "weights"))
    ck.case(json.dumps(spec, sort_keys=True, default=str), has_items and not real["error"])
    failed = (len(ck.violations) + len(ck.known_hits)) > before
    if model:
        lines, n_desc = e2e_lines(spec)
        batch.append({"case": case, "real": real, "lines": lines, "oracle_failed": failed, "n_desc": n_desc})


def judge_e2e(ck, b, ans):
    case, real = b["case"], b["real"]
    spec = case["spec"]
    lines = b["lines"]
    if any(a in ("bad-op", "bad-line") for a in ans[:-5]):
        raise core.HarnessError(f"model rejected a protocol line: {[l for l, a in zip(lines, ans) if a.startswith('bad')][:2]}")
    if real["error"]:
        return
    res = real["result"]
    a_ld, a_w, a_res, a_parts, a_n, a_pw = ans[-6:]
    explained = b.get("oracle_failed", False)

    def dis(what, extra=None):
        d = {"key": "model-vs-impl:e2e", "what": what, "case": {**case, **(extra or {})}}
        if explained:
            d["explained"] = True
        ck.disagreements.append(d)

    if a_res.startswith("err") or a_w.startswith("err"):
        # singular reduced problem in exact arithmetic: nothing to compare
        ck.count("e2e-model-unsolvable")
        ck.diagnostic("model unsolvable", {"answer": a_res})
        return
    judge_linkdec(ck, spec, real, a_ld, dis)
    # weights + weight warnings
    t = core.parse_tree(a_w[len("weights "):])[0]
    model_w = {core.dec(item[0]): (None if item[1] == "none" else [[float(Fraction(v)) for v in row] for row in item[1]]) for item in t[0]}
    model_warned = sorted(core.dec(x) for x in t[1])
    for ds in spec["datasets"]:
        r = res.data[ds["label"]]
        got = c03.arr(r.weight, "model", "global").tolist() if "weight" in r else None
        if got != model_w.get(ds["label"]):
            dis(f"weight of dataset {ds['label']!r} differs from the model", {"real_weight": got, "model_weight": model_w.get(ds["label"])})
            break
    if real["canon_warnings"][0] != model_warned:
        dis(f"model-weight warnings {real['canon_warnings'][0]} vs model {model_warned}")
    # clp / residual / fitted through the C03 judge (same result line format)
    n_before = len(ck.disagreements)
    c03.judge(ck, {"spec": spec, "real": real, "lines": lines, "oracle_failed": explained}, list(ans[:b["n_desc"]]) + [a_res])
    for d in ck.disagreements[n_before:]:
        d["key"] = "model-vs-impl:e2e"
        d["case"] = case
    # additional penalty per group
    if a_parts.startswith("parts "):
        parts = core.parse_tree(a_parts[len("parts "):])[0]
        real_pen = [[float(v) for v in np.asarray(p).ravel()] for p in (res.additional_penalty or [])]
        model_pen = [[float(Fraction(v)) for v in p[1]] for p in parts]
        if len(real_pen) != len(model_pen) or any(not pen_close(a, m) for a, m in zip(real_pen, model_pen)):
            dis("additional_penalty differs from the model", {"real_penalty": real_pen, "model_penalty": model_pen})
    else:
        dis(f"model answered {a_parts!r} to parts")
    if a_n.startswith("nclps "):
        if int(a_n.split()[1]) != int(res.number_of_clps):
            dis(f"number_of_clps {res.number_of_clps} vs model {a_n.split()[1]}")
    else:
        dis(f"model answered {a_n!r} to nclps")
    if a_pw.startswith("penwarn "):
        mp = sorted({core.dec(x) for x in core.parse_tree(a_pw[len("penwarn "):])[0]})
        if mp != real["canon_warnings"][1]:
            dis(f"equal-area-penalty warnings {real['canon_warnings'][1]} vs model {mp}")


def judge_linkdec(ck, spec, real, a_ld, dis):
    """the model's decisions per aligned point of every linked group (`linkDecisions`) against the real result:
    API level — at every member's OWN index the clp of a label the model removes by a constraint at the ALIGNED
    coordinate is exactly 0, the clp of a relation target the model removes is exactly parameter x source;
    the number of labels the model leaves adds up to number_of_clps (compared separately);
    internal level (diagnostic only) — aligned axis, full and reduced labels of MatrixProviderLinked."""
    if not a_ld.startswith("linkdec "):
        dis(f"model answered {a_ld!r} to linkdec")
        return
    res = real["result"]
    P = spec["parameters"]
    groups = core.parse_tree(a_ld[len("linkdec "):])[0]
    order = orc.group_order(spec)
    if len(groups) != len(order):
        dis(f"linkdec: {len(groups)} groups in the model, {len(order)} in the scheme")
        return
    tables = list(real.get("linked_tables", []))
    cons, rels = spec.get("constraints", []), spec.get("relations", [])
    for g, rows in zip(order, groups):
        if rows == "none":
            continue
        if rows == "err":
            dis(f"linkdec: the model refuses the alignment of group {g!r}, the real code optimised it")
            return
        members = [ds for ds in spec["datasets"] if ds["group"] == g]
        table = tables.pop(0) if tables else None
        m_axis, m_full, m_red = [], [], []
        for row in rows:
            v = Fraction(row[0])
            mem = [(int(p[0]), int(p[1])) for p in row[1]]
            own = [Fraction(x) for x in row[2]]
            full, red = [core.dec(x) for x in row[3]], [core.dec(x) for x in row[4]]
            con_v, rel_v = [x == "T" for x in row[5]], [x == "T" for x in row[6]]
            con_own, rel_own = [[x == "T" for x in r] for r in row[7]], [[x == "T" for x in r] for r in row[8]]
            m_axis.append(float(v)); m_full.append(full); m_red.append(red)
            ck.count("linkdec:aligned-points")
            for k, ((d, j), x) in enumerate(zip(mem, own)):
                ds = members[d]
                if Fraction(ds["global_axis"][j]) != x:
                    dis(f"linkdec: member ({d}, {j}) of aligned point {float(v)} has own coordinate {float(x)} in the model, "
                        f"{ds['global_axis'][j]} in the scheme")
                    return
                ck.count("linkdec:members")
                if x != v:
                    ck.count("linkdec:members-merged")
                    ck.extra["link_max_member_distance"] = max(ck.extra.get("link_max_member_distance", 0.0), float(abs(x - v)))
                    if abs(x - v) > Fraction(spec.get("clp_link_tolerance", 0.0)):
                        dis(f"linkdec: member coordinate {float(x)} is merged into {float(v)} beyond the tolerance")
                        return
                    n_dis = sum(a != b_ for a, b_ in zip(con_own[k], con_v)) + sum(a != b_ for a, b_ in zip(rel_own[k], rel_v))
                    if n_dis:
                        ck.count("linkdec:members-merged-with-a-different-decision")
                        ck.count("linkdec:item-decisions-differing-between-member-and-aligned", n_dis)
                r = res.data[ds["label"]]
                labels = [str(q) for q in r.clp.coords["clp_label"].values]
                c = c03.arr(r.clp, "global", "clp_label")[j]
                removed = [l for l in full if l not in red]
                rel_targets = {rr["target"]: rr for rr, a in zip(rels, rel_v) if a and rr["target"] in full and rr["source"] in full}
                for l in removed:
                    if l not in labels:
                        continue
                    got = float(c[labels.index(l)])
                    if l in rel_targets:
                        rr = rel_targets[l]
                        if rr["source"] in labels and got != P[rr["parameter"]] * float(c[labels.index(rr["source"])]):
                            dis(f"linkdec: {ds['label']!r} own coordinate {float(x)} (aligned {float(v)}): the model relates "
                                f"{l!r} to {rr['source']!r} at the aligned coordinate, the real clps are not in that ratio")
                            return
                    elif got != 0.0:
                        dis(f"linkdec: {ds['label']!r} own coordinate {float(x)} (aligned {float(v)}): the model removes {l!r} "
                            f"by a constraint applying at the aligned coordinate, the real clp is {got}")
                        return
        if table is not None and "unreadable" not in table:
            if table["axis"] != m_axis or table["full"] != m_full or table["reduced"] != m_red:
                ck.diagnostic("internal tables of MatrixProviderLinked differ from the model's linkDecisions",
                              {"group": g, "real": table, "model": {"axis": m_axis, "full": m_full, "reduced": m_red}})
                ck.count("linkdec:internal-table-differs")
            else:
                ck.count("linkdec:internal-table-agrees")


def pen_close(u, v):
    if len(u) != len(v):
        return False
    scale = max([abs(x) for x in u] + [abs(x) for x in v] + [1.0])
    return all(abs(a - b) <= PEN_RTOL * scale for a, b in zip(u, v))


def flush(ck, batch):
    if not batch:
        return
    all_lines = []
    for b in batch:
        all_lines += b["lines"]
    answers = core.lean_driver(PROP, all_lines)
    pos = 0
    for b in batch:
        n = len(b["lines"])
        ans = answers[pos:pos + n]
        pos += n
        if b["case"]["kind"] in ("e2e", "e2e-reassign"):
            judge_e2e(ck, b, ans)
        else:
            judge_unit(ck, b, ans)
    batch.clear()


# =================================================================================================
# generators
# =================================================================================================
GRID9 = [-3.0, -1.0, -0.5, 0.0, 0.25, 1.0, 2.0, 4.0, 8.0]      # non-uniform, dyadic
GRID5 = [0.0, 1.0, 2.0, 3.0, 5.0]


def bound_candidates(axis):
    """{-inf, far below, below, each point, 1/4, 1/2, 3/4 between neighbours, above, far above, +inf}"""
    a = sorted(axis)
    c = [-INF, a[0] - 16.0, a[0] - 0.5]
    for i, x in enumerate(a):
        c.append(x)
        if i + 1 < len(a):
            d = a[i + 1] - x
            c += [x + d / 4, x + d / 2, x + 3 * d / 4]
    c += [a[-1] + 0.5, a[-1] + 16.0, INF]
    return c


def axes_of(grid, max_n):
    for n in range(1, max_n + 1):
        for sub in itertools.combinations(grid, n):
            yield list(sub)


def slice_cases(axis):
    c = bound_candidates(axis)
    for lo in c:
        for hi in c:
            yield {"kind": "slice", "interval": [J(lo), J(hi)], "axis": axis}


def widenings(axis):
    """every ordered interval over the candidate bounds x its two one-step widenings (monotonicity by transitivity)"""
    c = bound_candidates(axis)
    for i in range(len(c)):
        for j in range(i, len(c)):
            if i > 0:
                yield [J(c[i]), J(c[j])], [J(c[i - 1]), J(c[j])]
            if j + 1 < len(c):
                yield [J(c[i]), J(c[j])], [J(c[i]), J(c[j + 1])]


def rand_iv(rng, cands):
    return [J(rng.choice(cands)), J(rng.choice(cands))]


def rand_ivs(rng, cands, allow_none=True):
    r = rng.random()
    if allow_none and r < 0.15:
        return None
    if r < 0.6:
        return rand_iv(rng, cands)
    return [rand_iv(rng, cands) for _ in range(rng.randint(1, 3))]


def rand_axis(rng, grid=GRID9, max_n=5):
    return sorted(rng.sample(grid, rng.randint(1, max_n)))


def rand_weight_case(rng):
    maxis = rand_axis(rng, GRID5, 4)
    gaxis = rand_axis(rng, GRID9, 5)
    label = rng.choice(["d1", "d", "d10", "a b"])
    mc, gc = bound_candidates(maxis), bound_candidates(gaxis)
    items = []
    for _ in range(rng.randint(0, 3) if rng.random() < 0.9 else 1):
        who = rng.choice([[label], [label], [label, "other"], ["other", label], ["other"], [label + "0"], [label[:-1] or "x"], []])
        items.append({"datasets": who, "value": rng.choice([2.0, 3.0, 5.0, 0.5, 7.0]),
                      "global_interval": rand_iv(rng, gc) if rng.random() < 0.7 else None,
                      "model_interval": rand_iv(rng, mc) if rng.random() < 0.5 else None})
    dsw = None
    if rng.random() < 0.3:
        kind = rng.choice(["ones", "mixed", "zeros", "single"])
        dsw = [[{"ones": 1.0, "zeros": 0.0, "single": 2.0}.get(kind, rng.choice([1.0, 2.0, 0.5, 4.0])) for _ in gaxis] for _ in maxis]
    return {"kind": "weight", "label": label, "dsweight": dsw, "maxis": maxis, "gaxis": gaxis, "items": items}


DATASET_LABEL_POOLS = [None, None, ["d1", "d10", "d", "d100"], ["a", "ab", "b", "abc"]]


OFFSETS = [0.25, -0.25, 0.125, -0.125, 0.375, -0.375, 0.5]


def jitter_axes(rng, spec):
    """link tolerance > 0: move the global axes of datasets of linked groups off the grid (spacing 1, offsets of at most
    1/2 in absolute value, all dyadic) so that points of later datasets are merged into points of earlier ones; every axis
    stays strictly increasing.  Data and matrices are addressed by position, so only the coordinates change."""
    first = set()
    for ds in spec["datasets"]:
        g = ds["group"]
        if not gen_scheme.resolve_linked(spec, g):
            continue
        if g not in first:
            first.add(g)
            if rng.random() < 0.75:
                continue                      # the first dataset of the group mostly keeps its coordinates
        if rng.random() < 0.6:
            off = rng.choice(OFFSETS)
            ds["global_axis"] = [x + off for x in ds["global_axis"]]
        else:
            ax = [x + rng.choice([0.0, 0.25, -0.25, 0.125, -0.125, 0.375]) for x in ds["global_axis"]]
            if all(a < b for a, b in zip(ax, ax[1:])):
                ds["global_axis"] = ax


def merged_pairs(spec):
    """(own coordinate, aligned coordinate) of the member points of linked groups that are merged into another coordinate"""
    out = []
    for g in orc.group_order(spec):
        if not gen_scheme.resolve_linked(spec, g):
            continue
        members = [ds for ds in spec["datasets"] if ds["group"] == g]
        aligned = c02._align([ds["global_axis"] for ds in members], spec.get("clp_link_tolerance", 0.0), spec.get("clp_link_method", "nearest"))
        if aligned is None:
            continue
        for ds, al in zip(members, aligned):
            out += [(x, v) for x, v in zip(ds["global_axis"], al) if x != v]
    return out


def separating_interval(rng, x, v):
    """an interval one of whose bounds lies between the member coordinate x and its aligned coordinate v (or on one of
    them): exactly one of the two is inside"""
    lo_, hi_ = min(x, v), max(x, v)
    mid = (x + v) / 2
    return rng.choice([
        [mid, INF], [-INF, mid], [mid, hi_ + 2.0], [lo_ - 2.0, mid], [hi_ + 3.0, mid],      # bound strictly between
        [x, x], [v, v],                                                                      # degenerate on one of them
        [hi_, INF], [-INF, lo_], [hi_, hi_ + 1.5], [lo_, lo_ - 1.5],                         # bound on the outer one
    ])


def e2e_spec(rng, force_extra=None):
    """a C02-space scheme without items + interval items built from the bound candidates of its axes"""
    tol = rng.choice([0.0, 0.0, 0.25, 0.5, 0.5, 1.0])
    force = {"tol": tol, "link_clp": rng.choice([True, True, False, False, None])}
    if tol > 0 and rng.random() < 0.6:
        # the tolerance only matters for linked groups of several datasets
        force.update({"link_clp": True, "n_datasets": rng.choice([2, 2, 3, 3, 4])})
    if force_extra:
        force.update(force_extra)
        tol = force["tol"]
    pool = rng.choice(DATASET_LABEL_POOLS)
    spec = gen_scheme.rand_spec(rng, allow_full=rng.random() < 0.15, allow_items=False, force=force, dataset_labels=pool)
    if c03.group_label_collision(spec):
        # coinciding concatenations of dataset labels in a linked group are C03's recorded finding D9b, not C08's business
        spec = gen_scheme.rand_spec(rng, allow_full=False, allow_items=False, force=force)
    if tol > 0 and rng.random() < 0.8:
        jitter_axes(rng, spec)
    P = spec["parameters"]

    def new_param(v):
        label = f"p.{len(P) + 1}"
        P[label] = v
        return label

    gpts = sorted({x for ds in spec["datasets"] for x in ds["global_axis"]})
    gc = bound_candidates(gpts)
    labels = sorted({l for ds in spec["datasets"] for mc in ds["mcs"] for l in mc["labels"]})
    rel_target = None
    if len(labels) >= 2 and rng.random() < 0.5:
        s, t = rng.sample(labels, 2)
        rel_target = t
        spec["relations"].append({"source": s, "target": t, "parameter": new_param(rng.choice([2.0, 0.5, 3.0, -1.0])),
                                  "interval": rand_ivs(rng, gc)})
    free = [l for l in labels if l != rel_target]
    if rel_target is not None and len(gpts) >= 2 and rng.random() < 0.35:
        # a relation and a constraint on the *same* clp with disjoint intervals (they never apply at the same index, so
        # the statement is unambiguous): the relation on the lower part of the axis — including its first point —, the
        # constraint on the upper part (seeded change C08-2: constraints pre-filtered by the labels left at the first index)
        k = rng.randint(1, len(gpts) - 1)
        rel = spec["relations"][-1]
        rel["interval"] = [rng.choice([-INF, gpts[0]]), gpts[k - 1]]
        who = rel["target"] if rng.random() < 0.7 else rel["source"]
        spec["constraints"].append({"type": "zero", "target": who, "interval": [gpts[k], rng.choice([INF, gpts[-1]])]})
    # further relations (lists of relations without chains: pairwise different targets, no source is a target)
    while spec["relations"] and len(spec["relations"]) < 3 and rng.random() < 0.4:
        targets = {r["target"] for r in spec["relations"]}
        sources = {r["source"] for r in spec["relations"]}
        blocked = {c["target"] for c in spec["constraints"]}
        cands = [(s_, t_) for s_ in labels for t_ in labels
                 if s_ != t_ and t_ not in targets | sources | blocked and s_ not in targets | blocked]
        if not cands:
            break
        s_, t_ = rng.choice(cands)
        spec["relations"].append({"source": s_, "target": t_, "parameter": new_param(rng.choice([2.0, 0.5, 3.0, -1.0])),
                                  "interval": rand_ivs(rng, gc)})
    free = [l for l in labels if l not in {r["target"] for r in spec["relations"]}]
    for _ in range(rng.choice([0, 1, 1, 2, 3])):
        if len(free) < 2:
            break
        kind = rng.choice(["zero", "zero", "only"])
        spec["constraints"].append({"type": kind, "target": rng.choice(free), "interval": rand_ivs(rng, gc, allow_none=(kind == "zero"))})
    for _ in range(rng.choice([0, 1, 1, 2])):
        if len(labels) < 2:
            break
        s, t = rng.sample(labels, 2)
        spec["penalties"].append({"source": s, "source_intervals": [rand_iv(rng, gc) for _ in range(rng.randint(1, 2))],
                                  "target": t, "target_intervals": [rand_iv(rng, gc) for _ in range(rng.randint(1, 2))],
                                  "parameter": new_param(rng.choice([1.0, 2.0, 0.5])), "weight": rng.choice([1.0, 2.0, 0.5, 8.0])})
    pairs = merged_pairs(spec) if tol > 0 else []
    if pairs:
        # aim interval items at the gap between a merged member point and its aligned point: the member's own coordinate
        # and the aligned coordinate of the shared clp then disagree about membership
        if not spec["constraints"] and not spec["relations"] and len(free) >= 2:
            spec["constraints"].append({"type": rng.choice(["zero", "zero", "only"]), "target": rng.choice(free), "interval": None})
        # (items of a relation / constraint pair on one clp keep their disjoint intervals)
        tied = {l for r in spec["relations"] for l in (r["source"], r["target"])} & {c["target"] for c in spec["constraints"]}
        for it in spec["constraints"] + spec["relations"]:
            if rng.random() < 0.6 and not ({it["target"], it.get("source", it["target"])} & tied):
                x, v = rng.choice(pairs)
                iv = separating_interval(rng, x, v)
                it["interval"] = [J(iv[0]), J(iv[1])] if rng.random() < 0.7 else [[J(iv[0]), J(iv[1])], rand_iv(rng, gc)]
        for p in spec["penalties"]:
            if rng.random() < 0.4:
                x, v = rng.choice(pairs)
                iv = separating_interval(rng, x, v)
                p[rng.choice(["source_intervals", "target_intervals"])][0] = [J(iv[0]), J(iv[1])]
    dl = [d["label"] for d in spec["datasets"]]
    for _ in range(rng.choice([0, 1, 1, 2, 3])):
        who = rng.sample(dl, rng.randint(1, len(dl)))
        if rng.random() < 0.2:
            who = who + [who[0] + "0"]
        ds0 = next(d for d in spec["datasets"] if d["label"] == who[0])
        mc = bound_candidates(ds0["model_axis"])
        spec["weights"].append({"datasets": who, "value": rng.choice([2.0, 3.0, 0.5, 5.0]),
                                "global_interval": rand_iv(rng, gc) if rng.random() < 0.75 else None,
                                "model_interval": rand_iv(rng, mc) if rng.random() < 0.4 else None})
    if spec["weights"] and rng.random() < 0.3:
        # the dataset-plus-model weight case
        ds = next(d for d in spec["datasets"] if d["label"] == spec["weights"][0]["datasets"][0])
        if ds.get("weight") is None:
            ds["weight"] = [[rng.choice([1.0, 2.0, 0.5, 4.0]) for _ in ds["global_axis"]] for _ in ds["model_axis"]]
    spec["vary"] = [sorted(P)[0]]
    spec["max_nfev"] = 1
    return spec


def reassigned_spec(rng, spec):
    """the same scheme with new intervals on (most of) its interval-carrying items — half-infinite ones included"""
    new = copy.deepcopy(spec)
    gpts = sorted({x for ds in new["datasets"] for x in ds["global_axis"]})
    gc = bound_candidates(gpts)

    def fresh_iv():
        r = rng.random()
        if r < 0.35:
            b = rng.choice([v for v in gc if abs(v) != INF])
            return rng.choice([[J(b), "inf"], ["-inf", J(b)], ["inf", J(b)]])
        return rand_iv(rng, gc)

    def fresh_ivs(allow_none):
        r = rng.random()
        if allow_none and r < 0.1:
            return None
        if r < 0.7:
            return fresh_iv()
        return [fresh_iv() for _ in range(rng.randint(1, 3))]

    for c in new.get("constraints", []):
        if rng.random() < 0.85:
            c["interval"] = fresh_ivs(c["type"] == "zero")
    for r in new.get("relations", []):
        if rng.random() < 0.85:
            r["interval"] = fresh_ivs(True)
    for q in new.get("penalties", []):
        if rng.random() < 0.85:
            q["source_intervals"] = [fresh_iv() for _ in range(rng.randint(1, 2))]
        if rng.random() < 0.85:
            q["target_intervals"] = [fresh_iv() for _ in range(rng.randint(1, 2))]
    for w in new.get("weights", []):
        if rng.random() < 0.85:
            w["global_interval"] = fresh_iv() if rng.random() < 0.85 else None
    return new


def e2e_reassign_stream(ck, batch, n, model=True):
    """optimise -> reassign intervals -> optimise again on the same model object (linked and unlinked groups)"""
    gen_scheme.model_class()
    done = 0
    for _ in range(20 * n):
        if done >= n:
            break
        spec = e2e_spec(ck.rng)
        if not any(spec.get(k) for k in ("constraints", "relations", "penalties", "weights")):
            continue
        if tied_pairs(spec):
            continue            # a relation and a constraint on one clp keep their disjoint intervals
        spec2 = reassigned_spec(ck.rng, spec)
        check_case(ck, {"kind": "e2e-reassign", "spec": spec2, "first": spec}, batch, model)
        done += 1
        if done <= 1:
            ck.sample({"kind": "e2e-reassign", "first-intervals": [c.get("interval") for c in spec["constraints"] + spec["relations"]],
                       "second-intervals": [c.get("interval") for c in spec2["constraints"] + spec2["relations"]]})
        if len(batch) >= 40:
            flush(ck, batch)
        if not model and ck.violations:
            break
    flush(ck, batch)


def multi_dataset_penalty_stream(ck, batch, n, model=True):
    """unlinked groups with >= 2 datasets and equal-area penalties: each dataset's penalty once in additional_penalty"""
    rng = ck.rng
    done = 0
    for _ in range(30 * n):
        if done >= n:
            break
        spec = e2e_spec(rng, force_extra={"link_clp": False, "n_datasets": rng.choice([2, 2, 3]), "tol": 0.0})
        unl = [g for g in orc.group_order(spec) if not gen_scheme.resolve_linked(spec, g)
               and sum(1 for d in spec["datasets"] if d["group"] == g and not d.get("gmcs")) >= 2]
        if not unl:
            continue
        labels = sorted({l for ds in spec["datasets"] for mc in ds["mcs"] for l in mc["labels"]})
        if len(labels) < 2:
            continue
        if not spec["penalties"]:
            gpts = sorted({x for ds in spec["datasets"] for x in ds["global_axis"]})
            gc = bound_candidates(gpts)
            s_, t_ = rng.sample(labels, 2)
            label = f"p.{len(spec['parameters']) + 1}"
            spec["parameters"][label] = rng.choice([1.0, 2.0, 0.5])
            spec["penalties"].append({"source": s_, "source_intervals": [rand_iv(rng, gc)], "target": t_,
                                      "target_intervals": [rand_iv(rng, gc)], "parameter": label, "weight": rng.choice([1.0, 2.0, 4.0])})
        ck.count("e2e-penalty:unlinked-group-with-several-datasets")
        check_case(ck, {"kind": "e2e", "spec": spec}, batch, model)
        done += 1
        if len(batch) >= 40:
            flush(ck, batch)
        if not model and ck.violations:
            break
    flush(ck, batch)


def tied_pairs(spec):
    return {l for r in spec.get("relations", []) for l in (r["source"], r["target"])} & {c["target"] for c in spec.get("constraints", [])}


# =================================================================================================
# streams
# =================================================================================================
def unit_streams(ck, batch, model=True, scale=1.0):
    rng = ck.rng
    # --- slices + single-interval areas: exhaustive on the small space, exhaustive or sampled on the large one
    small = list(axes_of(GRID5, 3))
    for axis in small:
        for case in slice_cases(axis):
            check_case(ck, case, batch, model)
        for inner, outer in widenings(axis):
            check_case(ck, {"kind": "slice-mono", "inner": inner, "outer": outer, "axis": axis}, batch, model)
    ck.count("stream:slice-small-exhaustive")
    big = list(axes_of(GRID9, 5))
    if ck.quick:
        n_big = int(12000 * scale)
        for _ in range(n_big):
            axis = rng.choice(big)
            c = bound_candidates(axis)
            check_case(ck, {"kind": "slice", "interval": rand_iv(rng, c), "axis": axis}, batch, model)
        for _ in range(int(3000 * scale)):
            axis = rng.choice(big)
            inner, outer = rng.choice(list(widenings(axis)))
            check_case(ck, {"kind": "slice-mono", "inner": inner, "outer": outer, "axis": axis}, batch, model)
        ck.count("stream:slice-large-sampled")
    else:
        for axis in big:
            for case in slice_cases(axis):
                check_case(ck, case, batch, model)
            if len(batch) > 20000:
                flush(ck, batch)
        for axis in big:
            if len(axis) <= 4 or rng.random() < 0.25:
                for inner, outer in widenings(axis):
                    check_case(ck, {"kind": "slice-mono", "inner": inner, "outer": outer, "axis": axis}, batch, model)
            if len(batch) > 20000:
                flush(ck, batch)
        ck.count("stream:slice-large-exhaustive")
        ck.exhaustive = True
    flush(ck, batch)
    # --- applies / does_interval_item_apply
    for axis in (small if ck.quick else list(axes_of(GRID5, 4))):
        c = bound_candidates(axis)
        xs = [v for v in c if abs(v) != INF]
        for kind in ("zero", "only", "relation"):
            check_case(ck, {"kind": "applies", "item": kind, "interval": None, "x": xs[len(xs) // 2]}, batch, model)
            check_case(ck, {"kind": "does", "item": kind, "interval": None, "index": None}, batch, model)
            check_case(ck, {"kind": "does", "item": kind, "interval": None, "index": xs[0]}, batch, model)
            pairs = list(itertools.product(c, c))
            if len(axis) > 2:
                pairs = rng.sample(pairs, min(len(pairs), 60 if ck.quick else 200))
            for lo, hi in pairs:
                iv = [J(lo), J(hi)]
                for x in xs:
                    check_case(ck, {"kind": "applies", "item": kind, "interval": iv, "x": x}, batch, model)
                check_case(ck, {"kind": "does", "item": kind, "interval": iv, "index": None}, batch, model)
                check_case(ck, {"kind": "does", "item": kind, "interval": iv, "index": rng.choice(xs)}, batch, model)
    for _ in range(int(ck.n(1500, 30000) * scale)):
        axis = rand_axis(rng)
        c = bound_candidates(axis)
        ivs = [rand_iv(rng, c) for _ in range(rng.randint(1, 3))]
        x = rng.choice([v for v in c if abs(v) != INF])
        check_case(ck, {"kind": "applies", "item": rng.choice(["zero", "only", "relation"]), "interval": ivs, "x": x}, batch, model)
    flush(ck, batch)
    # --- items are re-read: use an item, assign a new interval (same object / deep copy / evolve copy as in fill_item), use it again
    for _ in range(int(ck.n(2500, 30000) * scale)):
        axis = rand_axis(rng)
        c = bound_candidates(axis)
        xs = [v for v in c if abs(v) != INF]
        first, second = rand_ivs(rng, c), rand_ivs(rng, c)
        if rng.random() < 0.3:
            b = rng.choice(xs)
            second = rng.choice([[J(b), "inf"], ["-inf", J(b)], ["inf", J(b)]])
        check_case(ck, {"kind": "reassign", "item": rng.choice(["zero", "only", "relation"]), "first": first, "second": second,
                        "x": rng.choice(xs), "via": rng.choice(["same", "same", "deepcopy", "evolve"])}, batch, model)
    flush(ck, batch)
    # --- areas
    for axis in small:
        full = [True] * len(axis)
        for case in slice_cases(axis):
            check_case(ck, {"kind": "area", "intervals": [case["interval"]], "axis": axis, "mask": full,
                            "flat": len(axis) % 2 == 0}, batch, model)
        for inner, outer in widenings(axis):
            mask = [rng.random() < 0.8 for _ in axis]
            check_case(ck, {"kind": "area-mono", "inner": inner, "outer": outer, "axis": axis, "mask": mask}, batch, model)
    for _ in range(int(ck.n(8000, 120000) * scale)):
        axis = rng.choice(big)
        c = bound_candidates(axis)
        mask = [rng.random() < 0.75 for _ in axis]
        k = rng.choice([1, 1, 2, 3])
        check_case(ck, {"kind": "area", "intervals": [rand_iv(rng, c) for _ in range(k)], "axis": axis, "mask": mask,
                        "flat": False}, batch, model)
        if len(batch) > 20000:
            flush(ck, batch)
    flush(ck, batch)
    # --- model weights
    for _ in range(int(ck.n(3000, 40000) * scale)):
        check_case(ck, rand_weight_case(rng), batch, model)
        if len(batch) > 5000:
            flush(ck, batch)
    flush(ck, batch)


def full_model_weight_stream(ck, batch, n, model=True):
    """datasets with a global model (full-model path) and model weights on global_interval x model_interval: the flattened
    weight has to reach the rows of the Kronecker matrix that belong to the points inside both intervals"""
    rng = ck.rng
    done = 0
    for _ in range(30 * n):
        if done >= n:
            break
        spec = e2e_spec(rng, force_extra={"link_clp": False, "tol": 0.0, "full_model": True, "n_datasets": rng.choice([1, 1, 2])})
        full = [d for d in spec["datasets"] if d.get("gmcs")]
        if not full:
            continue
        ds0 = rng.choice(full)
        if len(ds0["global_axis"]) < 2 or len(ds0["model_axis"]) < 2:
            continue
        gc = bound_candidates(sorted(ds0["global_axis"]))
        mc = bound_candidates(ds0["model_axis"])
        spec["weights"] = [w for w in spec["weights"] if ds0["label"] not in w["datasets"]]
        spec["weights"].append({"datasets": [ds0["label"]], "value": rng.choice([2.0, 3.0, 0.5, 5.0]),
                                "global_interval": rand_iv(rng, gc), "model_interval": rand_iv(rng, mc)})
        ck.count("e2e-weight:full-model-with-interval-weight")
        check_case(ck, {"kind": "e2e", "spec": spec}, batch, model)
        done += 1
        if len(batch) >= 40:
            flush(ck, batch)
        if not model and ck.violations:
            break
    flush(ck, batch)


def e2e_stream(ck, batch, n, model=True):
    gen_scheme.model_class()
    for i in range(n):
        spec = e2e_spec(ck.rng)
        check_case(ck, {"kind": "e2e", "spec": spec}, batch, model)
        if i < 1:
            ck.sample({"kind": "e2e", "spec": spec})
        if len(batch) >= 40:
            flush(ck, batch)
        if not model and ck.violations:
            break
    flush(ck, batch)


def run(ck):
    gen_scheme.model_class()
    batch = []
    for c in core.load_corpus(PROP):
        check_case(ck, c["case"], batch)
        ck.count("stream:corpus")
    flush(ck, batch)
    ck.sample({"kind": "slice", "interval": [1.0, "inf"], "axis": [0.0, 1.0, 2.0, 3.0, 4.0]})
    unit_streams(ck, batch)
    ck.sample(rand_weight_case(ck.rng))
    e2e_stream(ck, batch, ck.n(140, 2500))
    e2e_reassign_stream(ck, batch, ck.n(40, 800))
    multi_dataset_penalty_stream(ck, batch, ck.n(25, 400))
    full_model_weight_stream(ck, batch, ck.n(25, 400))
    c = ck.counters
    ck.extra["link_member_vs_aligned"] = {
        "member points of linked groups": c.get("link:member-points", 0),
        "merged into another coordinate (tolerance > 0)": c.get("link:member-points-merged-into-another-coordinate", 0),
        "merged member x interval-carrying constraint/relation": c.get("link:merged-member-x-interval-item", 0),
        "of these: own and aligned coordinate disagree about membership":
            sum(v for k, v in c.items() if k.startswith("link:merged-member-disagrees-with-aligned:")),
        "member inside / aligned outside": sum(v for k, v in c.items() if k.startswith("link:merged-member-disagrees") and k.endswith("member-inside-aligned-outside")),
        "member outside / aligned inside": sum(v for k, v in c.items() if k.startswith("link:merged-member-disagrees") and k.endswith("member-outside-aligned-inside")),
        "model (linkDecisions): merged members / with a differing decision": [c.get("linkdec:members-merged", 0), c.get("linkdec:members-merged-with-a-different-decision", 0)],
        "note": "60 % of the constraint / relation intervals of schemes with merged points are aimed at the gap on purpose",
    }
    ck.extra["tolerances"] = {"clp relative (model)": RTOL, "penalty relative (model) / clp+penalty (numpy reference)": PEN_RTOL, "slices/truth values/weights/number_of_clps/warnings": "exact"}


def search(ck):
    """widened oracle-only sweep on the real code"""
    batch = []
    unit_streams(ck, batch, model=False, scale=2.0)
    if not ck.violations:
        e2e_stream(ck, batch, ck.n(120, 1500), model=False)
    if not ck.violations:
        e2e_reassign_stream(ck, batch, ck.n(60, 600), model=False)
    if not ck.violations:
        multi_dataset_penalty_stream(ck, batch, ck.n(40, 400), model=False)
    if not ck.violations:
        full_model_weight_stream(ck, batch, ck.n(40, 400), model=False)


def replay(ck, case):
    gen_scheme.model_class()
    cases = []
    if "case" in case and isinstance(case["case"], dict) and "kind" in case["case"]:
        cases.append(case["case"])
    for d in case.get("disagreements", []):
        if "kind" in d.get("case", {}):
            cases.append(d["case"])
    batch = []
    for c in cases:
        c = {k: v for k, v in c.items() if k not in ("real", "model", "observed", "required")}
        check_case(ck, c, batch)
    flush(ck, batch)
    for d in ck.disagreements:
        print("DISAGREEMENT", d["what"])
