"""C13 — scheme specs for complete optimisations (on top of harness/gen_scheme.py).

Extra keys of a C13 spec (all optional, JSON-able; gen_scheme.build ignores what it does not know):
  optimization_method, max_nfev          (read by gen_scheme.build)
  vary: [labels] | None                   (read by gen_scheme.build; None = every parameter is free)
  non_negative: [labels]                  (applied by build() below: optimised in log space)
  data_scale_pow2: int                    (data already multiplied by 2**k when the spec was made; a tag only)
  stream: str                             (which generator made it; a tag only)
"""
from __future__ import annotations

import copy

import numpy as np

from harness import gen_scheme

METHODS = ["TrustRegionReflection", "Dogbox", "Levenberg-Marquardt"]


def build(spec):
    """gen_scheme.build + non-negative flags"""
    scheme, model, parameters, data = gen_scheme.build(spec)
    for label in spec.get("non_negative") or []:
        parameters.get(label).non_negative = True
    for label, (lo, hi) in (spec.get("bounds") or {}).items():
        parameters.get(label).minimum = lo
        parameters.get(label).maximum = hi
    # the SVDs of data/residual that create_result_data can add are not C13's subject (and dominate the run time)
    scheme.add_svd = bool(spec.get("add_svd", False))
    return scheme, model, parameters, data


def free_labels(spec):
    """labels the optimiser varies, in declaration order of Parameters.from_dict (p.1, p.2, ...)"""
    labels = sorted(spec["parameters"], key=lambda l: int(l.rsplit(".", 1)[1]))
    vary = spec.get("vary")
    return [l for l in labels if vary is None or l in vary]


def _new_param(spec, v):
    label = f"p.{len(spec['parameters']) + 1}"
    spec["parameters"][label] = v
    return label


def _rank_ok(spec):
    for ds in spec["datasets"]:
        mats = gen_scheme._combined_columns(ds["mcs"], len(ds["model_axis"]), len(ds["global_axis"]), spec["parameters"])
        for m in mats:
            if m.shape[1] > m.shape[0] or np.linalg.matrix_rank(m) < m.shape[1] or np.linalg.cond(m) > 500:
                return False
    return True


def add_mixing(rng, spec, n_mix=None):
    """make some parameters matter non-trivially: an extra megacomplex contributes  p * column  to an existing
    label, so the direction of that compartment's column depends on p (a plain column scale would not change a
    variable-projection residual).  Returns the labels of the mixing parameters."""
    mixing = []
    cands = [ds for ds in spec["datasets"]]
    rng.shuffle(cands)
    n_mix = n_mix or rng.choice([1, 1, 2, 3])
    for ds in cands:
        if len(mixing) >= n_mix:
            break
        n_model, n_global = len(ds["model_axis"]), len(ds["global_axis"])
        for _ in range(10):
            trial = copy.deepcopy(spec)
            tds = next(d for d in trial["datasets"] if d["label"] == ds["label"])
            label = rng.choice([l for mc in tds["mcs"] for l in mc["labels"]])
            p = _new_param(trial, rng.choice([1.0, 0.5, 1.5, 2.0, 0.75]))
            idx_dep = any(mc["index_dependent"] for mc in tds["mcs"]) and rng.random() < 0.4
            col = lambda: [[float(rng.randint(-3, 5))] for _ in range(n_model)]
            mc = {"labels": [label], "index_dependent": idx_dep,
                  "base": [col() for _ in range(n_global)] if idx_dep else col(), "pars": [p], "scale": None}
            if any(m.get("scale") is not None for m in tds["mcs"]):
                mc["scale"] = _new_param(trial, 1.0)
            tds["mcs"].append(mc)
            if _rank_ok(trial):
                spec.clear()
                spec.update(trial)
                mixing.append(p)
                break
    return mixing


def finish(rng, spec, stream, vary=None, method=None, max_nfev=None, non_negative=None):
    spec["optimization_method"] = method or rng.choice(METHODS)
    spec["max_nfev"] = max_nfev if max_nfev is not None else rng.choice([1, 2, 3, 5, 8])
    spec["vary"] = vary
    labels = free_labels(spec)
    if non_negative is None:
        non_negative = [l for l in labels if spec["parameters"][l] > 0 and rng.random() < 0.35]
    spec["non_negative"] = non_negative
    spec["add_svd"] = rng.random() < 0.1
    spec["stream"] = stream
    return spec


def scale_data(spec, k):
    """multiply all data by 2**k (exact)"""
    f = 2.0 ** k
    for ds in spec["datasets"]:
        ds["data"] = [[v * f for v in row] for row in ds["data"]]
    spec["data_scale_pow2"] = k
    return spec


def rand_c13(rng, stream=None):
    """one C13 spec; streams:
       random   any scheme of the C02 space, every parameter free (most Jacobian columns are numerically zero)
       mixing   as random plus 1-3 mixing parameters; only those (and sometimes one more) are free: well-conditioned J
       items    single group, forced linked or unlinked, with constraint + relation + penalty drawn until present
       full     at least one dataset with a global model
       tiny     a mixing spec with all data multiplied by 2**-30 (singular values of J around 1e-8)
       huge     the same with 2**+20
    """
    stream = stream or rng.choice(["random", "mixing", "mixing", "items", "items", "full", "tiny", "huge"])
    if stream == "random":
        spec = gen_scheme.rand_spec(rng)
        labels = sorted(spec["parameters"])
        vary = None if rng.random() < 0.5 else rng.sample(labels, rng.randint(1, len(labels)))
        return finish(rng, spec, stream, vary=vary)
    if stream == "full":
        spec = gen_scheme.rand_spec(rng, force={"full_model": True, "link_clp": False} if rng.random() < 0.5 else
                                    {"link_clp": rng.choice([None, False])})
        if not any(d.get("gmcs") for d in spec["datasets"]):
            spec = gen_scheme.rand_spec(rng, force={"full_model": True, "link_clp": False, "n_datasets": rng.choice([1, 2])})
        mixing = add_mixing(rng, spec)
        return finish(rng, spec, stream, vary=mixing or None)
    if stream == "items":
        force = {"n_groups": 1, "link_clp": rng.choice([True, True, False]), "full_model": False}
        for _ in range(40):
            spec = gen_scheme.rand_spec(rng, force=force)
            if (spec["constraints"] or spec["relations"]) and (spec["penalties"] or rng.random() < 0.3):
                break
        mixing = add_mixing(rng, spec)
        vary = list(mixing)
        for key in ("relations", "penalties"):
            for item in spec[key]:
                if rng.random() < 0.6:
                    vary.append(item["parameter"])
        for ds in spec["datasets"]:
            if ds.get("scale") and rng.random() < 0.5:
                vary.append(ds["scale"])
        return finish(rng, spec, stream, vary=sorted(set(vary)) or None)
    # mixing / tiny / huge
    spec = gen_scheme.rand_spec(rng)
    mixing = add_mixing(rng, spec)
    vary = list(mixing)
    if rng.random() < 0.25:
        others = [l for l in spec["parameters"] if l not in vary]
        if others:
            vary.append(rng.choice(others))
    if rng.random() < 0.15:
        vary.append(_new_param(spec, 1.0))          # a free parameter nothing depends on: exact zero column of J
    spec = finish(rng, spec, stream, vary=sorted(set(vary)) or None)
    if stream == "tiny":
        scale_data(spec, -30)
    elif stream == "huge":
        scale_data(spec, 20)
    return spec
